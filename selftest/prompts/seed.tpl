You are helping evaluate a verification effort by playing the role of a careless-but-plausible contributor to an open-source Rust project.

The project is `ohkami` (a Rust web framework: own HTTP/1.1 parser, router, middleware called "fangs", serde codecs, JWT, OpenAPI generation). You have your OWN scratch git worktree of it at {WT} (detached HEAD). Work ONLY inside {WT}. Never touch /repo or /verif, never read anything under /verif. Never use `git stash` (the stash is shared with other worktrees; use `git diff > _mine.diff && git apply -R _mine.diff` / `git apply _mine.diff` instead).

The sandbox has NO network: always pass `--offline` to cargo (and set CARGO_NET_OFFLINE=true). Use `CARGO_TARGET_DIR={WT}/target` (the default) so you do not disturb other work.

## The property

Here is ONE semantic property that the project is supposed to satisfy (JSON record, including where in the code it is anchored):

{PROP}

## Your job

Produce ONE small, realistic source change to the project (in {WT}) that BREAKS this property, such that:

1. The project still compiles: `cd {WT} && cargo check --offline -p ohkami --features rt_tokio,sse,ws,openapi` succeeds, and the existing test suite still passes unchanged: `cd {WT} && cargo test --workspace --offline --lib` (43 tests, all must pass; do not edit, add or delete tests in the repository's test modules).
2. The breakage is NOT something ordinary use would expose at once. It must need something specific to manifest: a particular interleaving, a crash/fault at a particular point, a multi-step sequence of operations, an unusual input, a particular configuration, or two cooperating sites that each look fine alone. Think of the kind of regression that survives code review: an off-by-one in a guard, a dropped check on one path, a swapped pair in a table, a reordered statement, a condition that is subtly too weak, a cleanup skipped on an error path, a changed constant, an `&&` that became `||` on a rarely-taken branch.
3. It is a change to the library's real code paths (not to comments, docs, tests, examples or build scripts), at most ~30 changed lines, and it looks like something a contributor could plausibly write (a refactor, an "optimisation", a "simplification", a feature tweak).
4. You provide a DEMONSTRATION: a small standalone Rust program or test (put it in a NEW scratch crate at {WT}/_demo with its own Cargo.toml depending on the worktree's crates by path, e.g. `ohkami = {{ path = "../ohkami", features = ["rt_tokio"] }}`; copy {WT}/Cargo.lock into it so cargo can resolve offline; add `[workspace]` to its Cargo.toml so it is not part of the repo workspace) that FAILS (non-zero exit or failed assertion) with your change applied and PASSES on the unchanged code. For server behaviour you may start a real server on 127.0.0.1 (loopback works) with `Ohkami::new(..).howl(("127.0.0.1", port))` inside a tokio runtime on a background thread and talk to it with std::net::TcpStream sending raw bytes; library-level functions (e.g. in `ohkami_lib`, `ohkami::util`, response/header builders) can be called directly. Verify BOTH directions yourself: run the demo with the change (must fail) and with the change reverted via `git diff -- . ':(exclude)_demo' ':(exclude)_out' > _mine.diff && git apply -R _mine.diff` (must pass), then re-apply with `git apply _mine.diff`.

{EXTRA}## Deliverables (write them into {WT}/_out/)

- `{WT}/_out/patch.diff` : output of `git -C {WT} diff -- . ':(exclude)_demo' ':(exclude)_out' ':(exclude)_mine.diff'` (the change to the project only).
- `{WT}/_out/demo/` : a copy of the demonstration crate sources (Cargo.toml, src/…, no target dir).
- `{WT}/_out/meta.json` : {{"property": "{PID}", "summary": "<one sentence: what the change does>", "needs_to_manifest": "<what specific input/sequence/interleaving/configuration is needed>", "files_changed": [...], "commands_run": ["..."], "demo_fails_with_change": true/false, "demo_passes_without_change": true/false, "tests_pass_with_change": true/false}}

Leave your change APPLIED in the worktree when you finish (and delete _mine.diff). Keep builds modest (this machine is shared): do not run `cargo clean`, do not build benches/examples/samples. In your final answer, summarise the change in 3-5 lines and state the three verification results.
