You are helping evaluate a verification effort by playing the role of a careful contributor to an open-source Rust project.

The project is `ohkami` (a Rust web framework: own HTTP/1.1 parser, router, middleware called "fangs", serde codecs, JWT, OpenAPI generation). You have your OWN scratch git worktree of it at {WT} (detached HEAD). Work ONLY inside {WT}. Never touch /repo or /verif, never read anything under /verif. Never use `git stash` (the stash is shared with other worktrees; use `git diff > _mine.diff && git apply -R _mine.diff` / `git apply _mine.diff` instead).

The sandbox has NO network: always pass `--offline` to cargo (and set CARGO_NET_OFFLINE=true).

## Context

Here is ONE semantic property that the project is supposed to satisfy (JSON record, including where in the code it is anchored):

{PROP}

## Your job

Produce ONE realistic, BEHAVIOUR-PRESERVING refactoring of the code this property is anchored in (the files / functions named under "anchors"), of the kind a maintainer would happily merge: for example extract a helper function, inline a helper, rename local variables, replace an explicit loop by iterator combinators (or the reverse), replace `match` by `if let`/`let else` (or the reverse), reorder independent statements, replace an `unsafe` unchecked access by the equivalent safe one where a guard makes it obviously fine, change `a.len() >= 2` into `!(a.len() < 2)`-style equivalent conditions, hoist a constant, use a different but equivalent std API (`split_once` vs `find` + slicing, `is_some_and` vs `map_or(false, ..)`, `strip_suffix` vs `ends_with` + slicing), split a long function in two, merge two small ones. Touch 15-60 lines, in the hot/central code of the property (not comments, docs, tests, examples).

Requirements:
1. The property must STILL HOLD exactly as before: same observable behaviour for every input, configuration and schedule. Do not fix bugs, do not change which inputs are accepted or refused, do not change outputs, ordering, error kinds or status codes. If in doubt about an edge case, choose a different refactoring.
2. The project compiles: `cd {WT} && cargo check --offline -p ohkami --features rt_tokio,sse,ws,openapi` succeeds, and the existing test suite passes unchanged: `cd {WT} && cargo test --workspace --offline --lib` (43 tests). Also run `cargo test -p ohkami --features rt_tokio,sse,ws,openapi,DEBUG --lib --offline` (44 feature-gated tests) and make sure they pass.
3. Provide a DIFFERENTIAL demonstration: a small standalone crate at {WT}/_demo (own Cargo.toml with `[workspace]`, path dependency on the worktree's crates, e.g. `ohkami = {{ path = "../ohkami", features = ["rt_tokio"] }}`) that exercises the refactored code on a good spread of inputs including edge cases (at least 30 cases) and prints one line per case with the observed result. Run it with your change and with the change reverted (git apply -R) and confirm the two outputs are byte-identical (`diff`).

{EXTRA}## Deliverables (write them into {WT}/_out/)

- `{WT}/_out/patch.diff` : output of `git -C {WT} diff -- . ':(exclude)_demo' ':(exclude)_out' ':(exclude)_mine.diff'`.
- `{WT}/_out/meta.json` : {{"property": "{PID}", "summary": "<one sentence: what the refactoring does>", "files_changed": [...], "outputs_identical": true/false, "tests_pass": true/false}}

Leave your change APPLIED in the worktree when you finish. Keep builds modest (this machine is shared): do not run `cargo clean`. In your final answer, summarise the refactoring in 3-5 lines.
