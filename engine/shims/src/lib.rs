//! Reference bodies of std's closure-taking combinators, written out as the loops / matches they stand for.
//! They are never linked or run: the mirfacts driver dumps their MIR, and `rules/lib/inline.py` splices a body in place
//! of the corresponding std call when a rule asks for the *expanded* view of a function, so that
//! `xs.iter().find_map(|x| f(x))` and `for x in xs { if let Some(v) = f(x) { return Some(v) } }` look alike to the
//! rules. Parameter order = the std method's (receiver first).
#![allow(unused)]

pub fn option_map<T, U, F: FnOnce(T) -> U>(o: Option<T>, f: F) -> Option<U> {
    match o { Some(x) => Some(f(x)), None => None }
}
pub fn option_and_then<T, U, F: FnOnce(T) -> Option<U>>(o: Option<T>, f: F) -> Option<U> {
    match o { Some(x) => f(x), None => None }
}
pub fn option_filter<T, P: FnOnce(&T) -> bool>(o: Option<T>, p: P) -> Option<T> {
    if let Some(x) = o { if p(&x) { return Some(x) } }
    None
}
pub fn option_is_some_and<T, F: FnOnce(T) -> bool>(o: Option<T>, f: F) -> bool {
    match o { None => false, Some(x) => f(x) }
}
pub fn option_is_none_or<T, F: FnOnce(T) -> bool>(o: Option<T>, f: F) -> bool {
    match o { None => true, Some(x) => f(x) }
}
pub fn option_map_or<T, U, F: FnOnce(T) -> U>(o: Option<T>, d: U, f: F) -> U {
    match o { Some(x) => f(x), None => d }
}
pub fn option_map_or_else<T, U, D: FnOnce() -> U, F: FnOnce(T) -> U>(o: Option<T>, d: D, f: F) -> U {
    match o { Some(x) => f(x), None => d() }
}
pub fn option_ok_or_else<T, E, F: FnOnce() -> E>(o: Option<T>, f: F) -> Result<T, E> {
    match o { Some(x) => Ok(x), None => Err(f()) }
}
pub fn option_unwrap_or_else<T, F: FnOnce() -> T>(o: Option<T>, f: F) -> T {
    match o { Some(x) => x, None => f() }
}
pub fn option_or_else<T, F: FnOnce() -> Option<T>>(o: Option<T>, f: F) -> Option<T> {
    match o { Some(x) => Some(x), None => f() }
}
pub fn result_map<T, E, U, F: FnOnce(T) -> U>(r: Result<T, E>, f: F) -> Result<U, E> {
    match r { Ok(x) => Ok(f(x)), Err(e) => Err(e) }
}
pub fn result_map_err<T, E, G, F: FnOnce(E) -> G>(r: Result<T, E>, f: F) -> Result<T, G> {
    match r { Ok(x) => Ok(x), Err(e) => Err(f(e)) }
}
pub fn result_and_then<T, E, U, F: FnOnce(T) -> Result<U, E>>(r: Result<T, E>, f: F) -> Result<U, E> {
    match r { Ok(x) => f(x), Err(e) => Err(e) }
}
pub fn result_unwrap_or_else<T, E, F: FnOnce(E) -> T>(r: Result<T, E>, f: F) -> T {
    match r { Ok(x) => x, Err(e) => f(e) }
}
pub fn result_is_ok_and<T, E, F: FnOnce(T) -> bool>(r: Result<T, E>, f: F) -> bool {
    match r { Err(_) => false, Ok(x) => f(x) }
}

pub fn iter_find_map<I: Iterator, B, F: FnMut(I::Item) -> Option<B>>(it: &mut I, mut f: F) -> Option<B> {
    while let Some(x) = it.next() {
        if let Some(b) = f(x) { return Some(b) }
    }
    None
}
pub fn iter_find<I: Iterator, P: FnMut(&I::Item) -> bool>(it: &mut I, mut p: P) -> Option<I::Item> {
    while let Some(x) = it.next() {
        if p(&x) { return Some(x) }
    }
    None
}
pub fn iter_any<I: Iterator, F: FnMut(I::Item) -> bool>(it: &mut I, mut f: F) -> bool {
    while let Some(x) = it.next() {
        if f(x) { return true }
    }
    false
}
pub fn iter_all<I: Iterator, F: FnMut(I::Item) -> bool>(it: &mut I, mut f: F) -> bool {
    while let Some(x) = it.next() {
        if !f(x) { return false }
    }
    true
}
pub fn iter_position<I: Iterator, P: FnMut(I::Item) -> bool>(it: &mut I, mut p: P) -> Option<usize> {
    let mut i = 0;
    while let Some(x) = it.next() {
        if p(x) { return Some(i) }
        i += 1;
    }
    None
}
pub fn iter_for_each<I: Iterator, F: FnMut(I::Item)>(mut it: I, mut f: F) {
    while let Some(x) = it.next() { f(x) }
}
pub fn iter_fold<I: Iterator, B, F: FnMut(B, I::Item) -> B>(mut it: I, init: B, mut f: F) -> B {
    let mut acc = init;
    while let Some(x) = it.next() { acc = f(acc, x) }
    acc
}
