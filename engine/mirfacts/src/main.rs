// mirfacts: a rustc_private driver that dumps the *built* MIR (natural CFG, before
// any transform) of every body of the crate being compiled, with resolved callees,
// constants, spans and macro provenance, plus ADT/impl tables and evaluated table
// constants, as JSON lines. It never runs the analysed code.
//
// Usage (through cargo): RUSTC_WORKSPACE_WRAPPER=<this> MIRFACTS_OUT=<dir> cargo +nightly check ...
// One output file per compiled crate, written once per process.
#![feature(rustc_private)]
#![allow(clippy::all)]

extern crate rustc_abi;
extern crate rustc_driver;
extern crate rustc_hir;
extern crate rustc_interface;
extern crate rustc_middle;
extern crate rustc_span;

use std::fmt::Write as _;

use rustc_driver::Compilation;
use rustc_hir::def::DefKind;
use rustc_hir::def_id::{DefId, LocalDefId};
use rustc_middle::mir::{
    self, AggregateKind, BasicBlock, Body, Const as MirConst, ConstValue, Operand, Place,
    ProjectionElem, Rvalue, StatementKind, TerminatorKind, UnwindAction,
};
use rustc_middle::ty::print::{with_no_trimmed_paths, with_no_visible_paths, with_resolve_crate_name};
use rustc_middle::ty::{self, Instance, Ty, TyCtxt, TypeVisitableExt, TypingEnv};
use rustc_span::Span;

fn esc(s: &str, out: &mut String) {
    out.push('"');
    for c in s.chars() {
        match c {
            '"' => out.push_str("\\\""),
            '\\' => out.push_str("\\\\"),
            '\n' => out.push_str("\\n"),
            '\r' => out.push_str("\\r"),
            '\t' => out.push_str("\\t"),
            c if (c as u32) < 0x20 => {
                let _ = write!(out, "\\u{:04x}", c as u32);
            }
            c => out.push(c),
        }
    }
    out.push('"');
}

fn js(s: &str) -> String {
    let mut o = String::new();
    esc(s, &mut o);
    o
}

struct Cx<'tcx> {
    tcx: TyCtxt<'tcx>,
    crate_name: String,
}

impl<'tcx> Cx<'tcx> {
    fn path(&self, did: DefId) -> String {
        with_resolve_crate_name!(with_no_visible_paths!(with_no_trimmed_paths!(self.tcx.def_path_str(did))))
    }
    fn path_args(&self, did: DefId, args: ty::GenericArgsRef<'tcx>) -> String {
        with_resolve_crate_name!(with_no_visible_paths!(with_no_trimmed_paths!(self.tcx.def_path_str_with_args(did, args))))
    }
    fn ty(&self, t: Ty<'tcx>) -> String {
        with_resolve_crate_name!(with_no_visible_paths!(with_no_trimmed_paths!(format!("{}", t))))
    }

    fn span(&self, sp: Span, fn_file: &str, out: &mut String) {
        // "sp": position of the outermost call site in real source; "mx": macro chain
        let sm = self.tcx.sess.source_map();
        let cs = sp.source_callsite();
        let lo = sm.lookup_char_pos(cs.lo());
        let file = rel_file(&lo.file.name.prefer_local_unconditionally().to_string());
        out.push_str("\"sp\":");
        if file == fn_file {
            esc(&format!("{}:{}", lo.line, lo.col.0 + 1), out);
        } else {
            esc(&format!("{}:{}:{}", file, lo.line, lo.col.0 + 1), out);
        }
        if sp.from_expansion() {
            let mut names: Vec<String> = Vec::new();
            for ed in sp.macro_backtrace() {
                let n = match ed.kind {
                    rustc_span::ExpnKind::Macro(_, name) => name.to_string(),
                    rustc_span::ExpnKind::Desugaring(k) => format!("desugar:{:?}", k),
                    rustc_span::ExpnKind::AstPass(k) => format!("astpass:{:?}", k),
                    rustc_span::ExpnKind::Root => "root".to_string(),
                };
                names.push(n);
            }
            out.push_str(",\"mx\":[");
            for (i, n) in names.iter().enumerate() {
                if i > 0 {
                    out.push(',');
                }
                esc(n, out);
            }
            out.push(']');
            // inner (macro-definition-side) line
            let ilo = sm.lookup_char_pos(sp.lo());
            let ifile = rel_file(&ilo.file.name.prefer_local_unconditionally().to_string());
            out.push_str(",\"isp\":");
            esc(&format!("{}:{}:{}", ifile, ilo.line, ilo.col.0 + 1), out);
        }
    }

    fn place(&self, body: &Body<'tcx>, p: &Place<'tcx>, out: &mut String) {
        let _ = write!(out, "[{},[", p.local.as_u32());
        let mut first = true;
        for (base, elem) in p.iter_projections() {
            if !first {
                out.push(',');
            }
            first = false;
            match elem {
                ProjectionElem::Deref => out.push_str("[\"d\"]"),
                ProjectionElem::Field(f, fty) => {
                    let bty = base.ty(body, self.tcx);
                    let mut name = String::new();
                    match bty.ty.kind() {
                        ty::Adt(def, _) => {
                            let v = match bty.variant_index {
                                Some(vi) => Some(def.variant(vi)),
                                None => {
                                    if def.is_enum() {
                                        None
                                    } else {
                                        Some(def.non_enum_variant())
                                    }
                                }
                            };
                            if let Some(v) = v {
                                if let Some(fd) = v.fields.get(f) {
                                    name = fd.name.to_string();
                                }
                            }
                        }
                        ty::Closure(did, _) | ty::Coroutine(did, _) | ty::CoroutineClosure(did, _) => {
                            if let Some(ldid) = did.as_local() {
                                let caps = self.tcx.closure_captures(ldid);
                                if let Some(c) = caps.get(f.as_usize()) {
                                    name = format!("^{}", c.to_string(self.tcx));
                                }
                            }
                        }
                        _ => {}
                    }
                    let _ = write!(out, "[\"f\",{},{},{}]", f.as_u32(), js(&name), js(&self.ty(fty)));
                }
                ProjectionElem::Index(l) => {
                    let _ = write!(out, "[\"i\",{}]", l.as_u32());
                }
                ProjectionElem::ConstantIndex { offset, min_length, from_end } => {
                    let _ = write!(out, "[\"ci\",{},{},{}]", offset, min_length, from_end);
                }
                ProjectionElem::Subslice { from, to, from_end } => {
                    let _ = write!(out, "[\"sub\",{},{},{}]", from, to, from_end);
                }
                ProjectionElem::Downcast(name, vi) => {
                    let n = name.map(|s| s.to_string()).unwrap_or_default();
                    let _ = write!(out, "[\"dc\",{},{}]", js(&n), vi.as_u32());
                }
                ProjectionElem::OpaqueCast(_) => out.push_str("[\"oc\"]"),
                ProjectionElem::UnwrapUnsafeBinder(_) => out.push_str("[\"ub\"]"),
            }
        }
        out.push_str("]]");
    }

    fn read_bytes(&self, alloc_id: rustc_middle::mir::interpret::AllocId, offset: u64, len: u64) -> Option<Vec<u8>> {
        use rustc_middle::mir::interpret::GlobalAlloc;
        match self.tcx.try_get_global_alloc(alloc_id)? {
            GlobalAlloc::Memory(a) => {
                let a = a.inner();
                let total = a.len() as u64;
                if offset + len > total {
                    return None;
                }
                let bytes = a.inspect_with_uninit_and_ptr_outside_interpreter(offset as usize..(offset + len) as usize);
                Some(bytes.to_vec())
            }
            GlobalAlloc::Static(did) => {
                let a = self.tcx.eval_static_initializer(did).ok()?;
                let a = a.inner();
                let total = a.len() as u64;
                if offset + len > total {
                    return None;
                }
                let bytes = a.inspect_with_uninit_and_ptr_outside_interpreter(offset as usize..(offset + len) as usize);
                Some(bytes.to_vec())
            }
            _ => None,
        }
    }

    fn bytes_json(&self, b: &[u8], out: &mut String) {
        // as string if utf8, and always as array
        if let Ok(s) = std::str::from_utf8(b) {
            out.push_str("\"s\":");
            esc(s, out);
            out.push(',');
        }
        out.push_str("\"b\":[");
        for (i, x) in b.iter().enumerate() {
            if i > 0 {
                out.push(',');
            }
            let _ = write!(out, "{}", x);
        }
        out.push(']');
    }

    fn const_value(&self, val: ConstValue, t: Ty<'tcx>, out: &mut String) {
        // appends zero or more `,"key":value` pairs
        match val {
            ConstValue::Scalar(mir::interpret::Scalar::Int(i)) => {
                let size = i.size();
                let bits = i.to_bits(size);
                let _ = write!(out, ",\"v\":\"{}\"", bits);
                if t.is_signed() {
                    let sv = size.sign_extend(bits);
                    let _ = write!(out, ",\"sv\":\"{}\"", sv);
                }
                if t.is_char() {
                    if let Some(c) = char::from_u32(bits as u32) {
                        out.push_str(",\"ch\":");
                        esc(&c.to_string(), out);
                    }
                }
            }
            ConstValue::Scalar(mir::interpret::Scalar::Ptr(ptr, _)) => {
                // &[u8; N] or &T literal
                let (prov, off) = ptr.into_raw_parts();
                let alloc_id = prov.alloc_id();
                if let Some(rustc_middle::mir::interpret::GlobalAlloc::Static(sdid)) = self.tcx.try_get_global_alloc(alloc_id) {
                    let _ = write!(out, ",\"static\":{}", js(&self.path(sdid)));
                    return;
                }
                if let Some(rustc_middle::mir::interpret::GlobalAlloc::Function { instance }) = self.tcx.try_get_global_alloc(alloc_id) {
                    let _ = write!(out, ",\"fnptr\":{}", js(&self.path(instance.def_id())));
                    return;
                }
                if let ty::Ref(_, inner, _) = t.kind() {
                    let mut done = false;
                    if let ty::Array(elem, n) = inner.kind() {
                        if *elem == self.tcx.types.u8 {
                            if let Some(n) = n.try_to_target_usize(self.tcx) {
                                if let Some(b) = self.read_bytes(alloc_id, off.bytes(), n) {
                                    out.push(',');
                                    self.bytes_json(&b, out);
                                    done = true;
                                }
                            }
                        }
                    }
                    if !done {
                        // any other sized pointee (tables of small structs, arrays whose length is a const expression)
                        let env = TypingEnv::fully_monomorphized();
                        if let Ok(inner_n) = self.tcx.try_normalize_erasing_regions(env, ty::Unnormalized::new(*inner)) {
                            if let Ok(layout) = self.tcx.layout_of(env.as_query_input(inner_n)) {
                                let sz = layout.size.bytes();
                                if sz <= 65536 {
                                    if let Some(b) = self.read_bytes(alloc_id, off.bytes(), sz) {
                                        out.push_str(",\"raw\":[");
                                        for (i, x) in b.iter().enumerate() {
                                            if i > 0 {
                                                out.push(',');
                                            }
                                            let _ = write!(out, "{}", x);
                                        }
                                        out.push(']');
                                        if let ty::Array(elem, _) = inner_n.kind() {
                                            if let Ok(l) = self.tcx.layout_of(env.as_query_input(*elem)) {
                                                let _ = write!(out, ",\"elem_size\":{}", l.size.bytes());
                                            }
                                        }
                                    }
                                }
                            }
                        }
                    }
                }
            }
            ConstValue::Slice { alloc_id, meta } => {
                if let ty::Ref(_, inner, _) = t.kind() {
                    let ok = match inner.kind() {
                        ty::Str => true,
                        ty::Slice(e) => *e == self.tcx.types.u8,
                        _ => false,
                    };
                    if ok {
                        if let Some(b) = self.read_bytes(alloc_id, 0, meta) {
                            out.push(',');
                            self.bytes_json(&b, out);
                        }
                    }
                }
            }
            ConstValue::ZeroSized => {}
            ConstValue::Indirect { alloc_id, offset } => {
                // a named `&str` / `&[u8]` constant: the value is a fat pointer stored in an allocation; follow it
                if let ty::Ref(_, inner, _) = t.kind() {
                    let is_bytes = matches!(inner.kind(), ty::Str) || matches!(inner.kind(), ty::Slice(e) if *e == self.tcx.types.u8);
                    if is_bytes {
                        use rustc_middle::mir::interpret::GlobalAlloc;
                        if let Some(GlobalAlloc::Memory(a)) = self.tcx.try_get_global_alloc(alloc_id) {
                            let a = a.inner();
                            let off = offset.bytes();
                            if off + 16 <= a.len() as u64 {
                                if let Some((_, p)) = a.provenance().ptrs().iter().find(|(o, _)| o.bytes() == off) {
                                    let raw = a.inspect_with_uninit_and_ptr_outside_interpreter(off as usize..(off + 16) as usize);
                                    let addr = u64::from_le_bytes(raw[0..8].try_into().unwrap());
                                    let len = u64::from_le_bytes(raw[8..16].try_into().unwrap());
                                    if len <= 65536 {
                                        if let Some(b) = self.read_bytes(p.alloc_id(), addr, len) {
                                            out.push(',');
                                            self.bytes_json(&b, out);
                                            return;
                                        }
                                    }
                                }
                            }
                        }
                    }
                }
                // arrays of u8 / small tables: dump raw bytes if the type has a known size <= 64KiB
                if let Ok(layout) = self.tcx.layout_of(TypingEnv::fully_monomorphized().as_query_input(t)) {
                    let sz = layout.size.bytes();
                    if sz <= 65536 {
                        if let Some(b) = self.read_bytes(alloc_id, offset.bytes(), sz) {
                            out.push_str(",\"raw\":[");
                            for (i, x) in b.iter().enumerate() {
                                if i > 0 {
                                    out.push(',');
                                }
                                let _ = write!(out, "{}", x);
                            }
                            out.push(']');
                        }
                    }
                }
            }
        }
    }

    fn constant(&self, owner: LocalDefId, c: &mir::ConstOperand<'tcx>, out: &mut String) {
        let t = c.const_.ty();
        out.push_str("{\"ty\":");
        esc(&self.ty(t), out);
        if let ty::FnDef(did, args) = t.kind() {
            out.push_str(",\"fn\":");
            esc(&self.path(*did), out);
            out.push_str(",\"fnargs\":");
            esc(&self.path_args(*did, args), out);
        }
        match c.const_ {
            MirConst::Val(v, t) => self.const_value(v, t, out),
            MirConst::Unevaluated(uv, t) => {
                out.push_str(",\"def\":");
                esc(&self.path(uv.def), out);
                if uv.promoted.is_none() && !uv.args.has_non_region_param() {
                    let env = TypingEnv::post_analysis(self.tcx, owner.to_def_id());
                    if let Ok(v) = self.tcx.const_eval_resolve(env, uv, c.span) {
                        self.const_value(v, t, out);
                    }
                }
            }
            MirConst::Ty(t, ct) => {
                if let Some(v) = ct.try_to_value() {
                    if let Some(si) = v.try_to_leaf() {
                        let bits = si.to_bits(si.size());
                        let _ = write!(out, ",\"v\":\"{}\"", bits);
                    } else if let Some(b) = v.try_to_raw_bytes(self.tcx) {
                        // string / byte-string literals used as patterns are value trees
                        out.push(',');
                        self.bytes_json(b, out);
                    }
                }
                let _ = t;
            }
        }
        out.push('}');
    }

    fn operand(&self, owner: LocalDefId, body: &Body<'tcx>, op: &Operand<'tcx>, out: &mut String) {
        match op {
            Operand::Copy(p) => {
                out.push_str("[\"c\",");
                self.place(body, p, out);
                out.push(']');
            }
            Operand::Move(p) => {
                out.push_str("[\"m\",");
                self.place(body, p, out);
                out.push(']');
            }
            Operand::Constant(c) => {
                out.push_str("[\"k\",");
                self.constant(owner, c, out);
                out.push(']');
            }
            Operand::RuntimeChecks(rc) => {
                let _ = write!(out, "[\"rc\",{}]", js(&format!("{:?}", rc)));
            }
        }
    }

    fn rvalue(&self, owner: LocalDefId, body: &Body<'tcx>, rv: &Rvalue<'tcx>, out: &mut String) {
        match rv {
            Rvalue::Use(op, _) => {
                out.push_str("[\"use\",");
                self.operand(owner, body, op, out);
                out.push(']');
            }
            Rvalue::Repeat(op, n) => {
                out.push_str("[\"repeat\",");
                self.operand(owner, body, op, out);
                let nn = n.try_to_target_usize(self.tcx).map(|x| x.to_string()).unwrap_or("null".into());
                let _ = write!(out, ",{}]", nn);
            }
            Rvalue::Ref(_, bk, p) => {
                let m = match bk {
                    mir::BorrowKind::Shared => "shared",
                    mir::BorrowKind::Fake(_) => "fake",
                    mir::BorrowKind::Mut { .. } => "mut",
                };
                let _ = write!(out, "[\"ref\",\"{}\",", m);
                self.place(body, p, out);
                out.push(']');
            }
            Rvalue::ThreadLocalRef(did) => {
                let _ = write!(out, "[\"tls\",{}]", js(&self.path(*did)));
            }
            Rvalue::RawPtr(k, p) => {
                let _ = write!(out, "[\"rawptr\",{},", js(&format!("{:?}", k)));
                self.place(body, p, out);
                out.push(']');
            }
            Rvalue::Cast(k, op, t) => {
                let kind = format!("{:?}", k);
                let kind = kind.split('(').next().unwrap_or("").to_string();
                let _ = write!(out, "[\"cast\",{},", js(&kind));
                self.operand(owner, body, op, out);
                let _ = write!(out, ",{},{}]", js(&self.ty(*t)), js(&format!("{:?}", k)));
            }
            Rvalue::BinaryOp(op, ab) => {
                let _ = write!(out, "[\"bin\",\"{:?}\",", op);
                self.operand(owner, body, &ab.0, out);
                out.push(',');
                self.operand(owner, body, &ab.1, out);
                out.push(']');
            }
            Rvalue::UnaryOp(op, a) => {
                let _ = write!(out, "[\"un\",\"{:?}\",", op);
                self.operand(owner, body, a, out);
                out.push(']');
            }
            Rvalue::Discriminant(p) => {
                out.push_str("[\"discr\",");
                self.place(body, p, out);
                out.push(']');
            }
            Rvalue::Aggregate(kind, ops) => {
                out.push_str("[\"agg\",");
                match &**kind {
                    AggregateKind::Array(t) => {
                        let _ = write!(out, "{{\"k\":\"array\",\"ty\":{}}}", js(&self.ty(*t)));
                    }
                    AggregateKind::Tuple => out.push_str("{\"k\":\"tuple\"}"),
                    AggregateKind::Adt(did, vi, _args, _, active) => {
                        let def = self.tcx.adt_def(*did);
                        let v = def.variant(*vi);
                        let _ = write!(
                            out,
                            "{{\"k\":\"adt\",\"adt\":{},\"variant\":{},\"vi\":{},\"fields\":[",
                            js(&self.path(*did)),
                            js(&v.name.to_string()),
                            vi.as_u32()
                        );
                        if let Some(a) = active {
                            let _ = write!(out, "{}", js(&v.fields[*a].name.to_string()));
                        } else {
                            for (i, f) in v.fields.iter().enumerate() {
                                if i > 0 {
                                    out.push(',');
                                }
                                esc(&f.name.to_string(), out);
                            }
                        }
                        out.push_str("]}");
                    }
                    AggregateKind::Closure(did, _) => {
                        let _ = write!(out, "{{\"k\":\"closure\",\"def\":{}}}", js(&self.path(*did)));
                    }
                    AggregateKind::Coroutine(did, _) => {
                        let _ = write!(out, "{{\"k\":\"coroutine\",\"def\":{}}}", js(&self.path(*did)));
                    }
                    AggregateKind::CoroutineClosure(did, _) => {
                        let _ = write!(out, "{{\"k\":\"coroutine_closure\",\"def\":{}}}", js(&self.path(*did)));
                    }
                    AggregateKind::RawPtr(t, _) => {
                        let _ = write!(out, "{{\"k\":\"rawptr\",\"ty\":{}}}", js(&self.ty(*t)));
                    }
                }
                out.push_str(",[");
                for (i, op) in ops.iter().enumerate() {
                    if i > 0 {
                        out.push(',');
                    }
                    self.operand(owner, body, op, out);
                }
                out.push_str("]]");
            }
            Rvalue::CopyForDeref(p) => {
                out.push_str("[\"cfd\",");
                self.place(body, p, out);
                out.push(']');
            }
            Rvalue::WrapUnsafeBinder(op, _) => {
                out.push_str("[\"use\",");
                self.operand(owner, body, op, out);
                out.push(']');
            }
        }
    }

    fn unwind(&self, u: &UnwindAction) -> String {
        match u {
            UnwindAction::Continue => "\"continue\"".into(),
            UnwindAction::Unreachable => "\"unreachable\"".into(),
            UnwindAction::Terminate(_) => "\"terminate\"".into(),
            UnwindAction::Cleanup(bb) => format!("{}", bb.as_u32()),
        }
    }

    fn body(&self, ldid: LocalDefId, body: &Body<'tcx>, out: &mut String) {
        let tcx = self.tcx;
        let did = ldid.to_def_id();
        let kind = tcx.def_kind(did);
        let sm = tcx.sess.source_map();
        let fspan = tcx.def_span(did);
        let flo = sm.lookup_char_pos(fspan.lo());
        let fn_file = rel_file(&flo.file.name.prefer_local_unconditionally().to_string());

        out.push_str("{\"k\":\"fn\",\"crate\":");
        esc(&self.crate_name, out);
        out.push_str(",\"key\":");
        esc(&self.path(did), out);
        let _ = write!(out, ",\"kind\":{}", js(&format!("{:?}", kind)));
        let _ = write!(out, ",\"file\":{},\"line\":{}", js(&fn_file), flo.line);
        // whole-item line range
        if let Some(node_span) = tcx.hir_span_if_local(did) {
            let hi = sm.lookup_char_pos(node_span.hi());
            let _ = write!(out, ",\"endline\":{}", hi.line);
        }
        // parent (closure -> enclosing fn)
        if matches!(kind, DefKind::Closure | DefKind::InlineConst | DefKind::AnonConst | DefKind::SyntheticCoroutineBody) {
            let parent = tcx.typeck_root_def_id(did);
            let _ = write!(out, ",\"root\":{}", js(&self.path(parent)));
            let p2 = tcx.parent(did);
            let _ = write!(out, ",\"parent\":{}", js(&self.path(p2)));
        }
        if matches!(kind, DefKind::Closure) {
            if let Some(ck) = tcx.coroutine_kind(did) {
                let _ = write!(out, ",\"coroutine\":{}", js(&format!("{:?}", ck)));
            }
        }
        if matches!(kind, DefKind::Fn | DefKind::AssocFn) {
            let sig = tcx.fn_sig(did).skip_binder();
            let _ = write!(out, ",\"unsafe\":{}", sig.safety().is_unsafe());
            let _ = write!(out, ",\"asyncness\":{}", tcx.asyncness(did).is_async());
            let vis = tcx.visibility(did);
            let _ = write!(out, ",\"pub\":{}", vis.is_public());
        }
        if matches!(kind, DefKind::AssocFn | DefKind::AssocConst { .. }) {
            let parent = tcx.parent(did);
            if matches!(tcx.def_kind(parent), DefKind::Impl { .. }) {
                let self_ty = tcx.type_of(parent).skip_binder();
                let _ = write!(out, ",\"impl\":{},\"self_ty\":{}", js(&self.path(parent)), js(&self.ty(self_ty)));
                if let Some(tr) = tcx.impl_opt_trait_ref(parent) {
                    let tr = tr.skip_binder();
                    let _ = write!(
                        out,
                        ",\"trait\":{},\"trait_ref\":{}",
                        js(&self.path(tr.def_id)),
                        js(&with_resolve_crate_name!(with_no_visible_paths!(with_no_trimmed_paths!(format!("{}", tr)))))
                    );
                }
                if let Some(ti) = tcx.opt_associated_item(did).and_then(|ai| ai.trait_item_def_id()) {
                    let _ = write!(out, ",\"trait_item\":{}", js(&self.path(ti)));
                }
            } else if matches!(tcx.def_kind(parent), DefKind::Trait) {
                let _ = write!(out, ",\"in_trait\":{}", js(&self.path(parent)));
            }
        }
        let _ = write!(out, ",\"name\":{}", js(&tcx.opt_item_name(did).map(|s| s.to_string()).unwrap_or_default()));
        let _ = write!(out, ",\"argc\":{}", body.arg_count);

        // locals
        out.push_str(",\"locals\":[");
        for (i, (_l, decl)) in body.local_decls.iter_enumerated().enumerate() {
            if i > 0 {
                out.push(',');
            }
            esc(&self.ty(decl.ty), out);
        }
        out.push_str("],\"vars\":{");
        let mut first = true;
        for vdi in &body.var_debug_info {
            if let mir::VarDebugInfoContents::Place(p) = &vdi.value {
                if !first {
                    out.push(',');
                }
                first = false;
                // name -> place ; several vars may share a name: suffix with local
                let _ = write!(out, "{}:", js(&format!("{}#{}", vdi.name, p.local.as_u32())));
                self.place(body, p, out);
            }
        }
        out.push_str("},\"blocks\":[");
        for (bi, (_bb, data)) in body.basic_blocks.iter_enumerated().enumerate() {
            if bi > 0 {
                out.push(',');
            }
            let _ = write!(out, "{{\"cleanup\":{},\"st\":[", data.is_cleanup);
            let mut firsts = true;
            for st in &data.statements {
                let mut s = String::new();
                match &st.kind {
                    StatementKind::Assign(bx) => {
                        let (p, rv) = &**bx;
                        s.push_str("{\"k\":\"=\",\"p\":");
                        self.place(body, p, &mut s);
                        s.push_str(",\"r\":");
                        self.rvalue(ldid, body, rv, &mut s);
                        s.push(',');
                        self.span(st.source_info.span, &fn_file, &mut s);
                        s.push('}');
                    }
                    StatementKind::SetDiscriminant { place, variant_index } => {
                        s.push_str("{\"k\":\"setdiscr\",\"p\":");
                        self.place(body, place, &mut s);
                        let _ = write!(s, ",\"vi\":{},", variant_index.as_u32());
                        self.span(st.source_info.span, &fn_file, &mut s);
                        s.push('}');
                    }
                    StatementKind::Intrinsic(i) => {
                        let _ = write!(s, "{{\"k\":\"intrinsic\",\"d\":{},", js(&format!("{:?}", i)));
                        self.span(st.source_info.span, &fn_file, &mut s);
                        s.push('}');
                    }
                    _ => {}
                }
                if !s.is_empty() {
                    if !firsts {
                        out.push(',');
                    }
                    firsts = false;
                    out.push_str(&s);
                }
            }
            out.push_str("],\"t\":");
            let term = data.terminator();
            self.terminator(ldid, body, term, &fn_file, out);
            out.push('}');
        }
        out.push_str("]}\n");
    }

    fn terminator(&self, owner: LocalDefId, body: &Body<'tcx>, term: &mir::Terminator<'tcx>, fn_file: &str, out: &mut String) {
        let bbn = |b: &BasicBlock| b.as_u32();
        match &term.kind {
            TerminatorKind::Goto { target } => {
                let _ = write!(out, "{{\"k\":\"goto\",\"target\":{}", bbn(target));
            }
            TerminatorKind::SwitchInt { discr, targets } => {
                out.push_str("{\"k\":\"switch\",\"discr\":");
                self.operand(owner, body, discr, out);
                let dty = discr.ty(body, self.tcx);
                let _ = write!(out, ",\"dty\":{}", js(&self.ty(dty)));
                out.push_str(",\"targets\":[");
                for (i, (v, bb)) in targets.iter().enumerate() {
                    if i > 0 {
                        out.push(',');
                    }
                    let _ = write!(out, "[\"{}\",{}]", v, bbn(&bb));
                }
                let _ = write!(out, "],\"otherwise\":{}", bbn(&targets.otherwise()));
            }
            TerminatorKind::UnwindResume => out.push_str("{\"k\":\"resume\""),
            TerminatorKind::UnwindTerminate(_) => out.push_str("{\"k\":\"terminate\""),
            TerminatorKind::Return => out.push_str("{\"k\":\"return\""),
            TerminatorKind::Unreachable => out.push_str("{\"k\":\"unreachable\""),
            TerminatorKind::Drop { place, target, unwind, .. } => {
                out.push_str("{\"k\":\"drop\",\"p\":");
                self.place(body, place, out);
                let _ = write!(out, ",\"target\":{},\"unwind\":{}", bbn(target), self.unwind(unwind));
            }
            TerminatorKind::Call { func, args, destination, target, unwind, fn_span, .. } => {
                out.push_str("{\"k\":\"call\"");
                self.callee(owner, body, func, out);
                out.push_str(",\"args\":[");
                for (i, a) in args.iter().enumerate() {
                    if i > 0 {
                        out.push(',');
                    }
                    self.operand(owner, body, &a.node, out);
                }
                out.push_str("],\"dest\":");
                self.place(body, destination, out);
                match target {
                    Some(t) => {
                        let _ = write!(out, ",\"target\":{}", bbn(t));
                    }
                    None => out.push_str(",\"target\":null"),
                }
                let _ = write!(out, ",\"unwind\":{}", self.unwind(unwind));
                let _ = fn_span;
            }
            TerminatorKind::TailCall { func, args, .. } => {
                out.push_str("{\"k\":\"tailcall\"");
                self.callee(owner, body, func, out);
                out.push_str(",\"args\":[");
                for (i, a) in args.iter().enumerate() {
                    if i > 0 {
                        out.push(',');
                    }
                    self.operand(owner, body, &a.node, out);
                }
                out.push(']');
            }
            TerminatorKind::Assert { cond, expected, msg, target, unwind } => {
                out.push_str("{\"k\":\"assert\",\"cond\":");
                self.operand(owner, body, cond, out);
                let _ = write!(out, ",\"expected\":{}", expected);
                use mir::AssertKind::*;
                let (name, ops): (String, Vec<&Operand<'tcx>>) = match &**msg {
                    BoundsCheck { len, index } => ("BoundsCheck".into(), vec![len, index]),
                    Overflow(op, a, b) => (format!("Overflow({:?})", op), vec![a, b]),
                    OverflowNeg(a) => ("OverflowNeg".into(), vec![a]),
                    DivisionByZero(a) => ("DivisionByZero".into(), vec![a]),
                    RemainderByZero(a) => ("RemainderByZero".into(), vec![a]),
                    ResumedAfterReturn(_) => ("ResumedAfterReturn".into(), vec![]),
                    ResumedAfterPanic(_) => ("ResumedAfterPanic".into(), vec![]),
                    ResumedAfterDrop(_) => ("ResumedAfterDrop".into(), vec![]),
                    MisalignedPointerDereference { required, found } => ("MisalignedPointerDereference".into(), vec![required, found]),
                    NullPointerDereference => ("NullPointerDereference".into(), vec![]),
                    InvalidEnumConstruction(a) => ("InvalidEnumConstruction".into(), vec![a]),
                };
                let _ = write!(out, ",\"msg\":{},\"ops\":[", js(&name));
                for (i, o) in ops.iter().enumerate() {
                    if i > 0 {
                        out.push(',');
                    }
                    self.operand(owner, body, o, out);
                }
                let _ = write!(out, "],\"target\":{},\"unwind\":{}", bbn(target), self.unwind(unwind));
            }
            TerminatorKind::Yield { value, resume, resume_arg, drop } => {
                out.push_str("{\"k\":\"yield\",\"value\":");
                self.operand(owner, body, value, out);
                let _ = write!(out, ",\"target\":{},\"resume_arg\":", bbn(resume));
                self.place(body, resume_arg, out);
                match drop {
                    Some(d) => {
                        let _ = write!(out, ",\"drop\":{}", bbn(d));
                    }
                    None => out.push_str(",\"drop\":null"),
                }
            }
            TerminatorKind::CoroutineDrop => out.push_str("{\"k\":\"coroutine_drop\""),
            TerminatorKind::FalseEdge { real_target, imaginary_target } => {
                let _ = write!(out, "{{\"k\":\"false_edge\",\"target\":{},\"imaginary\":{}", bbn(real_target), bbn(imaginary_target));
            }
            TerminatorKind::FalseUnwind { real_target, unwind } => {
                let _ = write!(out, "{{\"k\":\"false_unwind\",\"target\":{},\"unwind\":{}", bbn(real_target), self.unwind(unwind));
            }
            TerminatorKind::InlineAsm { targets, .. } => {
                out.push_str("{\"k\":\"asm\",\"targets\":[");
                for (i, t) in targets.iter().enumerate() {
                    if i > 0 {
                        out.push(',');
                    }
                    let _ = write!(out, "{}", bbn(t));
                }
                out.push(']');
            }
        }
        out.push(',');
        self.span(term.source_info.span, fn_file, out);
        out.push('}');
    }

    fn callee(&self, owner: LocalDefId, body: &Body<'tcx>, func: &Operand<'tcx>, out: &mut String) {
        let tcx = self.tcx;
        let fty = func.ty(body, tcx);
        match fty.kind() {
            ty::FnDef(did, args) => {
                let did = *did;
                let decl = self.path(did);
                let mut resolved_path = decl.clone();
                let mut resolved = false;
                let mut rdid = did;
                let mut virt = false;
                let mut rkind = String::new();
                let env = TypingEnv::post_analysis(tcx, owner.to_def_id());
                let args_ok = !args.has_infer() && !args.has_escaping_bound_vars();
                if args_ok && matches!(tcx.def_kind(did), DefKind::Fn | DefKind::AssocFn) {
                    let args_e = tcx.erase_and_anonymize_regions(*args);
                    if let Ok(Some(inst)) = Instance::try_resolve(tcx, env, did, args_e) {
                        rdid = inst.def_id();
                        resolved_path = self.path(rdid);
                        resolved = true;
                        rkind = match inst.def {
                            ty::InstanceKind::Item(_) => "item".into(),
                            ty::InstanceKind::Virtual(..) => {
                                virt = true;
                                "virtual".into()
                            }
                            ty::InstanceKind::Intrinsic(_) => "intrinsic".into(),
                            ty::InstanceKind::ClosureOnceShim { .. } => "closure_once_shim".into(),
                            ty::InstanceKind::FnPtrShim(..) => "fnptr_shim".into(),
                            ty::InstanceKind::DropGlue(..) => "drop_glue".into(),
                            ty::InstanceKind::CloneShim(..) => "clone_shim".into(),
                            _ => "other".into(),
                        };
                    }
                }
                let _ = write!(out, ",\"callee\":{},\"decl\":{}", js(&resolved_path), js(&decl));
                let _ = write!(out, ",\"resolved\":{},\"virtual\":{},\"rkind\":{}", resolved, virt, js(&rkind));
                let _ = write!(out, ",\"local\":{}", rdid.is_local());
                let _ = write!(out, ",\"ccrate\":{}", js(&tcx.crate_name(rdid.krate).to_string()));
                let _ = write!(out, ",\"full\":{}", js(&self.path_args(did, args)));
                // generic args as list of strings (types only)
                out.push_str(",\"targs\":[");
                let mut first = true;
                for a in args.iter() {
                    if let Some(t) = a.as_type() {
                        if !first {
                            out.push(',');
                        }
                        first = false;
                        esc(&self.ty(t), out);
                    } else if let Some(c) = a.as_const() {
                        if !first {
                            out.push(',');
                        }
                        first = false;
                        esc(&format!("{}", c), out);
                    }
                }
                out.push(']');
                if matches!(tcx.def_kind(did), DefKind::Fn | DefKind::AssocFn) {
                    let sig = tcx.fn_sig(did).skip_binder();
                    let _ = write!(out, ",\"cunsafe\":{}", sig.safety().is_unsafe());
                } else {
                    // tuple struct / variant constructor
                    let _ = write!(out, ",\"ctor\":true");
                }
                // trait of the declared item, if any
                if let Some(tr) = tcx.trait_of_assoc(did) {
                    let _ = write!(out, ",\"ctrait\":{}", js(&self.path(tr)));
                }
            }
            _ => {
                out.push_str(",\"callee\":null,\"fnop\":");
                self.operand(owner, body, func, out);
                let _ = write!(out, ",\"fnty\":{}", js(&self.ty(fty)));
            }
        }
    }

    fn adts_and_impls(&self, out: &mut String) {
        let tcx = self.tcx;
        for ldid in tcx.hir_crate_items(()).definitions() {
            let did = ldid.to_def_id();
            match tcx.def_kind(did) {
                DefKind::Struct | DefKind::Enum | DefKind::Union => {
                    let def = tcx.adt_def(did);
                    let _ = write!(out, "{{\"k\":\"adt\",\"crate\":{},\"key\":{},\"kind\":{}", js(&self.crate_name), js(&self.path(did)), js(&format!("{:?}", tcx.def_kind(did))));
                    let sm = tcx.sess.source_map();
                    let lo = sm.lookup_char_pos(tcx.def_span(did).lo());
                    let _ = write!(out, ",\"file\":{},\"line\":{}", js(&rel_file(&lo.file.name.prefer_local_unconditionally().to_string())), lo.line);
                    out.push_str(",\"variants\":[");
                    let discrs: Vec<String> = if def.is_enum() {
                        def.discriminants(tcx).map(|(_, d)| d.val.to_string()).collect()
                    } else {
                        Vec::new()
                    };
                    for (i, v) in def.variants().iter().enumerate() {
                        if i > 0 {
                            out.push(',');
                        }
                        let dv = discrs.get(i).cloned().unwrap_or_else(|| i.to_string());
                        let _ = write!(out, "{{\"name\":{},\"discr\":{},\"fields\":[", js(&v.name.to_string()), js(&dv));
                        for (j, f) in v.fields.iter().enumerate() {
                            if j > 0 {
                                out.push(',');
                            }
                            let fty = tcx.type_of(f.did).skip_binder();
                            let _ = write!(out, "[{},{},{}]", js(&f.name.to_string()), js(&self.ty(fty)), f.vis.is_public());
                        }
                        out.push_str("]}");
                    }
                    out.push_str("]}\n");
                }
                DefKind::Impl { .. } => {
                    let self_ty = tcx.type_of(did).skip_binder();
                    let _ = write!(out, "{{\"k\":\"impl\",\"crate\":{},\"key\":{},\"self_ty\":{}", js(&self.crate_name), js(&self.path(did)), js(&self.ty(self_ty)));
                    let sm = tcx.sess.source_map();
                    let lo = sm.lookup_char_pos(tcx.def_span(did).lo());
                    let _ = write!(out, ",\"file\":{},\"line\":{}", js(&rel_file(&lo.file.name.prefer_local_unconditionally().to_string())), lo.line);
                    let from_exp = tcx.def_span(did).from_expansion();
                    let _ = write!(out, ",\"from_expansion\":{}", from_exp);
                    if let Some(tr) = tcx.impl_opt_trait_ref(did) {
                        let tr = tr.skip_binder();
                        let _ = write!(
                            out,
                            ",\"trait\":{},\"trait_ref\":{}",
                            js(&self.path(tr.def_id)),
                            js(&with_resolve_crate_name!(with_no_visible_paths!(with_no_trimmed_paths!(format!("{}", tr)))))
                        );
                    }
                    // generics + predicates (where clauses) as strings
                    let preds = tcx.predicates_of(did);
                    out.push_str(",\"preds\":[");
                    for (i, (p, _)) in preds.predicates.iter().enumerate() {
                        if i > 0 {
                            out.push(',');
                        }
                        esc(&with_resolve_crate_name!(with_no_visible_paths!(with_no_trimmed_paths!(format!("{}", p)))), out);
                    }
                    out.push_str("],\"items\":[");
                    for (i, ai) in tcx.associated_items(did).in_definition_order().enumerate() {
                        if i > 0 {
                            out.push(',');
                        }
                        let ti = ai.trait_item_def_id().map(|d| self.path(d)).unwrap_or_default();
                        let _ = write!(out, "[{},{},{}]", js(&ai.opt_name().map(|n| n.to_string()).unwrap_or_default()), js(&self.path(ai.def_id)), js(&ti));
                    }
                    out.push_str("]}\n");
                }
                _ => {}
            }
        }
    }

    fn consts(&self, out: &mut String) {
        // evaluated contents of local non-generic const/static items (tables)
        let tcx = self.tcx;
        for ldid in tcx.hir_crate_items(()).definitions() {
            let did = ldid.to_def_id();
            let kind = tcx.def_kind(did);
            let is_const = matches!(kind, DefKind::Const { .. } | DefKind::AssocConst { .. });
            let is_static = matches!(kind, DefKind::Static { .. });
            if !is_const && !is_static {
                continue;
            }
            let generics = tcx.generics_of(did);
            if generics.requires_monomorphization(tcx) {
                continue;
            }
            // skip trait-declared assoc consts without default / in traits
            if matches!(kind, DefKind::AssocConst { .. }) {
                let parent = tcx.parent(did);
                if matches!(tcx.def_kind(parent), DefKind::Trait) {
                    continue;
                }
            }
            let t = tcx.type_of(did).skip_binder();
            let mut s = String::new();
            let _ = write!(s, "{{\"k\":\"const\",\"crate\":{},\"key\":{},\"ty\":{}", js(&self.crate_name), js(&self.path(did)), js(&self.ty(t)));
            if matches!(kind, DefKind::AssocConst { .. }) {
                let parent = tcx.parent(did);
                if matches!(tcx.def_kind(parent), DefKind::Impl { .. }) {
                    let self_ty = tcx.type_of(parent).skip_binder();
                    let _ = write!(s, ",\"self_ty\":{}", js(&self.ty(self_ty)));
                    if let Some(tr) = tcx.impl_opt_trait_ref(parent) {
                        let _ = write!(s, ",\"trait\":{}", js(&self.path(tr.skip_binder().def_id)));
                    }
                }
            }
            let _ = write!(s, ",\"name\":{}", js(&tcx.opt_item_name(did).map(|x| x.to_string()).unwrap_or_default()));
            if is_const {
                if let Ok(v) = tcx.const_eval_poly(did) {
                    self.const_value(v, t, &mut s);
                    // element size for arrays
                    if let ty::Array(elem, n) = t.kind() {
                        if let Ok(l) = tcx.layout_of(TypingEnv::fully_monomorphized().as_query_input(*elem)) {
                            let _ = write!(s, ",\"elem_size\":{},\"elem_ty\":{}", l.size.bytes(), js(&self.ty(*elem)));
                        }
                        if let Some(n) = n.try_to_target_usize(tcx) {
                            let _ = write!(s, ",\"len\":{}", n);
                        }
                    }
                    // array of &str: follow pointers
                    self.str_array(v, t, &mut s);
                }
            }
            s.push_str("}\n");
            out.push_str(&s);
        }
    }

    fn str_array(&self, v: ConstValue, t: Ty<'tcx>, out: &mut String) {
        // [&str; N] / [&[u8]; N] tables: resolve each fat pointer
        let tcx = self.tcx;
        let ty::Array(elem, n) = t.kind() else { return };
        let ty::Ref(_, inner, _) = elem.kind() else { return };
        // [&[u8; K]; N]: thin pointers to fixed-size byte arrays
        if let ty::Array(e2, k) = inner.kind() {
            if *e2 == tcx.types.u8 {
                let (Some(n), Some(k)) = (n.try_to_target_usize(tcx), k.try_to_target_usize(tcx)) else { return };
                let ConstValue::Indirect { alloc_id, offset } = v else { return };
                use rustc_middle::mir::interpret::GlobalAlloc;
                let Some(GlobalAlloc::Memory(a)) = tcx.try_get_global_alloc(alloc_id) else { return };
                let a = a.inner();
                let base = offset.bytes();
                let mut items: Vec<Vec<u8>> = Vec::new();
                for i in 0..n {
                    let off = base + i * 8;
                    let prov = a.provenance().ptrs().iter().find(|(o, _)| o.bytes() == off);
                    let Some((_, p)) = prov else { return };
                    let raw = a.inspect_with_uninit_and_ptr_outside_interpreter(off as usize..(off + 8) as usize);
                    let addr = u64::from_le_bytes(raw[0..8].try_into().unwrap());
                    let Some(b) = self.read_bytes(p.alloc_id(), addr, k) else { return };
                    items.push(b);
                }
                out.push_str(",\"strs\":[");
                for (i, b) in items.iter().enumerate() {
                    if i > 0 {
                        out.push(',');
                    }
                    esc(&String::from_utf8_lossy(b), out);
                }
                out.push(']');
            }
            return;
        }
        let is_str = matches!(inner.kind(), ty::Str) || matches!(inner.kind(), ty::Slice(e) if *e == tcx.types.u8);
        if !is_str {
            return;
        }
        let Some(n) = n.try_to_target_usize(tcx) else { return };
        let ConstValue::Indirect { alloc_id, offset } = v else { return };
        use rustc_middle::mir::interpret::GlobalAlloc;
        let Some(GlobalAlloc::Memory(a)) = tcx.try_get_global_alloc(alloc_id) else { return };
        let a = a.inner();
        let base = offset.bytes();
        let mut items: Vec<Vec<u8>> = Vec::new();
        for i in 0..n {
            let off = base + i * 16;
            // pointer provenance at off
            let prov = a.provenance().ptrs().iter().find(|(o, _)| o.bytes() == off);
            let Some((_, p)) = prov else { return };
            let raw = a.inspect_with_uninit_and_ptr_outside_interpreter(off as usize..(off + 16) as usize);
            let addr = u64::from_le_bytes(raw[0..8].try_into().unwrap());
            let len = u64::from_le_bytes(raw[8..16].try_into().unwrap());
            let Some(b) = self.read_bytes(p.alloc_id(), addr, len) else { return };
            items.push(b);
        }
        out.push_str(",\"strs\":[");
        for (i, b) in items.iter().enumerate() {
            if i > 0 {
                out.push(',');
            }
            esc(&String::from_utf8_lossy(b), out);
        }
        out.push(']');
    }
}

fn rel_file(name: &str) -> String {
    // make paths relative to the workspace root if MIRFACTS_ROOT is set
    if let Ok(root) = std::env::var("MIRFACTS_ROOT") {
        let root = root.trim_end_matches('/');
        if let Some(r) = name.strip_prefix(root) {
            return r.trim_start_matches('/').to_string();
        }
    }
    // cargo passes paths relative to the package dir for workspace members: prefix with MIRFACTS_PKGDIR
    if !name.starts_with('/') && std::env::var("MIRFACTS_ABS").is_ok() {
        if let Ok(pd) = std::env::var("CARGO_MANIFEST_DIR") {
            let full = format!("{}/{}", pd.trim_end_matches('/'), name);
            if let Ok(root) = std::env::var("MIRFACTS_ROOT") {
                let root = root.trim_end_matches('/');
                if let Some(r) = full.strip_prefix(root) {
                    return r.trim_start_matches('/').to_string();
                }
            }
            return full;
        }
    }
    name.to_string()
}

struct Cb;

impl rustc_driver::Callbacks for Cb {
    fn after_expansion<'tcx>(&mut self, _c: &rustc_interface::interface::Compiler, tcx: TyCtxt<'tcx>) -> Compilation {
        let Ok(outdir) = std::env::var("MIRFACTS_OUT") else { return Compilation::Continue };
        let crate_name = tcx.crate_name(rustc_hir::def_id::LOCAL_CRATE).to_string();
        if crate_name.starts_with("build_script") {
            return Compilation::Continue;
        }
        if let Ok(only) = std::env::var("MIRFACTS_ONLY") {
            if !only.split(',').any(|c| c == crate_name) {
                return Compilation::Continue;
            }
        }
        let cx = Cx { tcx, crate_name: crate_name.clone() };
        let mut out = String::with_capacity(1 << 24);
        let mut nfn = 0usize;
        let mut owners: Vec<LocalDefId> = tcx.hir_body_owners().collect();
        // functions and closures first: evaluating a constant steals the built MIR of the
        // constant (and of const fns it calls), so clone every body before anything is evaluated
        owners.sort_by_key(|l| match tcx.def_kind(l.to_def_id()) {
            DefKind::Closure | DefKind::SyntheticCoroutineBody if tcx.coroutine_kind(l.to_def_id()).is_some() => 0,
            DefKind::Fn | DefKind::AssocFn | DefKind::Closure | DefKind::SyntheticCoroutineBody => 1,
            _ => 2,
        });
        let mut bodies: Vec<(LocalDefId, Body<'tcx>)> = Vec::new();
        let mut stolen: Vec<LocalDefId> = Vec::new();
        let mut promoted_stage: Vec<LocalDefId> = Vec::new();
        for ldid in owners {
            let kind = tcx.def_kind(ldid.to_def_id());
            match kind {
                DefKind::Fn | DefKind::AssocFn | DefKind::Closure | DefKind::Const { .. } | DefKind::AssocConst { .. } | DefKind::Static { .. } | DefKind::InlineConst | DefKind::SyntheticCoroutineBody => {}
                _ => continue,
            }
            let steal = tcx.mir_built(ldid);
            if steal.is_stolen() {
                // an earlier query (coroutine witnesses for an auto-trait test, or constant
                // evaluation) already moved this body on: take the promoted stage, whose CFG
                // is still the natural one
                let (p, _) = tcx.mir_promoted(ldid);
                if p.is_stolen() {
                    stolen.push(ldid);
                    continue;
                }
                let b: Body<'tcx> = p.borrow().clone();
                bodies.push((ldid, b));
                promoted_stage.push(ldid);
                continue;
            }
            let b: Body<'tcx> = steal.borrow().clone();
            bodies.push((ldid, b));
        }
        for (ldid, b) in &bodies {
            cx.body(*ldid, b, &mut out);
            nfn += 1;
        }
        for ldid in &promoted_stage {
            let _ = write!(out, "{{\"k\":\"promoted_stage\",\"crate\":{},\"key\":{}}}\n", js(&crate_name), js(&cx.path(ldid.to_def_id())));
        }
        for ldid in &stolen {
            let _ = write!(out, "{{\"k\":\"stolen\",\"crate\":{},\"key\":{}}}\n", js(&crate_name), js(&cx.path(ldid.to_def_id())));
        }
        cx.adts_and_impls(&mut out);
        cx.consts(&mut out);
        let is_test = tcx.sess.is_test_crate();
        let mut feats: Vec<String> = Vec::new();
        {
            let argv: Vec<String> = std::env::args().collect();
            for w in argv.windows(2) {
                if w[0] == "--cfg" {
                    if let Some(f) = w[1].strip_prefix("feature=\"") {
                        feats.push(f.trim_end_matches('"').to_string());
                    }
                }
            }
        }
        feats.sort();
        let dbg = tcx.sess.opts.debug_assertions;
        let _ = write!(
            out,
            "{{\"k\":\"meta\",\"crate\":{},\"bodies\":{},\"test\":{},\"features\":{},\"debug_assertions\":{},\"tree\":{}}}\n",
            js(&crate_name),
            nfn,
            is_test,
            js(&feats.join(",")),
            dbg,
            js(&std::env::var("MIRFACTS_TREE").unwrap_or_default())
        );
        let suffix = if is_test { ".test" } else { "" };
        let path = format!("{}/{}{}.jsonl", outdir, crate_name, suffix);
        let tmp = format!("{}.tmp{}", path, std::process::id());
        std::fs::write(&tmp, out).expect("write facts");
        std::fs::rename(&tmp, &path).expect("rename facts");
        Compilation::Continue
    }
}

fn main() {
    // RUSTC_WORKSPACE_WRAPPER / RUSTC_WRAPPER: argv = [wrapper, rustc, args...]
    let mut args: Vec<String> = std::env::args().collect();
    if args.len() >= 2 && (args[1].ends_with("rustc") || args[1].contains("/rustc")) {
        args.remove(0);
    }
    let mut cb = Cb;
    rustc_driver::catch_with_exit_code(|| rustc_driver::run_compiler(&args, &mut cb));
}
