"""C11 Cookies survive the trip: Cookie header decoding and Set-Cookie building.
Decides: (a) builder and parser directive tables agree, SameSite tables inverse; (b) the cookie value passes percent_encode in the
builder and checked percent-decoding in the parser; (c) one Set-Cookie line per cookie with its bytes accounted. Decoder
panic/unsafe clauses: C08."""
import re

from .lib import decision, guards, paths, valueset
from .lib.mir import AnchorLost

CONFIGS_QUICK = ["A", "R"]
CONFIGS_THOROUGH = ["A", "R"]
TECHNIQUE = ('literal directive tables of SetCookieBuilder::build vs SetCookie::from_raw (arm -> field map from stores), taint of the cookie value, pairing of the '
             'Set-Cookie store with its size; value-set dataflow (powerset of 0..255) over the byte classifiers vs the RFC 6265 alphabets')
LEVEL_TEXT = ('Decides clauses C11-a..d: the directive literals SetCookieBuilder::build emits (`; Expires=` .. `; SameSite=`) are, stripped of `; ` and `=`, exactly '
              'the token array SetCookie::from_raw dispatches on, arm k of the parser assigns the field named by token k, and each emitted directive is guarded by th'
              "e field of the same name; SameSitePolicy::as_str and from_bytes are mutually inverse and within RFC 6265bis' vocabulary; the cookie value reaches the "
              'output only through percent_encode and is read back through checked percent_decode_utf8 after quote stripping (on the request side: every value the va'
              'lue reader of the Cookie decoder answers is the percent-decoding of a sub-slice of the very bytes it validated, with no byte-rewriting step in between'
              '); the final from_utf8_unchecked in build is fed only by bytes of &str values; SetHeaders::SetCookie pushes one element per call and accounts `Set-Coo'
              "kie: ` + value + CRLF, which is what the writer emits per element; the per-byte validators of the Cookie decoder let through exactly RFC 6265's cookie"
              '-octet alphabet (values) and token alphabet (names), computed as the value sets reaching the accepting and refusing edges of the match. The quote stri'
              'pping of the request-side value reader runs under len >= 2 and both quote tests (or is a strip_prefix/strip_suffix pair, or a slice pattern testing bo'
              'th ends). Decides these clauses, not the round trip for all jars.')

DIRECTIVES = ["Expires", "Max-Age", "Domain", "Path", "SameSite", "Secure", "HttpOnly"]
RFC6265_AV = {"Expires", "Max-Age", "Domain", "Path", "Secure", "HttpOnly", "SameSite"}


def run(ck, progs):
    ck.explanation = LEVEL_TEXT
    ck.assumptions = ["A4: RFC 6265 section 4.1.1 cookie-av vocabulary + SameSite (6265bis)"]
    for cfg, prog in progs.items():
        ck.config = cfg
        ck.guard("C11-a TABLE directives", lambda: c11a(ck, prog))
        ck.guard("C11-b TAINT value", lambda: c11b(ck, prog))
        ck.guard("C11-c PAIR set-cookie", lambda: c11c(ck, prog))
        ck.guard("C11-d TABLE alphabets", lambda: c11d(ck, prog))
        ck.guard("C11-e MUSTPASS unknown cookie skipped whole", lambda: c11e(ck, prog))
    ck.config = None


def c11a(ck, prog):
    R = "C11-a TABLE directives"
    b = prog.method(r"^ohkami::header::setcookie::SetCookieBuilder$", "build")
    view, writes = builder_writes(prog, b)
    from .lib import pathsens
    # literal pieces written one after the other are one literal on the wire (`"; "` + `"Expires"` + `"="`)
    merged = []       # [text, first call, complete?]
    for c, lit, desc in writes:
        if lit is not None and merged and merged[-1][2] is False and view.dominates(merged[-1][1].bb, c.bb):
            merged[-1][0] += lit
        elif lit is not None:
            merged.append([lit, c, False])
        elif merged:
            merged[-1][2] = True
    emitted = []
    for text, c, _ in merged:
        if not text.startswith("; "):
            continue
        nm_ = text[2:].rstrip("=")
        fld_ = nm_.replace("-", "")
        # the field(s) whose `Some` edge every path to this emission takes (flags set by `matches!` followed through)
        guard_fields = set()
        for cand in ("Expires", "MaxAge", "Domain", "Path", "Secure", "HttpOnly", "SameSite"):
            def some_of(facts, cand=cand):
                for fa in facts:
                    if fa.kind == "variant" and fa.allowed == {"Some"}:
                        d = decision.describe_deep(view, fa.place, 5) if getattr(fa, "place", None) else guards.describe_origin(view, fa.steps)
                        if re.search(r"\.%s$" % cand, d.split("@")[0]):
                            return True
                return False
            if pathsens.path_avoiding_edges(view, prog, 0, c.bb, some_of, constprop=True) is None:
                guard_fields.add(cand)
        emitted.append((text, guard_fields))
    names = [e[0][2:].rstrip("=") for e in emitted]
    ok = sorted(names) == sorted(DIRECTIVES) and set(names) <= RFC6265_AV
    ck.ob(R, "builder:vocabulary", ok, b.loc(None), "" if ok else "SetCookieBuilder::build emits directives %r" % names, how=str(names))
    for lit, gf in emitted:
        nm = lit[2:].rstrip("=")
        field = nm.replace("-", "")
        ok = field in gf
        ck.ob(R, "builder:%s-guarded-by-field" % nm, ok, b.loc(None), "" if ok else "`%s` is emitted under fields %r, expected the %s field" % (lit, sorted(gf), field), how="`%s` iff self.%s is set" % (lit, field))
        valued = lit.endswith("=")
        want_valued = nm not in ("Secure", "HttpOnly")
        ck.ob(R, "builder:%s-form" % nm, valued == want_valued, b.loc(None), "" if valued == want_valued else "`%s`: flag/valued form wrong" % lit, how="valued" if valued else "flag")
    # parser: token array and arm -> field
    p = prog.method(r"^ohkami::header::setcookie::SetCookie<'c>$", "from_raw")
    co = p.calls_to(r"byte_reader::Reader::<'r>::consume_oneof$")
    if len(co) != 1:
        raise AnchorLost("consume_oneof in SetCookie::from_raw not found")
    st = p.origin(co[0].args[1])
    toks = []
    if st and st[-1][0] == "agg":
        for o in st[-1][1][2]:
            oo = p.origin(o)
            toks.append(oo[-1][1].get("s") if oo and oo[-1][0] == "const" else None)
    ok = toks == names or sorted(toks) == sorted(names)
    ck.ob(R, "parser:token-array", ok, p.loc(co[0].sp), "" if ok else "from_raw dispatches on %r, the builder emits %r" % (toks, names), how=str(toks))
    # arm k assigns field of token k
    arms = {}
    for fld in ("Expires", "MaxAge", "Domain", "Path", "SameSite", "Secure", "HttpOnly"):
        for bi, s_, agg in decision.field_stores(p, fld):
            for fa in guards.facts_at(p, prog, bi):
                if fa.kind == "int" and fa.values and len(fa.values) == 1 and guards.origin_matches(p, fa.steps, {"call": r"consume_oneof$"}):
                    arms.setdefault(tuple(fa.values)[0], set()).add(fld)
    for k, tok in enumerate(toks):
        want = (tok or "").replace("-", "")
        ok = arms.get(k) == {want}
        ck.ob(R, "parser:arm%d=%s" % (k, tok), ok, p.loc(None), "" if ok else "arm %d (token %r) of from_raw assigns field(s) %r" % (k, tok, sorted(arms.get(k, []))), how="Some(%d) => this.%s" % (k, want))
    # SameSite tables
    SS = r"^ohkami::header::setcookie::SameSitePolicy$"
    a = decision.variant_const_map(prog.method(SS, "as_str"), prog)
    fb = prog.method(SS, "from_bytes")
    rec = {re.sub(r"^Some\{(\w+)\{.*", r"\1", d): lit for lit, d in decision.bytes_match_table(fb, prog) if d.startswith("Some{")}
    back = rec
    ok = a == {"Strict": "Strict", "Lax": "Lax", "None": "None"} and rec == a
    ck.ob(R, "SameSite:tables-inverse", ok, fb.loc(None), "" if ok else "SameSitePolicy::as_str is %r; from_bytes recognises %r" % (a, back), how="Strict/Lax/None <-> same literals")


def builder_writes(prog, b):
    """(view, [(call, literal text or None, description of the written operand)]) for SetCookieBuilder::build with the
    builder's own helper functions spliced in: every append to the line being built, in program order"""
    helper = lambda caller, callee: callee.crate == caller.crate and (callee.self_ty or "").endswith("setcookie::SetCookieBuilder") and not callee.trait
    view = prog.inlined(b, 2, helper)
    rpo = view.rpo()
    out = []
    for c in sorted(view.calls(), key=lambda c: rpo.get(c.bb, 10 ** 6)):
        if not re.search(r"^alloc::vec::Vec::<T, A>::(extend_from_slice|push)$|^alloc::string::String::(push_str|push)$", c.callee or "") or len(c.args) < 2:
            continue
        ca = view.const_args(c)[1]
        lit = None
        if ca is not None:
            if "s" in ca:
                lit = ca["s"]
            elif "ch" in ca:
                lit = ca["ch"]
            elif ca.get("ty") == "u8" and "v" in ca:
                lit = chr(int(ca["v"]))
        out.append((c, lit, decision.describe_deep(view, c.args[1], 6)))
    return view, out


def c11b(ck, prog):
    R = "C11-b TAINT value"
    b = prog.method(r"^ohkami::header::setcookie::SetCookieBuilder$", "build")
    view, writes = builder_writes(prog, b)
    ext = b.calls_to(r"Vec::<T, A>::extend_from_slice$")
    vals = []
    for c, lit, d in writes:
        d = decision.describe_deep(view, c.args[1], 8)
        if "Cookie.1" in d or "Cookie" in d and ".1" in d:
            vals.append((c, d))
    ok = len(vals) == 1 and "percent_encode(" in vals[0][1]
    ck.ob(R, "builder:value-encoded", ok, b.loc(vals[0][0].sp if vals else None), "" if ok else "the cookie value is written as %r, expected through percent_encode" % [v[1][:60] for v in vals], how="extend_from_slice(percent_encode(&value).as_bytes())")
    # every extend_from_slice operand is as_bytes() of a str value or a byte literal  => from_utf8_unchecked is sound
    bad = []
    for c in ext:
        st = b.origin(c.args[1])
        if st and st[-1][0] == "const":
            continue
        rc = paths.root_call(b, c.args[1], through=r"$^")
        if rc is not None and rc.name == "as_bytes" and re.search(r"core::str::<impl str>::as_bytes$|alloc::string::String::as_bytes$", rc.callee or ""):
            continue
        bad.append(decision.describe_deep(b, c.args[1], 3))
    pushes = [b.const_args(c)[1] for c in b.calls_to(r"Vec::<T, A>::push$")]
    okp = all(p is not None and int(p.get("v", 999)) < 128 for p in pushes)
    ok = not bad and okp
    if not b.calls_to(r"from_utf8_unchecked$") and not view.calls_to(r"from_utf8_unchecked$"):
        # the line is assembled in a String (checked by construction): nothing unchecked to justify
        ok, bad = True, []
    ck.ob(R, "builder:utf8-by-construction", ok, b.loc(None), "" if ok else "build() feeds from_utf8_unchecked with bytes that are not provably UTF-8: %r" % bad, how="%d writes: str.as_bytes() or ASCII literals" % (len(ext) + len(pushes)))
    # parser: value through percent_decode_utf8 (checked)
    p = prog.method(r"^ohkami::header::setcookie::SetCookie<'c>$", "from_raw")
    dec = p.calls_to(r"percent_encoding::percent_decode_utf8$")
    ok = len(dec) == 1
    if ok:
        aggs = [st["r"] for bb in p.live_blocks() for st in p.blocks[bb]["st"] if st["k"] == "=" and st["r"][0] == "agg" and st["r"][1].get("adt", "").endswith("setcookie::SetCookie")]
        ok = bool(aggs) and "percent_decode_utf8" in decision.describe_deep(p, aggs[0][2][0], 6)
    ck.ob(R, "parser:value-decoded-checked", ok, p.loc(None), "" if ok else "from_raw does not take the cookie value through the checked percent_decode_utf8", how="Cookie: (name, percent_decode_utf8(value)?)")
    # request side: every value valid::value() answers is the percent-decoding of (a sub-slice of) the bytes it was given
    # and validated -- no rewriting of bytes (`+` -> space, trimming, case folding) between the validation and the decoding
    v = prog.one(r"serde_cookie::de::valid::value$")
    v = prog.inlined(v, 2, lambda caller, callee: callee.crate == caller.crate and callee.kind != "Closure" and "serde_cookie" in callee.key and len(callee.blocks) < 60)     # quote stripping may be a helper
    n = 0
    for bb, kind, payload in paths.ret_sites(v):
        if kind in ("Err", "residual"):
            continue
        n += 1
        if kind == "call":
            d = decision.describe_deep(v, ["m", payload.dest] if False else payload.args[0], 12) if payload.name in ("map_err", "map", "or_else") and payload.args else "%s(%s)" % (payload.name, ",".join(decision.describe_deep(v, a, 12) for a in payload.args))
        elif kind in ("Ok",):
            d = decision.describe_deep(v, payload[2][0], 12)
        else:
            d = "?" + kind
        m = re.search(r"percent_decode(?:_utf8)?\((.*)$", d)
        inner = m.group(1) if m else None
        okv = False
        if inner is not None:
            depth, end = 1, 0
            for end, ch in enumerate(inner):
                depth += (ch == "(") - (ch == ")")
                if depth == 0:
                    break
            inner = inner[:end]
            names = set(re.findall(r"([A-Za-z_][A-Za-z_0-9]*)\(", inner))
            okv = "arg1" in inner and names <= {"index", "get_unchecked", "deref", "len", "strip_prefix", "strip_suffix", "unwrap_or", "and_then", "split_at", "split_first", "split_last"}
            wrappers = set(re.findall(r"([A-Za-z_][A-Za-z_0-9]*)\(", d[:m.start()]))
            okv = okv and wrappers <= {"map", "map_err", "from_utf8", "into_owned", "and_then", "ok", "ok_or", "ok_or_else", "from", "into", "Owned", "Borrowed", "from_utf8_lossy"}
        ck.ob(R, "request-value:decoding-of-the-validated-bytes#%d" % n, okv, v.loc(None),
              "" if okv else "valid::value() answers `%s`: not the percent-decoding of the bytes it validated (a rewriting step in between changes which string a legal cookie-octet sequence denotes, e.g. `+` read as a space)" % d[:120],
              how="percent_decode[_utf8] of a sub-slice of the argument")
    ck.floor(R, "values answered by valid::value", n, 1)
    # ... after stripping one pair of double quotes, whenever the value has both (RFC 6265: cookie-value = *cookie-octet /
    # ( DQUOTE *cookie-octet DQUOTE ), the empty quoted value `""` included): the strip `bytes[1..len-1]` runs under
    # `len >= 2` (not `> 2`), first == '"' and last == '"'; or is written with strip_prefix / strip_suffix of `"`
    strips = [c for c in v.calls() if c.name in ("index", "get_unchecked", "get") and len(c.args) > 1 and re.match(r"^Range\{const 1,Sub(WithOverflow)?\(len\(.*arg1.*\),const 1\)(\.0)?\}$", decision.describe_deep(v, c.args[1], 6))]
    fam_v = [v] + [g for k in [v.key] + list(v.rec.get("inlined") or []) for g in prog.descendants(k)]      # closures of and_then(..) included
    sp = [c for g in {g.key: g for g in fam_v}.values() for c in g.calls() if c.name in ("strip_prefix", "strip_suffix")]
    if strips:
        c = strips[0]
        lo = None
        quotes = 0
        for fa in guards.facts_at(v, prog, c.bb):
            if fa.kind == "cmp":
                l, r = guards.describe_origin(v, fa.lhs), guards.describe_origin(v, fa.rhs)
                if "len" in l and r.startswith("const "):
                    k = int(r.split()[1])
                    lo = {"Ge": k, "Gt": k + 1, "Ne": (1 if k == 0 else None)}.get(fa.op, None) if lo is None else lo
                elif fa.op == "Eq" and r == "const 34":
                    quotes += 1
        okq = lo == 2 and quotes >= 2
        ck.ob(R, "request-value:quote-strip", okq, v.loc(c.sp), "" if okq else "the surrounding double quotes of a cookie value are stripped only when its length is at least %s (and %d quote test(s)): RFC 6265 allows the empty quoted value `\"\"`, which then keeps its quotes and is refused" % (lo, quotes),
              how="strip under len >= 2, first == '\"', last == '\"'")
    elif [1 for g in {g.key: g for g in fam_v}.values() for bi in g.live_blocks() for st in g.blocks[bi]["st"] if st["k"] == "=" and st["r"][0] == "ref" and any(pr[0] == "sub" and pr[1:] == [1, 1, True] for pr in st["r"][2][1])]:
        # `if let [b'"', inner @ .., b'"'] = bytes { bytes = inner }`: the sub-slice 1..len-1 under the two element tests
        okq = False
        for g in {g.key: g for g in fam_v}.values():
            for bi in sorted(g.live_blocks()):
                for st in g.blocks[bi]["st"]:
                    if st["k"] == "=" and st["r"][0] == "ref" and any(pr[0] == "sub" and pr[1:] == [1, 1, True] for pr in st["r"][2][1]):
                        base = st["r"][2][0]
                        first = last = False
                        for fa in guards.facts_at(g, prog, bi):
                            if fa.kind == "int" and fa.values == {34}:
                                dsc = g.blocks[fa.sw_bb]["t"]["discr"]
                                if dsc[0] in ("c", "m") and dsc[1][0] == base:
                                    for pr in dsc[1][1]:
                                        if pr[0] == "ci" and pr[1] == 0 and pr[3] is False:
                                            first = True
                                        if pr[0] == "ci" and pr[1] == 1 and pr[3] is True:
                                            last = True
                        okq = first and last
        ck.ob(R, "request-value:quote-strip", okq, v.loc(None), "" if okq else "the slice pattern that strips the quotes does not test both the first and the last byte for `\"`", how="[b'\"', inner @ .., b'\"'] => inner")
    elif len(sp) >= 2:
        lits = sorted((c.fn.const_args(c)[1] or {}).get("b") and bytes((c.fn.const_args(c)[1] or {}).get("b")).decode("latin1") or (c.fn.const_args(c)[1] or {}).get("s") or "?" for c in sp)
        okq = all(x.strip("\x00") == '"' or x == '"' for x in lits)
        ck.ob(R, "request-value:quote-strip", okq, v.loc(sp[0].sp), "" if okq else "the quote stripping strips %r, expected one double quote at each end" % lits, how="strip_prefix(\"\\\"\") + strip_suffix(\"\\\"\")")
    else:
        ck.ob(R, "request-value:quote-strip", False, v.loc(None), "no stripping of a surrounding pair of double quotes was found in valid::value: a quoted cookie value (RFC 6265) would be refused at its quotes")


def c11c(ck, prog):
    R = "C11-c PAIR set-cookie"
    fs = [f for f in prog.fns.values() if f.name == "SetCookie" and f.self_ty and "SetHeaders" in f.self_ty]
    if len(fs) != 1:
        raise AnchorLost("SetHeaders::SetCookie not found")
    f = fs[0]
    # exactly one insertion on every path (`None => vec![c], Some(v) => v.push(c)`, or `get_or_insert_with(Vec::new).push(c)`):
    # count the insertion events (a push, or a vector literal built from the cookie) along every flag-consistent path
    from .lib import pathsens
    ev_blocks = {}
    for c in f.calls_to(r"Vec::<T, A>::(push|insert|extend|extend_from_slice|append)$"):
        ev_blocks[c.bb] = "add"
    for c in f.calls_to(r"into_vec$|box_assume_init_into_vec"):
        ev_blocks[c.bb] = "add"
    for c in f.calls_to(r"Vec::<T, A>::(pop|clear|remove|swap_remove|truncate|drain|retain)$"):
        ev_blocks[c.bb] = "del"
    exits = set(f.exits())
    res = pathsens.explore(f, 0, lambda bb: bb in exits, lambda bb: ev_blocks.get(bb), 0, lambda st, tok: min(st + 1, 2) if tok == "add" else -1)
    counts = sorted(res.keys())
    ok = counts == [1]
    ck.ob(R, "one-element-per-call", ok, f.loc(None), "" if ok else "SetHeaders::SetCookie does not add exactly one element per call (insertions per path: %r; -1 = an element is removed)" % counts,
          how="every path through SetCookie performs exactly one insertion into the cookie list (%d insertion site(s))" % sum(1 for v in ev_blocks.values() if v == "add"))
    lens = [(f.const_args(c)[0] or {}).get("s") for c in f.calls() if c.name == "len" and f.const_args(c)[0]]
    ok = sorted(lens) == sorted(["Set-Cookie: ", "\r\n"])
    ck.ob(R, "size-accounted", ok, f.loc(None), "" if ok else "SetCookie accounts literals %r, the writer emits 'Set-Cookie: ' and CRLF per cookie" % lens, how="size += len(\"Set-Cookie: \") + len(value) + len(CRLF)")
    src = [c for c in f.calls() if c.name == "build"]
    ok = len(src) == 1
    ck.ob(R, "value-from-builder", ok, f.loc(None), "" if ok else "the stored line is not SetCookieBuilder::build()'s output", how="directives(SetCookieBuilder::new(name, value)).build()")


# RFC 6265 4.1.1: cookie-octet = %x21 / %x23-2B / %x2D-3A / %x3C-5B / %x5D-7E
COOKIE_OCTET = frozenset([0x21]) | frozenset(range(0x23, 0x2C)) | frozenset(range(0x2D, 0x3B)) | frozenset(range(0x3C, 0x5C)) | frozenset(range(0x5D, 0x7F))
# RFC 6265 4.1.1 / RFC 2616 2.2: token = 1*<any CHAR except CTLs or separators>
SEPARATORS = frozenset(b'()<>@,;:\\"/[]?={} \t')
TOKEN = frozenset(x for x in range(0x21, 0x7F)) - SEPARATORS


def accepted_bytes(prog, f):
    """the bytes a per-byte validation loop lets through: value-set dataflow from the `Some(b)` edge of the loop's next()"""
    sw = None
    for b in sorted(f.live_blocks()):
        t = f.blocks[b]["t"]
        if t["k"] == "switch" and re.match(r"discr\(next\(", decision.describe_deep(f, t["discr"], 3)):
            sw = b
    if sw is None:
        return accepted_bytes_by_predicate(prog, f)
    entry = [tb for tb, lab in f.succ(sw) if lab == 1]
    if not entry:
        raise AnchorLost("no Some edge of the byte loop in %s" % f.key)
    header = [c.bb for c in f.calls() if c.name == "next"]
    is_byte = lambda fn, op: re.fullmatch(r"next\(.*\)@Some\.0", decision.describe_deep(fn, op, 4)) is not None
    rets = {bb: kind for bb, kind, _ in paths.ret_sites(f)}
    sets = valueset.reach_sets(f, entry[0], is_byte, stop=lambda bb: bb in header or bb in rets)
    rejected = frozenset()
    for bb, kind in rets.items():
        if kind in ("Err", "residual") and bb in sets:
            rejected |= sets[bb]
    cont = frozenset()
    for hb in header:
        cont |= sets.get(hb, frozenset())
    return cont, rejected


def accepted_bytes_by_predicate(prog, f):
    """the same for `if bytes.iter().any(|&b| forbidden(b)) { return Err(..) }` (or `!all(|b| allowed(b))`): the closure, with
    the local predicate helpers it calls spliced in, is a classifier of its byte parameter; the bytes for which it answers
    true / false are computed by value-set dataflow, and the combinator and the edge on which Err is returned say which of
    the two sets is refused."""
    g = prog.inlined(f, 2, lambda caller, callee: callee.crate == caller.crate and callee.kind != "Closure" and len(callee.blocks) < 60)
    tests = [c for c in g.calls() if c.name in ("any", "all") and len(c.args) == 2 and re.search(r"Iterator::(any|all)$", c.decl or "")]
    if len(tests) != 1:
        raise AnchorLost("no byte loop and no single any()/all() over the bytes in %s" % f.key)
    t = tests[0]
    src = decision.describe_deep(g, t.args[0], 6)
    if not re.search(r"iter\(.*arg1", src):
        raise AnchorLost("the any()/all() of %s does not run over the argument bytes (%s)" % (f.key, src[:60]))
    st = g.origin(t.args[1])
    cl = prog.fns.get(st[-1][1][1].get("def")) if st and st[-1][0] == "agg" and isinstance(st[-1][1][1], dict) else None
    if cl is None:
        raise AnchorLost("the predicate handed to %s() in %s is not a closure literal" % (t.name, f.key))
    body = prog.inlined(cl, 3, lambda caller, callee: callee.crate == caller.crate and len(callee.blocks) < 80)
    # the byte: the closure's second argument (`|&b|` / `|b|`), through copies and dereferences
    is_byte = lambda fn, op: re.fullmatch(r"(deref\()*arg2\)*(@\w+)?(\.0)?", decision.describe_deep(fn, op, 4)) is not None
    ts, fs_, unk = valueset.predicate_sets(body, is_byte)
    if unk:
        raise AnchorLost("the predicate of %s answers something this analysis cannot read for bytes %s" % (f.key, valueset.show(unk)))
    # on which answer of the combinator is Err returned?
    errs = [bb for bb, kind, _ in paths.ret_sites(g) if kind in ("Err", "residual")]
    truth = None
    for bb in errs:
        for fa in guards.facts_at(g, prog, bb):
            if fa.kind == "boolcall" and fa.call.bb == t.bb:
                truth = fa.truth
    if truth is None:
        raise AnchorLost("no Err return of %s depends on the %s() over the bytes" % (f.key, t.name))
    # any(p): true iff some byte satisfies p; all(p): false iff some byte fails p
    if t.name == "any":
        rejected, cont = (ts, fs_) if truth else (fs_, ts)
    else:
        rejected, cont = (fs_, ts) if not truth else (ts, fs_)
    return cont, rejected


def c11d(ck, prog):
    """`values plain ... as RFC 6265 allows`, `names over the RFC token alphabet`: the per-byte validators of the Cookie
    decoder let through exactly RFC 6265's cookie-octet / token alphabets."""
    R = "C11-d TABLE alphabets"
    for nm, want, what in (("value", COOKIE_OCTET, "cookie-octet"), ("name", TOKEN, "token")):
        f = prog.one(r"serde_cookie::de::valid::%s$" % nm)
        acc, rej = accepted_bytes(prog, f)
        ok = acc == want and rej == valueset.ALL - want
        ck.ob(R, "valid::%s" % nm, ok, f.loc(None),
              "" if ok else "serde_cookie valid::%s lets through %s and refuses %s; RFC 6265 %s is %s (wrongly refused: %s; wrongly accepted: %s)"
              % (nm, valueset.show(acc), valueset.show(rej), what, valueset.show(want), valueset.show(want - acc), valueset.show(acc - want)),
              how="accepted set = RFC 6265 %s (%d bytes), computed by value-set dataflow over the match" % (what, len(want)))


def c11e(ck, prog):
    """`cookies the target does not declare are ignored`: skipping one means consuming its value up to the next pair, wherever
    in the jar it stands -- also as the last pair, where no `;` follows. deserialize_ignored_any of the cookie decoder must
    consume through the decoder's own section reader (the same step every declared value takes) on every path."""
    R = "C11-e MUSTPASS unknown cookie skipped whole"
    fs = prog.find(r"CookieDeserializer<'de> as serde_core::de::Deserializer<'de>>::deserialize_ignored_any$")
    if len(fs) != 1:
        raise AnchorLost("deserialize_ignored_any of the cookie decoder not found (%d)" % len(fs))
    f = fs[0]
    ns = f.calls_to(r"CookieDeserializer::<'de>::next_section$")
    exits = f.exits()
    ok = len(ns) >= 1 and all(any(f.dominates(c.bb, e) for c in ns) for e in exits)
    own = [c.name for c in f.calls() if c.name in ("position", "find", "index", "split_at", "get", "get_unchecked")]
    ck.ob(R, "ignored-value:consumed-by-next_section", ok and not own, f.loc(None),
          "" if ok and not own else "deserialize_ignored_any of the cookie decoder does not consume the value through next_section() on every path (own scanning: %r): an undeclared cookie at a position its private scan does not "
          "handle (e.g. last in the jar, where no `;` follows) is left in the input and the whole decode fails" % own, how="next_section() dominates every return; no private scanning")
