"""C03 Responses on the wire are well-formed and never overrun their buffer.
Decides: (a) reserved capacity covers the unchecked writes in send; (b) every header-store mutator adjusts `size` with the same
literals the writer emits; (c) IndexMap liveness agreement between delete/set and the iterators; (d) body setter => Content-Length
of the same bytes; (e) complete() decision table; (f) status-line and header-name tables."""
import re

from .lib import decision, guards, paths, pathsens
from .lib.mir import AnchorLost, Call

CONFIGS_QUICK = ["A", "R"]
CONFIGS_THOROUGH = ["A", "R", "ASYNCSTD", "SMOL", "NIO", "GLOMMIO", "NOAPI"]
TECHNIQUE = ('pairing rules on built MIR (capacity terms vs unchecked writes, store mutation vs size update, payload store vs Content-Length), flag-sensitive must-'
             'pass exploration of the Payload arm of send, representation-invariant lint of IndexMap, literal tables')
LEVEL_TEXT = ('Decides clauses C03-a..h: in every arm of Response::send the summands of the reserved capacity cover, by provenance, each unchecked write into that bu'
              'ffer, and only functions that reserved `size` call write_unchecked_to; every mutator of the response header stores updates `size` on each mutating pat'
              'h (including in-place changes of a stored value through the reference handed out by get_mut), with the literals the writer emits per entry kind; Index'
              "Map's readers and its delete/set agree on which entries are live (no stale duplicate can be iterated); every function storing Content::Payload also se"
              'ts Content-Length from the length of the same bytes (Content::Stream: chunked, no length); complete() drops length and body for 204 and length for str'
              'eams and is called on every path of Router::handle; status lines and header names are well-formed tokens; on every flag-consistent path through the Co'
              'ntent::Payload arm of Response::send the payload bytes reach the connection exactly once (staged into the buffer that is then written, or written dire'
              'ctly), so the announced Content-Length is followed by that many bytes; insert, append and remove of a header given by name agree on whether standard n'
              'ames are redirected to the standard store. The 204/stream decisions of complete() are decided on every path: from the entry no path reaches the exit w'
              'ithout the removal of Content-Length (resp. of the body) unless it takes an edge establishing that the status is not 204 (resp. the content is not a s'
              'tream) or that there is nothing to remove, so an arm matched before the status is looked at cannot answer for a 204. C03-i: the chunked framing of a s'
              'treamed body (size line = length of the finished message, CRLFs, terminal zero chunk: the C17-a clauses) re-evaluated. C03-d: the Content-Length call '
              'lies on the path of the body store (it dominates or post-dominates it), not under a condition of its own. Decides these clauses, not byte-level well-f'
              'ormedness for all operation histories.')

HDR = r"^ohkami::response::headers::Headers$"


def run(ck, progs):
    ck.explanation = LEVEL_TEXT
    ck.assumptions = ["A5", "Vec::with_capacity(n) provides capacity >= n"]
    for cfg, prog in progs.items():
        ck.config = cfg
        ck.guard("C03-a PAIR capacity", lambda: c03a(ck, prog))
        ck.guard("C03-b PAIR size", lambda: c03b(ck, prog))
        ck.guard("C03-c INVARIANT IndexMap", lambda: c03c(ck, prog))
        ck.guard("C03-d PAIR body-length", lambda: c03d(ck, prog))
        ck.guard("C03-e DECISION complete", lambda: c03e(ck, prog))
        ck.guard("C03-g MUSTPASS payload sent", lambda: c03g(ck, prog))
        ck.guard("C03-h SIBLING custom-name routing", lambda: c03h(ck, prog))
        ck.guard("C03-i MUSTPASS chunked framing", lambda: c03i(ck, prog))
        if cfg == "A":
            ck.guard("C03-f TABLE", lambda: c03f(ck, prog))
    ck.config = None


# ------------------------------------------------------------------------------------------------
def unchecked_writes(prog, f, buf_call):
    """unchecked writes into the Vec created by `buf_call` (a with_capacity call): (kind, what, call)"""
    out = []
    for c in f.calls():
        if c.name == "copy_nonoverlapping" and len(c.args) >= 2:
            dst = paths.root_call(f, c.args[1], through=paths.TRANSPARENT + r"|::add$|::as_mut_ptr$|DerefMut>::deref_mut$")
            if dst is not None and dst.bb == buf_call.bb:
                src = f.origin(c.args[0])
                sc = src[-1][1] if src and src[-1][0] == "call" else None
                what = decision.describe_deep(f, sc.args[0], 4) if sc is not None and sc.name == "as_ptr" else decision.describe_deep(f, c.args[0], 4)
                out.append(("copy", what, c))
        if c.name == "write_unchecked_to" and len(c.args) >= 2:
            dst = paths.root_call(f, c.args[1])
            if dst is not None and dst.bb == buf_call.bb:
                out.append(("headers", decision.describe_deep(f, c.args[0], 4), c))
    return out


def c03a(ck, prog):
    R = "C03-a PAIR capacity"
    f = prog.coroutine_body(prog.one(r"^ohkami::response::Response::send$").key)
    # the head buffer may be built by a local helper (capacity = line + headers + a `body_len` argument): read send with it
    # spliced in at every call site, so that each arm's reservation and writes are seen together
    f = prog.inlined(f, 1, r"Vec::<T>::with_capacity$|Vec::<T, A>::with_capacity(_in)?$")
    caps = [c for c in f.calls_to(r"Vec::<T>::with_capacity$|Vec::<T, A>::with_capacity(_in)?$")]
    arms = 0
    nwrites = 0
    for c in caps:
        ws = unchecked_writes(prog, f, c)
        if not ws:
            # a buffer written only with checked methods (the SSE message; or an arm rewritten with extend_from_slice):
            # nothing can be written past its capacity
            ck.ob(R, "buffer@%s:checked-writes-only" % (len([x for x in caps if x.bb < c.bb])), True, f.loc(c.sp), how="no unchecked write into this buffer", nontrivial=False)
            continue
        arms += 1
        terms0 = decision.add_terms(f, c.args[0])
        terms = [t for t, _ in terms0]
        fa = [x for x in guards.facts_at(f, prog, c.bb) if x.kind == "variant" and x.allowed and len(x.allowed) == 1 and "content" in guards.describe_origin(f, x.steps)]
        arm = tuple(fa[-1].allowed)[0] if fa else "bb%d" % c.bb
        remaining = list(terms)
        for kind, what, wc in ws:
            nwrites += 1
            # a summand chosen by a flag (`if inline {len} else {0}`) counts, for a write made under the same
            # flag, as the value it has on that edge
            for t, steps in terms0:
                if t in remaining and steps and steps[-1][0] == "multi":
                    alts = feasible_defs(f, steps[-1][1], wc.bb)
                    if len(alts) == 1:
                        remaining.remove(t)
                        remaining += alts[0]
            want = "len(%s)" % what if kind == "copy" else None
            hit = None
            for t in remaining:
                if kind == "copy" and (t == want or t.replace("deref(", "(").replace("as_bytes(", "(") == want.replace("deref(", "(").replace("as_bytes(", "(")):
                    hit = t
                if kind == "headers" and re.fullmatch(r"%s\.size|.*\.size\.headers\.?|%s\.size.*" % (re.escape(what), re.escape(what)), t) or (kind == "headers" and "size" in t and "headers" in t):
                    hit = t
            ok = hit is not None
            if ok:
                remaining.remove(hit)
            ck.ob(R, "%s:write:%s" % (arm, what[:60]), ok, f.loc(wc.sp),
                  "" if ok else "Response::send (arm %s) writes `%s` unchecked into a buffer whose reserved capacity [%s] has no term for it" % (arm, what, " + ".join(terms)),
                  how="capacity term `%s` covers the write" % hit)
        # the buffer must not be written unchecked twice with the same term nor after being sent: each write consumed one term
    # the floor is on the buffers found, not on how many of them are written unchecked: replacing the unchecked pushes by
    # checked ones is a correct change and must not be reported
    ck.floor(R, "output buffers built in send", len(caps), 3)
    # WHO: write_unchecked_to is called only by functions that reserved `size` for the same Headers
    callers = prog.callers().get("ohkami::response::headers::Headers::write_unchecked_to", [])
    for c in callers:
        g = c.fn
        res = g.calls_to(r"Vec::<T, A>::reserve$|Vec::<T>::with_capacity$")
        ok = False
        for r in res:
            ts = " + ".join(t for t, _ in decision.add_terms(g, r.args[-1]))
            if "size" in ts and g.dominates(r.bb, c.bb):
                ok = True
        ck.ob(R, "who:write_unchecked_to<-" + g.key[-60:], ok, g.loc(c.sp), "" if ok else "%s calls Headers::write_unchecked_to without having reserved `size` bytes in a dominating with_capacity/reserve" % g.key,
              how="reservation of `size` dominates the call")
    ck.floor(R, "callers of write_unchecked_to", len(callers), 2)
    # WHO: raw copy into a Vec tail happens only in send, write_unchecked_to (expansion of push_unchecked!)
    for fn in prog.fns.values():
        if fn.crate != "ohkami":
            continue
        for c in fn.calls():
            if c.name == "copy_nonoverlapping" and "push_unchecked" in " ".join(c.mx):
                ALLOWED = r"^ohkami::response::(Response::send::\{closure#0\}|headers::Headers::write_unchecked_to(::\w+)?)$"
                ok = re.search(ALLOWED, fn.key) is not None
                if not ok and not fn.pub and "response::" in fn.key:
                    # an `unsafe fn` helper of the writers (its capacity precondition is its callers' business): only they call it
                    cs = prog.callers().get(fn.key, [])
                    ok = bool(cs) and all(re.search(ALLOWED, c_.fn.key) for c_ in cs)
                if not ok:
                    ck.ob(R, "who:push_unchecked-in:" + fn.key[-70:], False, fn.loc(c.sp), "push_unchecked! is used in %s, outside the functions whose capacity this rule accounts for" % fn.key)


def feasible_defs(f, local, at_bb):
    """summands of each definition of `local` that can reach `at_bb` given the flag edges dominating both"""
    here = pathsens.edges_into(f, at_bb)
    out = []
    for (dbb, si, dk, payload) in f.defs().get(local, []):
        if f.is_cleanup(dbb):
            continue
        if not pathsens.compatible(pathsens.edges_into(f, dbb), here):
            continue
        if dk == "assign" and not payload["p"][1] and payload["r"][0] == "use":
            out.append([t for t, _ in decision.add_terms(f, payload["r"][1])])
        elif dk == "call":
            c = Call(f, dbb, payload, False)
            out.append(["%s(%s)" % (c.name, ",".join(decision.describe_deep(f, a, 4) for a in c.args))])
        else:
            out.append(["?"])
    return out


# ------------------------------------------------------------------------------------------------
def c03g(ck, prog):
    """Content-Length is derived from the payload (C03-d); here: on every feasible path through the Payload arm of
    Response::send the payload bytes go to the connection exactly once (staged in the buffer that is then written,
    or written directly)."""
    R = "C03-g MUSTPASS payload sent"
    f = prog.coroutine_body(prog.one(r"^ohkami::response::Response::send$").key)
    f = prog.awaited_inlined(f, 1, containing=r"(AsyncWriteExt|WriteExt)::write_all$")     # `write_all` + `flush` as an awaited local helper
    f = prog.inlined(f, 1, r"Vec::<T>::with_capacity$|Vec::<T, A>::with_capacity(_in)?$")        # the head buffer built by a local helper
    arm = None
    for bi in sorted(f.live_blocks()):
        info = f.switch_info(bi) if f.blocks[bi]["t"]["k"] == "switch" else None
        if not info or info["kind"] != "variant" or "response::content::Content" not in (info.get("ty") or ""):
            continue
        names = prog.variant_names(info["ty"]) or {}
        for tb, lab in f.succ(bi):
            if lab != "otherwise" and names.get(lab) == "Payload":
                arm = (bi, tb)
    if arm is None:
        raise AnchorLost("no match arm `Content::Payload` in Response::send")
    sw, entry = arm

    def is_payload(op):
        # the payload itself, possibly behind deref/as_ref/as_ptr wrappers -- not an expression that merely mentions it
        return re.fullmatch(r"(?:\w+\()*arg\d+[\w.^]*content@Payload\.0\)*", decision.describe_deep(f, op, 6)) is not None

    bufs = {c.bb for c in f.calls_to(r"Vec::<T>::with_capacity$|Vec::<T, A>::with_capacity(_in)?$")}

    def event(bb):
        c = f.call_at(bb)
        if c is None:
            return None
        if c.name == "copy_nonoverlapping" and len(c.args) >= 2 and is_payload(c.args[0]):
            return "stage"
        if c.name in ("extend_from_slice", "extend", "append", "push_str") and len(c.args) >= 2 and is_payload(c.args[1]):
            return "stage"
        if c.name in ("write_all", "write", "write_all_vectored", "send"):
            if any(is_payload(a) for a in c.args[1:]):
                return "send-payload"
            for a in c.args[1:]:
                rc = paths.root_call(f, a)
                if rc is not None and rc.bb in bufs:
                    return "send-buf"
        return None

    def step(st, tok):
        staged, sent = st
        if tok == "stage":
            return (min(staged + 1, 2), sent)
        if tok == "send-buf":
            return (0, min(sent + staged, 2))
        if tok == "send-payload":
            return (staged, min(sent + 1, 2))
        return st

    def stop(bb):
        t = f.blocks[bb]["t"]
        return (not f.edge_dominates(sw, entry, bb)) or t["k"] in ("return", "unreachable") or (t["k"] == "call" and t.get("target") is None)

    exits = pathsens.explore(f, entry, stop, event, (0, 0), step)
    nev = sum(1 for b in f.live_blocks() if f.edge_dominates(sw, entry, b) and event(b))
    bad = []
    nexit = 0
    for (staged, sent), bbs in sorted(exits.items()):
        for bb in sorted(bbs):
            t = f.blocks[bb]["t"]
            if t["k"] in ("unreachable",) or (t["k"] == "call" and t.get("target") is None):
                continue  # diverging (`expect` on a failed write, the impossible arm of a poll match)
            nexit += 1
            if sent != 1 or staged != 0:
                bad.append(((staged, sent), bb))
    ok = not bad and nev >= 2 and nexit >= 1
    ck.ob(R, "Payload-arm", ok, f.loc(f.blocks[entry]["t"].get("sp")),
          "" if ok else "Response::send (arm Payload): a feasible path leaves the arm having put the payload on the wire %s time(s)%s while Content-Length announces its length once (exit state(s) %s; %d staging/sending call(s) seen)"
          % (bad[0][0][1] if bad else 0, " with bytes staged but not written" if bad and bad[0][0][0] else "", [b[0] for b in bad], nev),
          how="every flag-consistent path through the arm stages/sends the payload exactly once (%d normal exit(s), %d event call(s))" % (nexit, nev))


# ------------------------------------------------------------------------------------------------
STORED_VALUE_REF = re.compile(r"^&(?:'\w+ )?mut (?:alloc|std)::borrow::Cow<")  # `&mut Cow<'static, str>`: a stored header value
MUTATORS = r"IndexMap::<N, Value>::(set|delete)$|TupleMap::<K, V>::(insert|remove|clear)$|Vec::<T, A>::(push|pop|clear|remove|insert|truncate)$"


def size_stores(f):
    """blocks containing an assignment to a place ending in field `size` of response Headers"""
    out = []
    for bi, b in enumerate(f.blocks):
        if b["cleanup"]:
            continue
        for st in b["st"]:
            if st["k"] == "=" and st["p"][1] and st["p"][1][-1][0] == "f" and st["p"][1][-1][2] == "size":
                out.append((bi, st))
    return out


def c03b(ck, prog):
    R = "C03-b PAIR size"
    fns = [f for f in prog.fns.values() if f.self_ty and (re.search(HDR, f.self_ty) or f.self_ty.startswith("ohkami::response::headers::SetHeaders")) and f.crate == "ohkami" and not f.trait]
    n = 0
    writers = set()
    fnset = {f.key for f in fns}
    own_helper = lambda caller, callee: callee.key in fnset

    def private_helper(f):
        """a non-public function of the header types called only from their other functions: its statements are judged
        where they run, in the (inlined view of the) callers -- the size update may legitimately be the caller's"""
        cs = prog.callers().get(f.key, [])
        return bool(cs) and not f.pub and all(c.fn.key in fnset and c.fn.key != f.key for c in cs)

    helpers = {f.key for f in fns if private_helper(f)}
    for f in fns:
        if f.key in helpers:
            continue
        f = prog.inlined(f, 2, lambda caller, callee: callee.key in helpers)
        ss = size_stores(f)
        if ss:
            writers.add(f.name)
        for c in f.calls():
            if not re.search(MUTATORS, c.callee or ""):
                continue
            recv = decision.describe_deep(f, c.args[0], 4)
            if not re.search(r"standard|custom|setcookie", recv):
                continue
            if f.name in ("clear",):
                continue
            n += 1
            sblocks = {sb for sb, _ in ss}
            exits = set(f.exits())
            if c.name in ("delete", "remove"):
                # removal is a no-op when the entry is absent: the update is required on the edge where the entry exists
                ok = False
                for sb in sblocks:
                    for fa in guards.facts_at(f, prog, sb):
                        if fa.kind == "variant" and fa.allowed == {"Some"} and fa.steps and fa.steps[-1][0] == "call" and fa.steps[-1][1].name in ("get", "get_mut", "remove"):
                            ok = True
            else:
                # every path through the mutation passes an update of `size`
                ok = any(f.dominates(sb, c.bb) for sb in sblocks) or (c.target is not None and not (f.reachable_from(c.target, avoid=tuple(sblocks)) & exits))
            ck.ob(R, "%s:%s(%s)" % (f.name, c.name, recv[:30]), ok, f.loc(c.sp),
                  "" if ok else "Headers::%s mutates the header store (%s on %s) on a path that does not update `size`: the serializer reserves `size` bytes and writes unchecked" % (f.name, c.name, recv),
                  how="`size` assignment on every path through the mutation")
        # in-place changes of a stored value through the `&mut` handed out by get_mut (`*v = value`, `v.push_str(..)`):
        # every path from such a write to the function's exit passes an update of `size`
        sblocks = {sb for sb, _ in ss}
        exits = set(f.exits())
        for bi in sorted(f.live_blocks()):
            b = f.blocks[bi]
            if b["cleanup"]:
                continue
            sites = []
            for st in b["st"]:
                if st["k"] == "=" and st["p"][1] and st["p"][1][0][0] == "d" and not any(pr[0] == "f" and pr[2] == "size" for pr in st["p"][1]):
                    d = guards.describe_origin(f, f.origin([st["p"][0], []]))
                    if re.search(r"call:get_mut as Some", d) or STORED_VALUE_REF.search(f.locals[st["p"][0]] or ""):
                        sites.append(("`*v = ..`", st.get("sp"), None))
            t = b["t"]
            if t["k"] == "call":
                c = Call(f, bi, t, False)
                if c.name in ("push_str", "push", "insert_str", "extend", "extend_from_slice", "to_mut", "truncate", "clear", "make_ascii_lowercase") and c.args:
                    d = guards.describe_origin(f, f.origin(c.args[0]))
                    dd = decision.describe_deep(f, c.args[0], 5)
                    root = f.origin(c.args[0])
                    rl = root[-1][1] if root and root[-1][0] == "multi" else None
                    if re.search(r"call:get_mut as Some", d) or re.search(r"get_mut\(.*(standard|custom)", dd) or (rl is not None and STORED_VALUE_REF.search(f.locals[rl] or "")):
                        sites.append(("%s(..)" % c.name, t.get("sp"), c))
            for what, sp, c in sites:
                start = c.target if c is not None and c.target is not None else bi
                after = f.reachable_from(start, avoid=tuple(sblocks))
                # a size store later in the same block as the write also counts
                same = any(sb == bi for sb in sblocks) and c is None
                ok = same or not (after & exits) or any(f.dominates(sb, bi) and sb != bi for sb in sblocks)
                if ok and what == "`*v = ..`":
                    # a replacement changes the length both ways: among the `size` updates on the write's path (its own block,
                    # the blocks that dominate it, the blocks every path from it must pass) there is one that *adds* (the new
                    # value's length), not only the subtraction of the old one
                    def _adds(stm):
                        r = stm["r"]
                        d = decision.describe_deep(f, r[1], 4) if r[0] == "use" else (r[1] if r[0] == "bin" else "")
                        return bool(re.match(r"^Add", d)) or (r[0] == "use" and not re.match(r"^Sub", d) and "size" not in d)
                    on_path = [stm for sb, stm in ss if sb == bi or f.dominates(sb, bi) or sb not in after and sb in f.reachable_from(start)]
                    if on_path and not any(_adds(stm) for stm in on_path):
                        ok = False
                n += 1
                ck.ob(R, "%s:in-place:%s" % (f.name, what), ok, f.loc(sp),
                      "" if ok else "Headers::%s changes a stored header value in place (%s) on a path that reaches the exit without updating `size`: the serializer reserves `size` bytes and then writes the longer value unchecked"
                      % (f.name, what), how="`size` assignment on every path after the in-place write")
    ck.floor(R, "mutation sites", n, 7)
    # WHO: `size` is assigned only by the audited mutators
    allowed = {"insert", "insert_custom", "remove", "remove_custom", "append", "append_custom", "SetCookie", "new", "_new"}
    for f in prog.fns.values():
        if f.crate != "ohkami":
            continue
        for bi, st in size_stores(f):
            ty = f.place_ty([st["p"][0], st["p"][1][:-1]])
            if "response::headers::Headers" not in ty:
                continue
            ok = f.name in allowed and f.self_ty and ("response::headers" in f.self_ty)
            if not ok and re.search(r"x_lambda|x_worker", f.key):
                ok = True
            ck.ob(R, "who:size<-" + f.key[-60:], ok, f.loc(st.get("sp")), "" if ok else "`size` of the response headers is assigned in %s, outside the audited mutators" % f.key, how="audited mutator")
    # TABLE: literals accounted == literals written, per entry kind
    w = prog.one(r"^ohkami::response::headers::Headers::write_unchecked_to$")
    w = prog.inlined(w, 2, r"copy_nonoverlapping$")     # a per-line helper may hold the pushes
    written = []
    rpo = w.rpo()
    for c in sorted(w.calls(), key=lambda c: rpo.get(c.bb, 10 ** 6)):
        if c.name == "copy_nonoverlapping":
            src = w.origin(c.args[0])
            sc = src[-1][1] if src and src[-1][0] == "call" else None
            a = w.const_args(sc)[0] if sc is not None else None
            written.append((a.get("s") if a else decision.describe_deep(w, sc.args[0] if sc else c.args[0], 3), c.bb))
    # adjacent literals are one literal on the wire (`"Set-Cookie"` + `": "` = `"Set-Cookie: "`)
    from .lib.bound import natural_loops
    wloops = natural_loops(w)
    inner = lambda bb: min([h for h, body in wloops.items() if bb in body], key=lambda h: len(wloops[h]), default=None)
    merged = []
    for x, xbb in written:
        is_lit = isinstance(x, str) and re.fullmatch(r"[A-Za-z-]*:? ?|\r\n|: ", x) is not None and x != ""
        if is_lit and merged and merged[-1][0] == "lit" and merged[-1][2] == inner(xbb):
            merged[-1] = ("lit", merged[-1][1] + x, inner(xbb))
        else:
            merged.append(("lit", x, inner(xbb)) if is_lit else ("var", x, inner(xbb)))
    lits_written = [m[1] for m in merged if m[0] == "lit"]
    ok = lits_written == [": ", "\r\n", ": ", "\r\n", "Set-Cookie: ", "\r\n", "\r\n"]
    if not ok and lits_written == [": ", "\r\n", "\r\n"]:
        # one loop over Headers::iter(), every entry written as `name: value CRLF`: the cookie lines get their name from iter()
        it = [g_ for g_ in prog.fns.values() if re.search(r"^ohkami::response::headers::Headers::iter(::\{closure#\d+\})*$", g_.key)]
        names_in_iter = {a_.get("s") for g_ in it for c_ in g_.calls() for a_ in g_.const_args(c_) if a_ and a_.get("s")} | \
            {m_ for g_ in it for m_ in re.findall(r"'s': '(Set-Cookie)'", str(g_.blocks))}
        ok = bool(w.calls_to(r"response::headers::Headers::iter$")) and "Set-Cookie" in names_in_iter
    ck.ob(R, "table:writer-literals", ok, w.loc(None), "" if ok else "write_unchecked_to emits literals %r, expected name ': ' value CRLF per header, 'Set-Cookie: ' value CRLF per cookie and the final CRLF" % lits_written,
          how="writer literals %r" % lits_written)
    expect = {
        "insert": [[": ", "\r\n"]], "insert_custom": [[": ", "\r\n"]], "remove": [[": ", "\r\n"]], "remove_custom": [[": ", "\r\n"]],
        "append": [[", "], [": ", "\r\n"]], "append_custom": [[", "], [": ", "\r\n"]], "SetCookie": [["Set-Cookie: ", "\r\n"]], "new": [["\r\n"]],
    }
    for f in fns:
        if f.name not in expect or (f.name == "SetCookie" and "SetHeaders" not in f.self_ty):
            continue
        f = prog.inlined(f, 2, r"^core::str::<impl str>::len$")     # a size helper may hold the literal lengths
        lens = []
        for c in f.calls():
            if c.name == "len" and c.args:
                a = f.const_args(c)[0]
                if a and "s" in a:
                    lens.append(a["s"])
        want = sorted(x for grp in expect[f.name] for x in grp)
        got = sorted(set(lens))
        ok = set(want) == set(got)
        ck.ob(R, "table:%s-literals" % f.name, ok, f.loc(None), "" if ok else "Headers::%s accounts for literals %r, the writer emits %r for this entry kind" % (f.name, got, want), how="accounts %r" % got)
    # pushes of append: ", " literal both pushed and accounted
    for nm in ("append", "append_custom"):
        f = prog.inlined(prog.method(HDR, nm), 2, lambda caller, callee: callee.key in helpers)
        pushed = [f.const_args(c)[1].get("s") for c in f.calls_to(r"String::push_str$") if f.const_args(c)[1]]
        ok = pushed and all(x == ", " for x in pushed)
        ck.ob(R, "table:%s-separator" % nm, bool(ok), f.loc(None), "" if ok else "Headers::%s joins values with %r but accounts for ', '" % (nm, pushed), how="push_str(', ')")


# ------------------------------------------------------------------------------------------------
def c03c(ck, prog):
    R = "C03-c INVARIANT IndexMap"
    IM = r"^ohkami::header::map::IndexMap<N, Value>$"
    new, clear, setf, delete = (prog.method(IM, n) for n in ("new", "clear", "set", "delete"))
    it, into = prog.method(IM, "iter"), prog.method(IM, "into_iter")
    # set: index[k] = values.len() (before the push), then push((k, value))
    lens = setf.calls_to(r"Vec::<T, A>::len$")
    push = setf.calls_to(r"Vec::<T, A>::push$")
    ok = len(lens) == 1 and len(push) == 1 and setf.dominates(lens[0].bb, push[0].bb)
    if ok:
        d = decision.describe_deep(setf, push[0].args[1], 3)
        ok = re.match(r"tuple\{arg2,arg3\}", d) is not None
    ck.ob(R, "set:position-then-push", ok, setf.loc(None), "" if ok else "IndexMap::set does not record values.len() before pushing (index, value)", how="index[k] = values.len(); values.push((k, v))")
    # delete: stores NULL; does it also remove the entry physically?
    removes = [c for g in [delete] + [prog.fns[c.callee] for c in delete.calls() if c.callee in prog.fns] for c in g.calls_to(r"Vec::<T, A>::(remove|swap_remove|retain|retain_mut)$")]
    physical = len(removes) > 0
    stores_null = "NULL" in str(delete.blocks)
    ck.ob(R, "delete:marks-slot", stores_null, delete.loc(None), "" if stores_null else "IndexMap::delete does not store NULL into the slot", how="index[k] = NULL")
    # readers of `values`: position-sensitive selection, unless delete keeps `values` free of dead entries
    for rd in (it, into):
        clos = prog.descendants(rd.key)
        txt = " ".join(decision.show(decision.bool_expr(c)) for c in clos)
        positional = bool(rd.calls_to(r"Iterator::enumerate$")) and "NULL" not in txt.replace("Ne(", "")
        ok = physical or positional
        ck.ob(R, "%s:selects-live-entries" % rd.name, ok, rd.loc(None),
              "" if ok else ("IndexMap::%s yields every element of `values` whose slot is not NULL (filter: %s), but delete() leaves the element in `values` and set() pushes a second one: "
                             "after set(k,a); delete(k); set(k,b) both are yielded -- a removed header value is sent again and write_unchecked_to writes more than `size` bytes" % (rd.name, txt)),
              how="delete() removes the entry from `values`" if physical else "filter compares the element's position")
    if physical:
        # after a physical removal the slots of *all* displaced elements (positions >= the removed one) must be re-indexed
        g = prog.flattened(removes[0].fn, r"Vec::<T, A>::remove$", combinators=True)    # `for_each(|..| ..)` read as the loop it is
        rm = [c for c in g.calls() if c.bb == removes[0].bb and c.name == removes[0].name][0] if g is not removes[0].fn else removes[0]
        sw = rm.name == "swap_remove"
        loops = any(t for t in (g.term(b) for b in g.live_blocks()) if t["k"] == "call" and re.search(r"Iterator>?::next$", t.get("callee") or ""))
        ok = loops or sw
        how = "slots of displaced elements are updated in a loop"
        if rm.name == "remove" and loops:
            dP = decision.describe_deep(g, rm.args[1], 4)
            starts = []
            for c in g.calls():
                if c.name in ("get_unchecked", "get_unchecked_mut", "index", "index_mut", "get", "get_mut", "skip", "split_at", "split_at_mut") and len(c.args) > 1 and "values" in decision.describe_deep(g, c.args[0], 4):
                    for st_, off in guards.leaves(g, g.origin(c.args[1])):
                        if st_ and st_[-1][0] != "const":
                            starts.append((decision.describe_deep(g, c.args[1], 4), guards.describe_origin(g, st_), off))
            pos_origin = guards.describe_origin(g, g.origin(rm.args[1]))
            exact = [x for x in starts if x[1] == pos_origin and x[2] == 0]
            ranged = [x for x in starts if "Range" in x[0]]
            if ranged:
                ok = bool([x for x in ranged if x[1] == pos_origin and x[2] == 0]) and not [x for x in ranged if x[1] == pos_origin and x[2] != 0]
                how = "the re-index loop ranges over values[%s..] where %s is the removed position" % (pos_origin, pos_origin)
                if not ok:
                    how = "the re-index loop starts at %r, the element was removed at `%s`" % ([(x[1], x[2]) for x in ranged], pos_origin)
        ck.ob(R, "delete:reindexes", ok, g.loc(None),
              "" if ok else "IndexMap::delete removes an element from `values` but does not re-index every element that moved (%s): a header that slid forward keeps a stale slot and later operations hit its neighbour" % how, how=how)
    # new / clear: all slots NULL, values empty
    ok = "NULL" in str(new.blocks) and any(st["r"][0] == "repeat" for b in new.blocks for st in b["st"] if st["k"] == "=")
    ck.ob(R, "new:all-null", ok, new.loc(None), "" if ok else "IndexMap::new does not initialise every slot to NULL", how="[NULL; N]")
    ok = "NULL" in str(clear.blocks) and bool(clear.calls_to(r"Vec::<T, A>::clear$"))
    ck.ob(R, "clear:all-null+empty", ok, clear.loc(None), "" if ok else "IndexMap::clear does not reset every slot to NULL and empty `values`", how="slots = NULL; values.clear()")
    # get / get_mut: NULL => None
    for nm in ("get", "get_mut"):
        g = prog.method(IM, nm)
        rows = decision.const_table(g, prog)
        ok = any(any(isinstance(c[1], int) for c in conds) and val and "None" in str(val.get("desc", "")) for conds, val in rows) and \
            any(any(c[1] == "otherwise" for c in conds) and val and "Some" in str(val.get("desc", "")) for conds, val in rows)
        if not ok:
            # the same decision as an early return: `if position == NULL { return None }`
            nullv = None
            try:
                nullv = guards.const_int(prog.const(r"IndexMap::<N, Value>::NULL$|IndexMap<N, Value>::NULL$"))
            except Exception:
                pass
            kinds = {"None": [], "Some": []}
            for bb, kind, pl in paths.ret_sites(g):
                if kind not in kinds:
                    continue
                eq = ne = False
                for fa in guards.facts_at(g, prog, bb):
                    if fa.kind == "cmp" and fa.op in ("Eq", "Ne"):
                        sides = [fa.lhs, fa.rhs]
                        cs = [guards.const_int(x[-1][1]) if x and x[-1][0] == "const" else None for x in sides]
                        named = ["NULL" in str(x[-1][1].get("def", "")) if x and x[-1][0] == "const" else False for x in sides]
                        if any(named) or (nullv is not None and nullv in cs):
                            eq = eq or fa.op == "Eq"
                            ne = ne or fa.op == "Ne"
                kinds[kind].append((eq, ne))
            ok = bool(kinds["None"]) and bool(kinds["Some"]) and all(e and not n_ for e, n_ in kinds["None"]) and all(n_ and not e for e, n_ in kinds["Some"])
        ck.ob(R, "%s:null-is-none" % nm, ok, g.loc(None), "" if ok else "IndexMap::%s does not map the NULL slot to None" % nm, how="NULL => None")


# ------------------------------------------------------------------------------------------------
def payload_stores(prog):
    """(fn, bb, variant, agg) for every Content::Payload / Content::Stream value built in the crate"""
    out = []
    for f in prog.fns.values():
        if f.crate != "ohkami":
            continue
        for bi in sorted(f.live_blocks()):
            b = f.blocks[bi]
            if b["cleanup"]:
                continue
            for st in b["st"]:
                if st["k"] != "=":
                    continue
                r = st["r"]
                if r[0] == "agg" and r[1].get("k") == "adt" and r[1].get("adt") == "ohkami::response::content::Content" and r[1]["variant"] in ("Payload", "Stream"):
                    out.append((f, bi, r[1]["variant"], st))
    return out


def c03d(ck, prog):
    R = "C03-d PAIR body-length"
    stores = payload_stores(prog)
    n = 0
    for f, bi, variant, st in stores:
        # skip pure conversions that do not build a Response (Content helpers)
        if f.self_ty and "response::content::Content" in f.self_ty:
            continue
        n += 1
        scope = [f] + ([prog.fns[f.root]] if f.root and f.root in prog.fns else [])
        cl = [c for g in scope for c in g.calls_to(r"SetHeaders::<'set>::ContentLength$")]
        ct = [c for g in scope for c in g.calls_to(r"SetHeaders::<'set>::ContentType$")]
        te = [c for g in scope for c in g.calls_to(r"SetHeaders::<'set>::TransferEncoding$")]
        viaset = [c for g in scope for c in g.calls_to(r"Response::(set_payload|with_payload|set_text|with_text|set_html|set_json)$")]
        key = "%s:%s" % (f.key[-70:], variant)
        if variant == "Payload":
            bytes_desc = decision.describe_deep(f, st["r"][2][0], 5)
            good = None
            for c in cl:
                d = decision.describe_deep(c.fn, c.args[1], 6)
                if re.search(r"itoa\(len\(", d):
                    good = d
            ok = good is not None and bool(ct)
            if ok:
                # ... on the store's own path (not under a condition the store is not under), and of the bytes that are stored
                mine = [c for c in cl if c.fn is f and re.search(r"itoa\(len\(", decision.describe_deep(f, c.args[1], 6))]
                if mine:
                    on_path = [c for c in mine if f.dominates(c.bb, bi) or f.postdominates(c.bb, bi)]
                    if not on_path:
                        ok, good = False, "a Content-Length that is set only on some of the paths that store the body"
            ck.ob(R, key, ok, f.loc(st.get("sp")),
                  "" if ok else "%s stores Content::Payload(%s) into a response without setting Content-Length from the length of those bytes%s: the header keeps its default \"0\" and the client cannot frame the body"
                  % (f.key, bytes_desc[:60], "" if ct else " (and no Content-Type)"), how="ContentLength(%s) + ContentType in the same function" % (good or "")[:60])
        else:
            lit = [(c.fn.const_args(c)[1] or {}).get("s") for c in te]
            none_len = any("None" in decision.describe_deep(c.fn, c.args[1], 3) for c in cl)
            ok = "chunked" in lit and none_len
            ck.ob(R, key, ok, f.loc(st.get("sp")), "" if ok else "%s stores Content::Stream without Transfer-Encoding: chunked and ContentLength(None) (found TE=%r)" % (f.key, lit), how="TransferEncoding(\"chunked\") + ContentLength(None)")
    ck.floor(R, "functions storing a body into a response", n, 6)


# ------------------------------------------------------------------------------------------------
def c03e(ck, prog):
    R = "C03-e DECISION complete"
    f = prog.method(r"^ohkami::response::Response$", "complete")
    # every ContentLength(None) / content = None site, with the facts under which it runs
    rows = []
    for c in f.calls_to(r"SetHeaders::<'set>::ContentLength$"):
        fa = guards.facts_at(f, prog, c.bb)
        conds = sorted(tuple(x.allowed)[0] for x in fa if x.kind == "variant" and x.allowed and len(x.allowed) == 1 and isinstance(tuple(x.allowed)[0], str))
        arg = decision.describe_deep(f, c.args[1], 3)
        rows.append((conds, arg))
    nc = [r for r in rows if "NoContent" in r[0] and "None" in r[1]]
    stream = [r for r in rows if "Stream" in r[0] and "None" in r[1]]
    drops = []
    for bi, st, agg in decision.field_stores(f, "content"):
        if agg is not None and agg[1].get("variant") == "None":
            fa = guards.facts_at(f, prog, bi)
            drops.append(sorted(str(tuple(x.allowed)[0]) for x in fa if x.kind == "variant" and x.allowed and len(x.allowed) == 1))
    ok_len, ok_stream, ok_body = bool(nc), bool(stream), any("NoContent" in d for d in drops)
    if not (ok_len and ok_stream and ok_body):
        # the same decisions written with flags (`let is_no_content = matches!(..)`) and predicate helpers of Content: from
        # every branch edge that establishes `status is NoContent` (resp. `content is a stream`), no path reaches the exit
        # without the removal, except over an edge that finds nothing to remove
        from .lib import pathsens
        g = prog.inlined(f, 1, lambda caller, callee: callee.crate == caller.crate and (callee.self_ty or "").endswith("response::content::Content"))
        exits = list(g.exits())
        cl_none = {c.bb for c in g.calls_to(r"SetHeaders::<'set>::ContentLength$") if "None" in decision.describe_deep(g, c.args[1], 3)}
        body_none = {bi for bi, st, agg in decision.field_stores(g, "content") if agg is not None and agg[1].get("variant") == "None"}

        def edges_with(pred):
            out = []
            for sb in sorted(g.live_blocks()):
                if g.blocks[sb]["t"]["k"] != "switch" or g.is_cleanup(sb):
                    continue
                for tb, lab in g.succ(sb):
                    try:
                        facts = guards.derive(g, prog, guards.edge_facts(g, prog, sb, {lab}))
                    except Exception:
                        facts = []
                    if any(pred(fa) for fa in facts):
                        out.append(tb)
            return out
        is_204 = lambda fa: fa.kind == "variant" and fa.allowed == {"NoContent"}
        is_stream = lambda fa: fa.kind == "variant" and fa.allowed == {"Stream"} and "content" in (decision.describe_deep(g, fa.place, 3) if getattr(fa, "place", None) else guards.describe_origin(g, fa.steps))
        no_header = lambda facts: any((fa.kind == "boolcall" and ((fa.truth and fa.call.name == "is_none") or (not fa.truth and fa.call.name == "is_some")) and "ContentLength(" in decision.describe_deep(g, fa.call.args[0], 3))
                                      or (fa.kind == "variant" and fa.allowed == {"None"} and "ContentLength" in guards.describe_origin(g, fa.steps)) for fa in facts)
        no_body = lambda facts: any(fa.kind == "variant" and fa.allowed == {"None"} and "content" in (decision.describe_deep(g, fa.place, 3) if getattr(fa, "place", None) else guards.describe_origin(g, fa.steps)) for fa in facts)

        def always(starts, through, unless):
            # (a later re-test of the same condition, after the removal logic, is not a decision point for the removal)
            starts = [tb for tb in starts if any(x in g.reachable_from(tb) for x in through)]
            return bool(starts) and bool(through) and all(pathsens.path_avoiding_edges(g, prog, tb, ex, unless, constprop=True, avoid=tuple(through)) is None for tb in starts for ex in exits)
        e204, estream = edges_with(is_204), edges_with(is_stream)
        ok_len = ok_len or always(e204, cl_none, no_header)
        ok_stream = ok_stream or always(estream, cl_none, no_header)
        ok_body = ok_body or always(e204, body_none, no_body)
    # ... on every path: the sites above exist, but an arm matched earlier (`(Content::Payload(_), _) => ..` in front of
    # `(_, Status::NoContent)`) can answer for a 204 before the status is looked at. From the entry, no path reaches the exit
    # without the removal unless it takes an edge establishing `status is not NoContent` (resp. `content is not a stream`)
    # or an edge that finds nothing to remove.
    from .lib import pathsens as _ps
    gu = prog.inlined(f, 2, lambda caller, callee: callee.crate == caller.crate and re.search(r"response::(content::Content|Response)$", callee.self_ty or "") is not None and callee.key != f.key and len(callee.blocks) < 60)
    u_exits = list(gu.exits())
    u_cl = tuple(sorted({c.bb for c in gu.calls_to(r"SetHeaders::<'set>::ContentLength$") if "None" in decision.describe_deep(gu, c.args[1], 3)}))
    u_body = tuple(sorted({bi for bi, st, agg in decision.field_stores(gu, "content") if agg is not None and agg[1].get("variant") == "None"}))

    def _where(fa):
        return decision.describe_deep(gu, fa.place, 4) if getattr(fa, "place", None) else guards.describe_origin(gu, fa.steps)
    u_not204 = lambda facts: any(fa.kind == "variant" and fa.allowed is not None and "NoContent" not in fa.allowed and "status" in _where(fa) for fa in facts)
    u_notstream = lambda facts: any(fa.kind == "variant" and fa.allowed is not None and "Stream" not in fa.allowed and "content" in _where(fa) for fa in facts)
    u_nohdr = lambda facts: any((fa.kind == "boolcall" and ((fa.truth and fa.call.name == "is_none") or (not fa.truth and fa.call.name == "is_some")) and "ContentLength(" in decision.describe_deep(gu, fa.call.args[0], 3))
                                or (fa.kind == "variant" and fa.allowed == {"None"} and "ContentLength" in guards.describe_origin(gu, fa.steps)) for fa in facts)
    u_nobody = lambda facts: any(fa.kind == "variant" and fa.allowed == {"None"} and "content" in _where(fa) for fa in facts)

    def _escape(through, *unless):
        if not through:
            return [0]
        for ex in u_exits:
            pth = _ps.path_avoiding_edges(gu, prog, 0, ex, lambda facts: any(u(facts) for u in unless), constprop=True, avoid=through)
            if pth is not None:
                return pth
        return None
    has_stream = any(v.get("name") == "Stream" for k, a in prog.adts.items() if k.endswith("response::content::Content") for v in a.get("variants", []))
    e1, e2, e3 = _escape(u_cl, u_not204, u_nohdr), _escape(u_body, u_not204, u_nobody), (_escape(u_cl, u_notstream, u_nohdr) if has_stream else None)
    # (the path form subsumes the site form above, which cannot see removals moved into helpers of Response)
    ok_len, ok_body, ok_stream = e1 is None, e2 is None, (e3 is None if has_stream else ok_stream)
    ck.ob(R, "204:drops-length", ok_len, f.loc(None), "" if ok_len else "complete() does not remove Content-Length for status 204" + (" on every path: blocks %s reach the exit with a status that may be 204 and the header kept (an arm matched before the status is looked at?)" % e1[:12] if e1 else ""), how="NoContent => ContentLength(None)")
    ck.ob(R, "stream:drops-length", ok_stream, f.loc(None), "" if ok_stream else "complete() does not remove Content-Length for a streaming body", how="Stream => ContentLength(None)")
    ck.ob(R, "204:drops-body", ok_body, f.loc(None), "" if ok_body else "complete() does not drop the body for status 204" + (" on every path: blocks %s reach the exit with a status that may be 204 and the content kept" % e2[:12] if e2 else ""), how="NoContent => content = None")
    # Router::handle calls complete on every path to its return
    h = prog.coroutine_body(prog.one(r"^ohkami::router::r#final::Router::handle$|^ohkami::router::final::Router::handle$|router::.*final.*::Router::handle$").key)
    cs = h.calls_to(r"^ohkami::response::Response::complete$")
    rets = h.exits()
    ok = bool(cs) and all(any(h.dominates(c.bb, r) for c in cs) for r in rets)
    ck.ob(R, "handle:calls-complete", ok, h.loc(None), "" if ok else "Router::handle can return a response on a path that does not pass Response::complete()", how="complete() dominates every return of Router::handle")
    # HEAD: body dropped without touching headers
    heads = []
    for bi, st, agg in decision.field_stores(h, "content"):
        if agg is not None and agg[1].get("variant") == "None":
            fa = guards.facts_at(h, prog, bi)
            heads.append(sorted(str(tuple(x.allowed)[0]) for x in fa if x.kind == "variant" and x.allowed and len(x.allowed) == 1))
    ok = any("HEAD" in d for d in heads)
    if not ok:
        # under a flag `matches!(req.method, Method::HEAD)`: every path to the store takes the HEAD edge of a match on the method
        from .C01 import head_guarded
        ok = any(head_guarded(h, prog, bi) for bi, st, agg in decision.field_stores(h, "content") if agg is not None and agg[1].get("variant") == "None")
    ck.ob(R, "HEAD:drops-body", ok, h.loc(None), "" if ok else "Router::handle does not drop the body of a HEAD response", how="HEAD => res.content = None")


# ------------------------------------------------------------------------------------------------
def c03f(ck, prog):
    R = "C03-f TABLE"
    # response header names
    f = prog.one(r"^ohkami::response::headers::Header::as_bytes$")
    names = decision.variant_const_map(f, prog)
    adt = prog.adt(r"^ohkami::response::headers::Header$")
    variants = [v["name"] for v in adt["variants"]]
    ck.floor(R, "response header variants", len(variants), 47)
    req = {}
    try:
        g = prog.one(r"^ohkami::request::headers::Header::as_str$")
        for c in g.calls_to(r"from_utf8_unchecked$"):
            fa = [x for x in guards.facts_at(g, prog, c.bb) if x.kind == "variant" and x.allowed and len(x.allowed) == 1]
            ca = g.const_args(c)[0]
            if fa and ca:
                req[tuple(fa[-1].allowed)[0]] = ca.get("s")
    except AnchorLost:
        pass
    for v in variants:
        nm = names.get(v)
        ok = isinstance(nm, str) and nm.replace("-", "").lower() == v.lower() and re.fullmatch(r"[A-Za-z][A-Za-z0-9-]*", nm) is not None
        if ok and v in req:
            ok = req[v] == nm
        ck.ob(R, "header-name:%s" % v, ok, f.loc(None),
              "" if ok else "response header %s is sent as %r: must spell the identifier (up to hyphens)%s" % (v, nm, " and equal the request-side name %r" % req[v] if v in req else ""), how="%s = %r" % (v, nm))
    # status lines
    sm = prog.one(r"^ohkami::response::status::Status::(as_str|message|as_bytes)$")
    st = decision.variant_const_map(sm, prog)
    sadt = prog.adt(r"^ohkami::response::status::Status$")
    ck.floor(R, "status variants", len(sadt["variants"]), 55)
    for v in [x["name"] for x in sadt["variants"]]:
        msg = st.get(v)
        m = re.fullmatch(r"([1-5]\d\d) ([A-Za-z'\- ]+)", msg or "")
        ok = m is not None
        ck.ob(R, "status:%s" % v, ok, sm.loc(None), "" if ok else "status %s renders as %r, expected `<3 digits> <reason phrase>`" % (v, msg), how="%s = %r" % (v, msg))
    ln = prog.one(r"^ohkami::response::status::Status::line$")
    lt = decision.variant_const_map(ln, prog)
    for v in [x["name"] for x in sadt["variants"]]:
        ok = lt.get(v) == "HTTP/1.1 %s\r\n" % st.get(v)
        ck.ob(R, "status-line:%s" % v, ok, ln.loc(None), "" if ok else "status line of %s is %r, expected 'HTTP/1.1 ' + message + CRLF" % (v, lt.get(v)), how=repr(lt.get(v)))


def c03h(ck, prog):
    """`every live header exactly once with its latest value and no removed or stale value`: insert, append and remove of a
    header given by *name* must agree on the store the name lives in. Either all three custom-name operations redirect names
    of standard headers to the standard store (Header::from_bytes) or none does; if only some do, a header set through one
    store is appended to / removed from the other, and the wire carries a duplicate or a removed header."""
    R = "C03-h SIBLING custom-name routing"
    fam = {}
    for nm in ("insert_custom", "append_custom", "remove_custom"):
        f = prog.method(HDR, nm)
        redirect = bool([c for g in [f] + prog.descendants(f.key) for c in g.calls() if re.search(r"response::headers::Header::from_bytes$", c.callee or "")])
        fam[nm] = redirect
    vals = set(fam.values())
    ok = len(vals) == 1
    ck.ob(R, "insert/append/remove agree", ok, prog.method(HDR, "insert_custom").loc(None),
          "" if ok else "the custom-name header operations disagree on redirecting standard names to the standard store (%s): `.x(\"Vary\", \"Origin\")` then `.x(\"Vary\", append(..))` sends two Vary lines, "
          "`.x(\"Cache-Control\", ..)` then `.x(\"Cache-Control\", None)` leaves the removed header on the wire" % ", ".join("%s: %s" % (k, "redirects" if v else "custom store") for k, v in sorted(fam.items())),
          how="all three use %s" % ("the standard store for standard names" if True in vals else "the custom store only"))


def c03i(ck, prog):
    """`a streamed body is sent in well-formed chunked coding`: each chunk's size line is the length of the bytes that follow
    it, CRLF after the size and after the data, the zero chunk at the end. These are the framing clauses of the stream arm
    of Response::send (C17-a), re-evaluated here: a chunk size computed from anything but the finished message is a
    malformed response whatever the message means."""
    R = "C03-i MUSTPASS chunked framing"
    from . import C17
    if not prog.find(r"^ohkami::response::content::Content::Stream$") and not any(v.get("name") == "Stream" for k, a in prog.adts.items() if k.endswith("response::content::Content") for v in a.get("variants", [])):
        return
    sub = type(ck)(ck.prop, ck.tier)
    sub.config = ck.config
    sub.guard("C17-a MUSTPASS framing", lambda: C17.c17a(sub, prog))
    n = 0
    for o in sub.obs:
        if o["key"].startswith("floor:"):
            continue
        if o["key"] in ("size-of-message", "size-after-last-write", "chunk-framing", "leading-zeros", "terminal-chunk", "chunk-sent-per-item", "anchor-lost"):
            n += 1
            ck.ob(R, "C17-a:" + o["key"], o["ok"], o["where"], o["detail"], how=o["how"], nontrivial=o.get("nontrivial", True))
    ck.floor(R, "framing clauses", n, 4)
