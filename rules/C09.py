"""C09 URL-encoded serialization round-trips and decodes per percent-encoding rules.
Decides: (a) every text emission of the serializer passes percent_encode (TAINT); (b) writer and reader agree on the separator
characters and on the empty-section convention; serde-method support matrix. Decoder panic/unsafe clauses: C08."""
import re

from .lib import reach, decision, guards, paths
from .lib.mir import AnchorLost

CONFIGS_QUICK = ["A", "R"]
CONFIGS_THOROUGH = ["A", "R"]
TECHNIQUE = "intra-procedural taint (provenance of every value pushed to the output) over all serializer methods; separator literal tables of writer vs reader; support matrix of serialize_*/deserialize_*"
LEVEL_TEXT = ('Decides clauses C09-a..f: in every method of the URL-encoded Serializer and of its compound serializers, whatever is appended to the output is a separ'
              'ator literal (& = ,), the literals true/false, the to_string of a numeric primitive, or the result of percent_encode -- a &str or char parameter never'
              ' reaches the output raw; the separators the writer emits are exactly the bytes the reader dispatches on; None/unit are written as the empty section an'
              'd read back by testing for it; for every serde data-model kind the serializer supports, the matching deserialize_* is not an unconditional error; dese'
              'rialize_char accepts exactly the decoded texts of one Unicode scalar value (decided by the char iterator, not by a byte length); the sequence reader s'
              'teps over the `,` the writer puts between elements, raises no `separator missing` error on the path that found the separator, steps over a `,` only as'
              " the lead-in of the element that follows it (before that element's extent is computed, so a trailing empty element is not lost), and decodes each elem"
              'ent with the decoder of scalar values; from deserialize_ignored_any no decoding or validating function is reachable (the value of an unknown key is sk'
              'ipped raw, so it cannot influence the outcome); the `,` between sequence elements is decided by position, not by a test of the text written so far. Th'
              'e query iterator searches for `=` / `&` in the raw pair and decodes the pieces afterwards (no separator search in percent-decoded text). C09-h: in the'
              ' sequence reader the end-of-sequence answer is not reachable from the point where a separator was consumed (a trailing separator is an empty last elem'
              "ent). C09-i: the query iterator's pair extent (C02-g) re-evaluated. Decides these clauses, not round-trip equality for all values (e.g. the comma-sepa"
              'rated sequence reader).')

SER = r"ohkami_lib::serde_urlencoded::ser::URLEncodedSerializer"
NUMERIC = {"u8", "u16", "u32", "u64", "u128", "usize", "i8", "i16", "i32", "i64", "i128", "isize", "f32", "f64"}
SEPARATORS = {"&", "=", ","}


def run(ck, progs):
    ck.explanation = LEVEL_TEXT
    ck.assumptions = ["A3: percent_encoding's utf8_percent_encode with the repo's ASCII set escapes every reserved character"]
    for cfg, prog in progs.items():
        ck.config = cfg
        ck.guard("C09-a TAINT serializer", lambda: c09a(ck, prog))
        ck.guard("C09-b TABLE grammar", lambda: c09b(ck, prog))
        ck.guard("C09-c DECISION char", lambda: c09c(ck, prog))
        ck.guard("C09-d PAIR sequence reader", lambda: c09d(ck, prog))
        ck.guard("C09-e REACH unknown pairs", lambda: c09e(ck, prog))
        ck.guard("C09-f DECISION element separator", lambda: c09f(ck, prog))
        ck.guard("C09-g ORDER split before decoding", lambda: c09g(ck, prog))
        ck.guard("C09-h ORDER separator then element", lambda: c09h(ck, prog))
        ck.guard("C09-i PAIR query pair extent", lambda: c09i(ck, prog))
    ck.config = None


def ser_methods(prog):
    return [f for f in prog.fns.values() if f.crate == "ohkami_lib" and f.trait and f.trait.startswith("serde_core::ser::") and f.self_ty and SER in f.self_ty]


def ser_helpers(prog):
    """the serializer's own (inherent) functions: shared pieces of the serde methods"""
    return [f for f in prog.fns.values() if f.crate == "ohkami_lib" and not f.trait and f.self_ty and SER in f.self_ty and f.kind == "AssocFn"]


def c09a(ck, prog):
    R = "C09-a TAINT serializer"
    fs = ser_methods(prog)
    ck.floor(R, "serializer methods", len(fs), 40)
    fs = fs + ser_helpers(prog)
    n = 0
    text_params = 0
    for f in fs:
        for i in range(1, f.argc + 1):
            if f.locals[i].replace("&'static ", "&").strip() in ("&str", "char"):
                text_params += 1
        for c in f.calls_to(r"^alloc::string::String::(push|push_str|insert|insert_str|extend)$|<alloc::string::String as core::ops::(arith::)?AddAssign"):
            recv = decision.describe_deep(f, c.args[0], 4)
            if "output" not in recv:
                continue
            n += 1
            st = paths.root_steps(f, c.args[1], through=r"(::deref|::as_ref|::as_str|::borrow|Deref>::deref)$")
            last = st[-1] if st else None
            verdict, how = False, "?"
            if last is None:
                how = "unknown value"
            elif last[0] == "const":
                v = last[1].get("ch", last[1].get("s"))
                verdict = v in SEPARATORS or v in ("true", "false")
                how = "literal %r" % v
            elif last[0] == "multi":
                # `if v {"true"} else {"false"}`: every definition a literal of the allowed vocabulary
                vals = []
                for d in f.defs().get(last[1], []):
                    r = d[3]["r"] if d[2] == "assign" else None
                    o = None
                    if r is not None and r[0] == "use":
                        o = f.origin(r[1])
                    elif r is not None and r[0] in ("ref", "rawptr"):
                        o = f.origin(r[2])
                    elif r is not None and r[0] == "cfd":
                        o = f.origin(r[1])
                    vals.append(o[-1][1].get("s") if o and o[-1][0] == "const" else None)
                verdict = bool(vals) and all(v in ("true", "false") for v in vals)
                how = "one of the literals %r" % vals
            elif last[0] == "call":
                cc = last[1]
                if re.search(r"percent_encoding::percent_encode$|ohkami_lib::percent_encode$", cc.callee or ""):
                    verdict, how = True, "percent_encode(%s)" % decision.describe_deep(f, cc.args[0], 2)
                elif cc.name == "to_string" and cc.args:
                    aty = f.place_ty(cc.args[0][1]) if cc.args[0][0] in ("c", "m") else ""
                    src = f.origin(cc.args[0])
                    base_ty = f.locals[src[-1][1]] if src and src[-1][0] == "arg" else aty
                    t = base_ty.replace("&", "").strip()
                    verdict = t in NUMERIC
                    how = "to_string of a %s" % t
                else:
                    how = "result of %s" % cc.callee
            elif last[0] == "arg":
                how = "the %s parameter itself, unencoded" % f.locals[last[1]]
            tn = (f.trait or "URLEncodedSerializer").rsplit("::", 1)[-1]
            ck.ob(R, "%s:%s#%d" % (tn + "::" + f.name, c.name, c.bb), verdict, f.loc(c.sp),
                  "" if verdict else "%s::%s appends %s to the output: reserved characters (& = , %% +) in it change the structure of the encoded form and it does not decode back" % (tn, f.name, how),
                  how="appends " + how)
    # (sites, not behaviours: shared helpers make them fewer)
    ck.floor(R, "output emissions", n, 10)
    ck.stat("text_parameters", text_params)


def unconditional_error(prog, f):
    sites = paths.ret_sites(f)
    if not sites:
        return False
    for bb, kind, payload in sites:
        if kind != "Err":
            return False
    return True


KINDS = ["bool", "i8", "i16", "i32", "i64", "u8", "u16", "u32", "u64", "f32", "f64", "char", "str", "none", "some", "unit", "unit_variant", "newtype_struct", "seq", "map", "struct"]
DE_OF = {"none": "option", "some": "option", "unit_variant": "enum", "str": "str"}


def c09b(ck, prog):
    R = "C09-b TABLE grammar"
    fs = ser_methods(prog) + ser_helpers(prog)
    pushed = set()
    for f in fs:
        for c in f.calls_to(r"^alloc::string::String::push$"):
            a = f.const_args(c)[1]
            if a and "ch" in a:
                pushed.add(a["ch"])
    ok = pushed == SEPARATORS
    ck.ob(R, "writer:separators", ok, "", "" if ok else "the serializer emits separator characters %r, expected & = ," % sorted(pushed), how=str(sorted(pushed)))
    # reader side: byte constants the deserializer dispatches on
    de = [f for f in prog.fns.values() if f.crate == "ohkami_lib" and "serde_urlencoded::de" in f.key]
    consts = set()
    for f in de:
        for bi in f.live_blocks():
            t = f.term(bi)
            if t["k"] == "switch" and t["dty"] == "u8":
                consts |= {int(v) for v, _ in t["targets"]}
            for st in f.blocks[bi]["st"]:
                if st["k"] == "=" and st["r"][0] == "bin" and st["r"][1] in ("Eq", "Ne"):
                    for o in (st["r"][2], st["r"][3]):
                        if o[0] == "k" and o[1].get("ty") == "u8":
                            consts.add(int(o[1]["v"]))
        for c in f.calls():
            for a in f.const_args(c):
                if a and a.get("ty") in ("&u8", "u8") and "v" in a:
                    consts.add(int(a["v"]))
    txt = " ".join(str(f.blocks) for f in de)
    for ch in "&=,":
        if "'v': '%d'" % ord(ch) in txt:
            consts.add(ord(ch))
    got = {chr(c) for c in consts if chr(c) in "&=,;+ "}
    ok = got >= SEPARATORS
    ck.ob(R, "reader:separators", ok, "", "" if ok else "the deserializer dispatches on %r, the serializer writes %r" % (sorted(got), sorted(SEPARATORS)), how="reader dispatches on %r" % sorted(got & SEPARATORS))
    # None / unit: written as nothing, read by testing for the empty section
    by = {f.name: f for f in fs if f.trait == "serde_core::ser::Serializer"}
    for nm in ("serialize_none", "serialize_unit"):
        f = by.get(nm)
        ok = f is not None and not f.calls_to(r"String::(push|push_str)$") and all(k == "Ok" for _, k, _ in paths.ret_sites(f))
        ck.ob(R, "writer:%s-empty" % nm, ok, f.loc(None) if f else "", "" if ok else "%s writes something" % nm, how="%s writes the empty section" % nm)
    dem = {f.name: f for f in prog.fns.values() if f.crate == "ohkami_lib" and f.trait == "serde_core::de::Deserializer" and f.self_ty and "serde_urlencoded::de::URLEncodedDeserializer" in f.self_ty}
    for nm, visit in (("deserialize_option", "visit_none"), ("deserialize_unit", "visit_unit")):
        f = dem.get(nm)
        ok = False
        if f is not None:
            f = prog.inlined(f, 1, r"core::slice::<impl \[T\]>::first$|Iterator>?::position$")     # the test may be a helper method
            for c in f.calls():
                if c.name == visit:
                    for fa in guards.facts_at(f, prog, c.bb):
                        if fa.kind == "cmp" and fa.op == "Eq":
                            sides = [guards.describe_origin(f, fa.lhs), guards.describe_origin(f, fa.rhs)]
                            if "const 0" in sides and any("unwrap_or" in s or "position" in s or "len" in s for s in sides):
                                ok = True
                        # the same test as `input.first().map_or(true, |b| *b == b'&')`: nothing left, or at the `&`
                        if fa.kind == "boolcall" and fa.truth and fa.call.name in ("map_or", "is_none_or") and "first(" in decision.describe_deep(f, fa.call.args[0], 3) and ".input" in decision.describe_deep(f, fa.call.args[0], 4):
                            dflt = f.const_args(fa.call)[1] if fa.call.name == "map_or" and len(f.const_args(fa.call)) > 1 else {"v": "1"}
                            clos = f.origin(fa.call.args[-1])
                            cf = prog.fns.get(clos[-1][1][1].get("def")) if clos and clos[-1][0] == "agg" and clos[-1][1][1].get("k") == "closure" else None
                            amp = cf is not None and re.search(r"const 38|'&'", decision.show(decision.bool_expr(cf))) is not None and re.match(r"(eq|Eq)\(", decision.show(decision.bool_expr(cf))) is not None
                            if dflt is not None and str(dflt.get("v")) == "1" and amp:
                                ok = True
            if not ok:
                # the same test as `matches!(input.first(), None | Some(b'&'))` (possibly in a predicate helper): every path to
                # the visit takes the None edge of first() or an edge on which the first byte is `&`, and no path to any
                # other exit does
                from .lib import pathsens
                vis = [c for c in f.calls() if c.name == visit]
                firsts = [c for c in f.calls() if c.name == "first" and ".input" in decision.describe_deep(f, c.args[0], 4)]

                def empty_edge(facts):
                    for fa in facts:
                        if fa.kind == "variant" and fa.allowed == {"None"} and fa.steps and fa.steps[-1][0] == "call" and fa.steps[-1][1].name == "first":
                            return True
                        if fa.kind == "int" and fa.values is not None and set(fa.values) == {38} and "first" in guards.describe_origin(f, fa.steps):
                            return True
                        if fa.kind == "cmp" and fa.op == "Eq" and "first" in guards.describe_origin(f, fa.lhs) and fa.rhs and fa.rhs[-1][0] == "const" and guards.const_int(fa.rhs[-1][1]) == 38:
                            return True
                    return False

                def nonempty_edge(facts):
                    for fa in facts:
                        if fa.kind == "int" and fa.values is None and fa.excluded and 38 in fa.excluded and "first" in guards.describe_origin(f, fa.steps):
                            return True
                        if fa.kind == "cmp" and fa.op == "Ne" and "first" in guards.describe_origin(f, fa.lhs) and fa.rhs and fa.rhs[-1][0] == "const" and guards.const_int(fa.rhs[-1][1]) == 38:
                            return True
                    return False
                if len(vis) == 1 and len(firsts) == 1:
                    to_visit = pathsens.path_avoiding_edges(f, prog, 0, vis[0].bb, empty_edge, constprop=True)
                    others = [c for c in f.calls() if c.bb != vis[0].bb and (c.name.startswith("visit_") or c.name in ("custom", "next_section"))]
                    leaks = [c for c in others if pathsens.path_avoiding_edges(f, prog, 0, c.bb, nonempty_edge, constprop=True) is not None]
                    ok = to_visit is None and bool(others) and not leaks
        ck.ob(R, "reader:%s-empty" % nm, ok, f.loc(None) if f else "", "" if ok else "%s does not produce %s exactly for the empty section" % (nm, visit), how="%s => %s when the section is empty" % (nm, visit))
    # support matrix
    n = 0
    for k in KINDS:
        s = by.get("serialize_" + k)
        d = dem.get("deserialize_" + DE_OF.get(k, k))
        if s is None or d is None:
            ck.ob(R, "matrix:%s" % k, False, "", "serialize_%s / deserialize_%s not found" % (k, DE_OF.get(k, k)))
            continue
        n += 1
        s_sup = not unconditional_error(prog, s)
        d_sup = not unconditional_error(prog, d)
        ok = (not s_sup) or d_sup
        ck.ob(R, "matrix:%s" % k, ok, d.loc(None), "" if ok else "the serializer accepts %s values but deserialize_%s is an unconditional error" % (k, DE_OF.get(k, k)), how="serialize_%s %s / deserialize_%s %s" % (k, "supported" if s_sup else "refused", DE_OF.get(k, k), "supported" if d_sup else "refused"))
    ck.floor(R, "data-model kinds compared", n, 20)


def c09c(ck, prog):
    """A char is one Unicode scalar value, not one byte: visit_char may only run when the decoded text has exactly one
    `char` -- established on the char iterator (first next() is Some, second is None, or chars().count() == 1), never on
    the byte length."""
    R = "C09-c DECISION char"
    n = 0
    for f in prog.fns.values():
        if not (f.name == "deserialize_char" and f.crate == "ohkami_lib" and f.trait == "serde_core::de::Deserializer"):
            continue
        vc = [c for g in [f] + prog.descendants(f.key) for c in g.calls() if c.name == "visit_char"]
        if not vc:
            continue  # forwarded to deserialize_any etc.
        n += 1
        who = re.sub(r".*::(\w+)<.*", r"\1", f.self_ty or "")
        for c in vc:
            g = c.fn
            facts = guards.facts_at(g, prog, c.bb)
            nexts = {}
            for fa in facts:
                if fa.kind == "variant" and fa.steps and fa.steps[-1][0] == "call" and re.search(r"str::iter::Chars<.*Iterator>::next$", fa.steps[-1][1].callee or "") and fa.allowed and len(fa.allowed) == 1:
                    if not any(pr[0] == "dc" for st in fa.steps for pr in (st[2] if len(st) > 2 else [])):
                        nexts[fa.steps[-1][1].bb] = tuple(fa.allowed)[0]
            by_iter = sorted(nexts.values())
            count1 = any(fa.kind == "cmp" and fa.op == "Eq" and {guards.describe_origin(g, fa.lhs), guards.describe_origin(g, fa.rhs)} == {"call:count", "const 1"} for fa in facts)
            bytelen = [fa for fa in facts if fa.kind == "cmp" and any(guards.is_len_origin(g, x) for x in (fa.lhs, fa.rhs))]
            ok = (by_iter == ["None", "Some"] or count1) and not bytelen
            ck.ob(R, "%s:visit_char" % who, ok, g.loc(c.sp),
                  "" if ok else "%s::deserialize_char accepts a value when %s%s: a char is one Unicode scalar (1-4 bytes), so `é`, `狼` or an emoji is not handled like `a`" % (
                      who, "chars().next() facts are %r" % by_iter, ", and it tests the byte length" if bytelen else ""),
                  how="visit_char only when chars().next() is Some and the following next() is None")
    ck.floor(R, "deserialize_char implementations", n, 3)


def c09d(ck, prog):
    """The writer puts `,` between the elements of a sequence and writes each element like a scalar value. The reader
    (CommaSeparated) therefore (1) must not report the separator missing on the path where it has just found it, and
    (2) must decode an element with the decoder of scalar values (percent-decoding, numbers, bools), not with a raw
    byte-slice deserializer."""
    R = "C09-d PAIR sequence reader"
    f = prog.one(r"SeqAccess<'de> for ohkami_lib::serde_urlencoded::de::CommaSeparated<'de>>::next_element_seed$")
    n = 0
    for bb, kind, pl in paths.ret_sites(f):
        if kind != "Err":
            continue
        n += 1
        found = None
        for fa in guards.facts_at(f, prog, bb):
            if fa.kind == "boolcall" and fa.truth and fa.call.name in ("eq", "starts_with", "is_some_and") and any("const 44" in decision.describe_deep(f, a, 3) or "','" in decision.describe_deep(f, a, 3) for a in fa.call.args):
                found = fa
            if fa.kind == "cmp" and fa.op == "Eq" and fa.rhs and fa.rhs[-1][0] == "const" and guards.const_int(fa.rhs[-1][1]) == 44 and "section" in guards.describe_origin(f, fa.lhs):
                found = fa
        ok = found is None
        ck.ob(R, "reader:separator-error-not-under-separator-found#%d" % (n - 1), ok, f.loc(f.blocks[bb]["t"].get("sp")),
              "" if ok else "CommaSeparated::next_element_seed answers Err(%s) on the path where the next byte *is* `,`: every sequence of two or more elements the writer produces (`a=x,y`) is refused"
              % decision.describe_deep(f, pl[2][0], 2)[:40], how="no error is raised under the edge that found the separator")
    des = [c for c in f.calls() if c.name == "deserialize" and re.search(r"DeserializeSeed::deserialize$", c.decl or c.callee or "")]
    if len(des) != 1:
        raise AnchorLost("expected one seed.deserialize(..) in CommaSeparated::next_element_seed, found %d" % len(des))
    dty = (des[0].targs or ["", ""])[-1]
    ok = "URLEncodedDeserializer" in dty
    ck.ob(R, "reader:element-decoder", ok, f.loc(des[0].sp),
          "" if ok else "a sequence element is decoded by `%s`, not by the URL-encoded value decoder: elements are not percent-decoded and numbers / bools / chars cannot be read at all (`a=1,2,3` into Vec<u32> fails), "
          "although the writer emits each element exactly like a scalar value" % dty[:70], how="seed.deserialize(&mut URLEncodedDeserializer over the element)")
    # the separator is consumed: after the first element the section kept for the next call is advanced past the `,`
    stores = decision.field_stores(f, "section")
    adv = [bi for bi, st, agg in stores if re.search(r"split_first|get_unchecked\(.*RangeFrom\{const 1\}|index\(.*RangeFrom\{const 1\}|split_at\(.*const 1|strip_prefix", decision.describe_deep(f, st["r"][1] if st["r"][0] == "use" else st["p"], 4))]
    ok = bool(adv)
    ck.ob(R, "reader:separator-consumed", ok, f.loc(None),
          "" if ok else "no assignment to `section` steps over the `,` that ended the previous element (%d assignment(s) to `section`): the second element would start with the separator" % len(stores),
          how="section = rest (after split_first / [1..] / strip_prefix) on the non-first path")
    # ... and it is stepped over *before* the extent of the element to produce is determined, i.e. as the lead-in of the
    # element that follows it: a reader that swallows the `,` together with the element before it cannot tell `a,` (two
    # elements, the second empty) from `a` when it is called again
    extent = [c for c in f.calls() if c.name in ("position", "split_at", "split_at_checked", "split_once", "splitn", "find", "memchr", "split") and f.dominates(c.bb, des[0].bb)]
    if adv and extent:
        first_extent = min(extent, key=lambda c: len(f.dom_chain(c.bb)))
        late = [bi for bi in adv if not f.dominates(bi, first_extent.bb) and bi in f.reachable_from(first_extent.bb)]
        ok = not late
        ck.ob(R, "reader:separator-leads-the-next-element", ok, f.loc(f.blocks[late[0]]["t"].get("sp")) if late else f.loc(first_extent.sp),
              "" if ok else "the `,` is stepped over after the extent of the current element has been taken (it is consumed together with the element it follows): when the input ends in `,` the reader "
              "finds nothing left on the next call and reports the end of the sequence -- a trailing empty element (`tags=a,`) is lost", how="every step over a `,` precedes the computation of the element's extent")
    else:
        ck.ob(R, "reader:separator-leads-the-next-element", False, f.loc(None), "cannot find where the element's extent is computed (position / split_at before seed.deserialize)")


def c09e(ck, prog):
    """`independent of ... unknown extra fields`: the value of a key the target does not know is skipped as a raw section.
    From deserialize_ignored_any no decoding or validating function is reachable (percent-decoding, UTF-8 validation,
    number parsing, another deserialize_* method): what cannot fail cannot make the outcome depend on the unknown value."""
    R = "C09-e REACH unknown pairs"
    roots = prog.find(r"URLEncodedDeserializer<'de> as serde_core::de::Deserializer<'de>>::deserialize_ignored_any$")
    if len(roots) != 1:
        raise AnchorLost("deserialize_ignored_any of the URL-encoded deserializer not found (%d)" % len(roots))
    Rr = reach.Reach(prog, roots)
    bad = []
    for k, f in Rr.reached.items():
        for c in f.calls():
            cal = c.callee or ""
            if re.search(r"percent_decode|from_utf8|FromStr|::parse$|Deserializer<'de>>::deserialize_(?!ignored_any)|percent_encoding::", cal):
                bad.append((f.key, cal, f.loc(c.sp)))
    ok = not bad
    ck.ob(R, "ignored-value:skipped-raw", ok, bad[0][2] if bad else roots[0].loc(None),
          "" if ok else "deserialize_ignored_any reaches `%s` (in %s): the value of an unknown key is decoded/validated, so a pair the target does not know (`legacy=caf%%E9`) can make the whole decode fail"
          % (bad[0][1][-70:], bad[0][0][-60:]), how="%d function(s) reached from deserialize_ignored_any, no decoder among their callees" % len(Rr.reached))


def c09f(ck, prog):
    """Whether an element is the first of its sequence is a matter of position. Deciding it from the *content* written so
    far (`output.ends_with('=')`) confuses `nothing written yet` with `only empty elements written yet`: `["", "y"]` is
    written `a=y`. The `,` of the sequence/tuple serializers must not be conditioned on a test of the output text."""
    R = "C09-f DECISION element separator"
    n = 0
    for f in prog.fns.values():
        if f.crate != "ohkami_lib" or not (f.self_ty or "").endswith("URLEncodedSerializer") or f.name not in ("serialize_element", "serialize_field"):
            continue
        if not re.search(r"Serialize(Seq|Tuple|TupleStruct|TupleVariant)$", f.trait or ""):
            continue
        helper_keys = {h.key for h in ser_helpers(prog)}
        f = prog.inlined(f, 2, lambda caller, callee: callee.key in helper_keys)
        for c in f.calls():
            if c.name != "push" or len(c.args) < 2:
                continue
            ca = f.const_args(c)
            if not (len(ca) > 1 and ca[1] and ca[1].get("ch") == ","):
                continue
            n += 1
            onout = [fa for fa in guards.facts_at(f, prog, c.bb) if fa.kind == "boolcall" and re.search(r"\.output\b", decision.describe_deep(f, fa.call.args[0], 4))]
            ok = not onout
            ck.ob(R, "%s::%s" % ((f.trait or "").rsplit("::", 1)[-1], f.name), ok, f.loc(c.sp),
                  "" if ok else "the `,` before a sequence element is pushed depending on `%s` of the text written so far: after an empty first element nothing distinguishes the second element from the first, "
                  "so `[\"\", \"y\"]` is written `a=y` and reads back as one element" % onout[0].call.name, how="the separator is decided by position (a first-element flag), not by the output text")
    ck.floor(R, "sequence-like element serializers", n, 3)


def c09g(ck, prog):
    """`percent-decoding`: the separators `&` and `=` structure the *encoded* text; an escaped `%3D` / `%26` is data. The query
    iterator must look for `=` (and `&`) in the raw bytes and decode the pieces afterwards -- a search in already decoded
    text takes an escaped `=` inside a key for the separator."""
    R = "C09-g ORDER split before decoding"
    mod = [g for g in prog.fns.values() if g.crate == "ohkami" and g.key.startswith("ohkami::request::query::")]
    n = 0
    for g in sorted(mod, key=lambda x: x.key):
        for c in g.calls():
            if c.name not in ("position", "rposition", "find", "rfind", "split_once", "rsplit_once", "split", "splitn", "split_terminator", "split_at", "iter") or not c.args:
                continue
            # is this a search for one of the separators?
            pats = []
            for a in c.args[1:]:
                ca = g.origin(a)
                if ca and ca[-1][0] == "const":
                    pats.append(ca[-1][1].get("ch") or ca[-1][1].get("s") or (chr(int(ca[-1][1]["v"])) if ca[-1][1].get("ty") in ("u8", "&u8") and "v" in ca[-1][1] else None))
                elif ca and ca[-1][0] == "agg" and ca[-1][1][1].get("k") == "closure":
                    cf = prog.fns.get(ca[-1][1][1].get("def"))
                    txt = str(cf.blocks) if cf is not None else ""
                    for ch_ in "=&":
                        if "'v': '%d'" % ord(ch_) in txt:
                            pats.append(ch_)
            if not any(p_ in ("=", "&") for p_ in pats if p_):
                continue
            n += 1
            d = decision.describe_deep(g, c.args[0], 8)
            ok = re.search(r"decoded_utf8\(|percent_decode|from_utf8_lossy\(|decode\(", d) is None
            ck.ob(R, "%s:%s-on-raw-bytes" % (g.name if "closure" not in g.name else g.key.rsplit("::", 2)[-2] + "::" + g.name, c.name), ok, g.loc(c.sp),
                  "" if ok else "the query iterator searches for `%s` in `%s`, i.e. in text that was already percent-decoded: an escaped separator inside a key or value (`a%%3Db=c`) is taken for the real one"
                  % ("/".join(sorted({p_ for p_ in pats if p_})), d[:80]), how="separator searched in the raw pair: %s" % d[:60])
    ck.floor(R, "separator searches in request::query", n, 2)


def c09h(ck, prog):
    """`["a", "b", ""]` is written `a,b,` and must read back with its empty last element: in the sequence reader, once the
    separator that ended the previous element has been consumed, an element follows -- the end-of-sequence answer `Ok(None)`
    is not reachable from the point where the separator was consumed (it is decided before, on the untouched rest)."""
    R = "C09-h ORDER separator then element"
    fs = [f for f in prog.fns.values() if f.name == "next_element_seed" and "CommaSeparated" in (f.self_ty or "")]
    if len(fs) != 1:
        raise AnchorLost("CommaSeparated::next_element_seed not found (%d)" % len(fs))
    f = fs[0]
    # the consumption: a store to self.section under the `Some((b',', rest))` match of split_first / strip_prefix
    consumed = []
    for bi in sorted(f.live_blocks()):
        for st in f.blocks[bi]["st"]:
            if st["k"] == "=" and st["p"][1] and st["p"][1][-1][0] == "f" and st["p"][1][-1][2] == "section" and not f.is_cleanup(bi):
                facts = guards.facts_at(f, prog, bi)
                vd = decision.describe_deep(f, st["r"][1], 6) if st["r"][0] == "use" else ""
                if re.search(r"strip_prefix\(|split_first\(", vd):
                    consumed.append(bi)      # `self.section = self.section.strip_prefix(b",").ok_or_else(..)?`
                    continue
                if any((fa.kind == "int" and fa.values == {44}) or (fa.kind == "variant" and fa.allowed == {"Some"} and fa.steps and re.search(r"split_first|strip_prefix", guards.describe_origin(f, fa.steps))) for fa in facts):
                    consumed.append(bi)
    nones = [bb for bb, kind, payload in paths.ret_sites(f) if kind == "Ok" and decision.describe_deep(f, payload[2][0], 2).startswith("None")]
    if not consumed or not nones:
        raise AnchorLost("separator consumption (%d) or end-of-sequence answer (%d) not found in next_element_seed" % (len(consumed), len(nones)))
    bad = [b for b in consumed if set(nones) & f.reachable_from(b)]
    ok = not bad
    ck.ob(R, "reader:no-end-after-a-separator", ok, f.loc(None), "" if ok else "the sequence reader can answer `end of sequence` after it has consumed a separator: a trailing `,` (the written form of an empty last element) is swallowed, `a,b,` reads back as [a, b] and `1,2,` is accepted for a list of numbers",
          how="Ok(None) is not reachable from the consumption of `,`")


def c09i(ck, prog):
    """a value that contains `=` (base64 padding) survives the query iterator: the query pair's value runs to the end of the
    pair (the C02-g clause re-evaluated: the same split reads what the urlencoded writer produced)."""
    R = "C09-i PAIR query pair extent"
    from . import C02
    sub = type(ck)(ck.prop, ck.tier)
    sub.config = ck.config
    sub.guard("C02-g PAIR query value extent", lambda: C02.c02g(sub, prog))
    n = 0
    for o in sub.obs:
        if o["key"].startswith("floor:"):
            continue
        n += 1
        ck.ob(R, "C02-g:" + o["key"], o["ok"], o["where"], o["detail"], how=o["how"], nontrivial=o.get("nontrivial", True))
    ck.floor(R, "query extent clauses", n, 1)
