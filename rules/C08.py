"""C08 Network-facing decoders are total and memory-safe on arbitrary bytes.
Decides: (a) no explicit panic, (b) no implicit panic (bounds/overflow/partial std call),
(c) every unsafe operation dominated by its guard -- for all code reachable from the decoder
entry points and from every serde adapter method. Does not decide termination or UTF-8/pointer
facts that are not reducible to a guard pattern."""
import re

from .lib.reachrule import ReachRule
from .audit.C08 import AUDIT

CONFIGS_QUICK = ["A", "R"]
CONFIGS_THOROUGH = ["A", "R", "NOAPI"]

ROOT_PATS = [
    r"^ohkami_lib::serde_urlencoded::from_bytes$",
    r"^ohkami_lib::serde_cookie::from_str$",
    r"^ohkami_lib::serde_multipart::from_bytes$",
    r"^ohkami_lib::serde_utf8::from_str$",
    r"^ohkami_lib::percent_encoding::percent_decode(_utf8)?$",
    r"^ohkami::request::query::QueryParams::(iter|parse|new)$",
    r"^ohkami::util::iter_cookies$",
    r"^ohkami::header::setcookie::SetCookie::<'c>::from_raw$",
]
ROOT_METHODS = [
    # Path::{params,str} and the other request accessors are C02-b's roots
]
ROOT_PATS += [r"^ohkami::request::from_request::FromParam::from_raw_param$"]
SERDE_DE = r"^serde_core::de::(Deserializer|MapAccess|SeqAccess|EnumAccess|VariantAccess|IntoDeserializer)$"
BOUNDARY = [r"^serde_core::de::(Visitor|DeserializeSeed|Deserialize|Error|Expected)::", r"^serde_core::de::Deserializer::",
            r"^ohkami::request::from_request::FromParam::from_param$"]


def roots(prog):
    rs = []
    missing = []
    for pat in ROOT_PATS:
        fs = prog.find(pat)
        if not fs:
            missing.append(pat)
        rs += fs
    for st, nm, tr in ROOT_METHODS:
        fs = prog.methods(st, nm, tr)
        if not fs:
            missing.append("%s::%s" % (st, nm))
        rs += fs
    serde = [f for f in prog.fns.values() if f.trait and re.search(SERDE_DE, f.trait) and f.crate in ("ohkami_lib", "ohkami")]
    return rs, serde, missing


def run(ck, progs):
    ck.explanation = (
        "Decides clauses C08-a/b/c: from the decoder entry points (urlencoded, cookie, multipart, utf8, percent-decoding, query iterator, "
        "cookie iterator, Set-Cookie parser, path params) and from every method of every serde Deserializer/MapAccess/SeqAccess/EnumAccess/"
        "VariantAccess impl on an ohkami type, no panic sink (unwrap/expect/assert!/unreachable!/bounds/overflow/partial std call) and no "
        "unsafe operation is reachable over resolved call edges unless it is dominated by the guard that establishes its precondition "
        "(automatic pattern or audit entry whose guard signature is re-verified on this tree). Not decided: termination, and UTF-8/pointer "
        "range facts beyond the guarded sites.")
    ck.assumptions = ["A2: callbacks into generic serde Visitor/DeserializeSeed code return normally and are memory-safe",
                      "A3: rules/audit/extern.py summaries of external callees are correct",
                      "A5: reasons of audit entries are correct; their guard signatures are re-verified mechanically"]
    for cfg, prog in progs.items():
        ck.config = cfg
        rs, serde, missing = roots(prog)
        for m in missing:
            ck.ob("C08 ROOTS", "root:" + m, False, detail="decoder entry point /%s/ not found in configuration %s" % (m, cfg))
        ck.floor("C08 ROOTS", "decoder entry functions [%s]" % cfg, len(rs), 12)
        ck.floor("C08 ROOTS", "serde adapter methods [%s]" % cfg, len(serde), 190)
        # building an error *response* is the response side (C03), not the decoder
        rr = ReachRule(ck, prog, "C08 REACH", rs + serde, boundary=BOUNDARY, audit=AUDIT,
                       stop=[r"^ohkami::response::", r"<impl ohkami::response::Response>"])
        sinks = rr.run()
        ck.floor("C08 REACH", "functions reached [%s]" % cfg, len(rr.R.reached), 200)
    ck.config = None

TECHNIQUE = "MIR call-graph reachability of panic/unsafe sinks + dominance-checked guard audit"
LEVEL_TEXT = ("Decides clauses C08-a/b/c: from every decoder entry point and every serde adapter method of ohkami's urlencoded/cookie/multipart/utf8 decoders, the "
              'query and cookie iterators, the Set-Cookie parser and percent-decoding, no panic sink (unwrap/expect/assert!/bounds/overflow/partial std call) and no '
              'unsafe operation is reachable over resolved call edges unless dominated by the guard establishing its precondition -- where that guard is a predicate '
              'closure (`is_some_and(|part| ..)`), the closure may answer true only under the test the unsafe operation needs -- (sound for these clauses over all '
              'paths, modulo the stated assumptions). Decides these clauses, not the behaviour: termination and UTF-8/pointer-range facts beyond guarded sites are '
              'not decided.')
