"""C18 Graceful shutdown waits for in-flight sessions and never loses the interrupt.
Decides: (a) register-then-recheck on the Pending path of UntilInterrupt::poll, handler stores the flag before taking the waker,
orderings; (b) sessions are counted before they are spawned and awaited before howl returns; WaitGroup's counting protocol."""
import re

from .lib import decision, guards, paths
from .lib.mir import AnchorLost

CONFIGS_QUICK = ["A", "R"]
CONFIGS_THOROUGH = ["A", "R", "ASYNCSTD", "SMOL", "NIO", "GLOMMIO"]
TECHNIQUE = "event-order rules (reachability avoiding an event, dominance) on the built MIR of the poll functions and of howl's coroutine; atomic-ordering table"
LEVEL_TEXT = ('Decides clauses C18-a/b: in UntilInterrupt::poll no path from the publication of the waker (WAKER.swap, or the WAKER mutex acquisition on glommio) to '
              '`return Poll::Pending` avoids a re-read of the interrupt flag -- the code-shape condition without which the schedule load(false) . handler . publish .'
              ' Pending strands the waker; the signal handler stores the flag before it takes the waker, all with SeqCst; in howl, WaitGroup::add dominates the spawn'
              ', the spawned future awaits session.manage() before releasing its handle, the accept loop is left only on the None edge of until_interrupt, the listen'
              'er is dropped and the original WaitGroup awaited before the return; WaitGroup counts with fetch_add/fetch_sub, is Ready only on a zero load and is not'
              ' Clone. Decides these conditions, not liveness under all interleavings. Nothing reachable from Session::manage spawns or detaches a task, so the sessi'
              "on's WaitGroup handle covers the whole service of the connection (WebSocket phase included). Every Pending answer of UntilInterrupt::poll is dominated"
              " by an unconditional swap/store of the current task's waker into WAKER (no publish-only-if-empty).")


def run(ck, progs):
    ck.explanation = LEVEL_TEXT
    ck.assumptions = ["the ctrlc crate runs the handler on its own thread after SIGINT/SIGTERM", "atomics behave per the C++20 memory model"]
    for cfg, prog in progs.items():
        ck.config = cfg
        ck.guard("C18-a ORDER handshake", lambda: c18a(ck, prog))
        ck.guard("C18-b ORDER sessions", lambda: c18b(ck, prog))
    ck.config = None


def SYNC_HELPER(caller, callee):
    """local helpers of the `sync` module (the statements of the handshake may live in them)"""
    return callee.crate == caller.crate and "::sync::" in callee.key


def static_of(fn, op):
    st = fn.origin(op)
    if st and st[-1][0] == "const":
        return (st[-1][1].get("static") or "").rsplit("::", 1)[-1]
    return ""


ORDERINGS = {0: "Relaxed", 1: "Release", 2: "Acquire", 3: "AcqRel", 4: "SeqCst"}    # core::sync::atomic::Ordering, declaration order


def ordering_of(fn, op):
    st = fn.origin(op)
    if st and st[-1][0] == "const" and (st[-1][1].get("ty") or "").endswith("atomic::Ordering") and st[-1][1].get("v") is not None:
        # a named constant (`const DONE: Ordering = Ordering::Release`) is dumped evaluated, as the discriminant
        return ORDERINGS.get(int(st[-1][1]["v"]), "?")
    return decision.describe_deep(fn, op, 1).split("{")[0]


def c18a(ck, prog):
    R = "C18-a ORDER handshake"
    fs = [f for f in prog.fns.values() if f.name == "poll" and "UntilInterrupt" in f.key]
    if len(fs) != 1:
        raise AnchorLost("UntilInterrupt::poll not found")
    f = prog.inlined(fs[0], 2, SYNC_HELPER)
    loads = [c for c in f.calls() if c.name == "load" and static_of(f, c.args[0]) == "CATCH"]
    pubs = [c for c in f.calls() if c.name in ("swap", "store", "lock", "compare_exchange") and static_of(f, c.args[0]) == "WAKER"]
    ck.ob(R, "poll:anchors", bool(loads) and bool(pubs), f.loc(None), "" if loads and pubs else "UntilInterrupt::poll has %d reads of CATCH and %d publications to WAKER" % (len(loads), len(pubs)), how="%d CATCH.load, %d WAKER publication(s)" % (len(loads), len(pubs)), nontrivial=False)
    pend = [bb for bb, kind, payload in paths.ret_sites(f) if kind == "Pending"]
    ready_none = []
    for bb, kind, payload in paths.ret_sites(f):
        if kind == "Ready":
            d = decision.describe_deep(f, payload[2][0], 2)
            if d.startswith("None"):
                ready_none.append(bb)
    load_blocks = tuple(c.bb for c in loads)
    for p in pubs:
        nxt = p.target
        reach = f.reachable_from(nxt, avoid=load_blocks) if nxt is not None else set()
        stranded = [b for b in pend if b in reach]
        ok = not stranded
        ck.ob(R, "poll:recheck-after-publish(%s)" % p.name, ok, f.loc(p.sp),
              "" if ok else ("UntilInterrupt::poll returns Poll::Pending after publishing its waker (WAKER.%s) without reading CATCH again: if the signal handler runs between the earlier "
                             "CATCH.load (false) and the publication, it finds no waker to wake, and the published waker is never woken -- howl notices the interrupt only when "
                             "the next connection arrives" % p.name),
              how="every path from WAKER.%s to `Pending` passes CATCH.load" % p.name)
    # every Pending answer leaves the *current* waker published: on each path to `Pending` an unconditional exchange of the
    # slot (swap / store) with the task's waker has run -- not `only if the slot is empty` (a future polled by another task
    # later, or after a spurious poll, would leave a stale waker there, and the handler would wake the wrong task)
    uncond = [p_ for p_ in pubs if p_.name in ("swap", "store", "lock")]
    okp = bool(pend) and bool(uncond)
    for b in pend:
        if not any(f.dominates(p_.bb, b) for p_ in uncond):
            okp = False
    for p_ in uncond:
        for fa in guards.facts_at(f, prog, p_.bb):
            if fa.kind == "boolcall" and fa.call.name in ("is_null", "is_none", "is_some") and "WAKER" in decision.describe_deep(f, fa.call.args[0], 4):
                okp = False
    ck.ob(R, "poll:publishes-current-waker", okp, f.loc(pubs[0].sp if pubs else None),
          "" if okp else "UntilInterrupt::poll can answer Pending without having put the current task's waker into WAKER (publication only by compare_exchange / only when the slot is empty): after the future is polled with another waker the handler wakes a stale one and howl never notices the interrupt",
          how="WAKER.swap/store(current waker) dominates every Pending, under no emptiness test")
    # the flag read leads to Ready(None) on its true edge
    ok = False
    for b in ready_none:
        if paths.has_fact(f, prog, b, lambda fa: fa.kind == "boolcall" and fa.truth and fa.call.name == "load" and static_of(f, fa.call.args[0]) == "CATCH"):
            ok = True
    ck.ob(R, "poll:flag=>Ready(None)", ok, f.loc(None), "" if ok else "no `Poll::Ready(None)` under the true edge of CATCH.load", how="CATCH.load() == true => Ready(None)")
    # Ready(Some(t)) only from the inner future's Ready
    # handler: CATCH.store before the waker is taken
    new = prog.method(r"ohkami::sync::CtrlC$", "new")
    handlers = [g for g in prog.descendants(new.key)]
    # a named function handed to set_handler instead of a closure literal
    for c in new.calls():
        if c.name in ("set_handler", "try_set_handler") and c.args:
            st = new.origin(c.args[0])
            if st and st[-1][0] == "const" and st[-1][1].get("fn") and prog.fns.get(st[-1][1]["fn"]) is not None:
                handlers.append(prog.fns[st[-1][1]["fn"]])
    handlers = [prog.inlined(g, 2, SYNC_HELPER) for g in handlers]
    hs = [g for g in handlers if any(c.name == "store" and static_of(g, c.args[0]) == "CATCH" for c in g.calls())]
    if len(hs) != 1:
        raise AnchorLost("signal handler not found (closure or function handed to set_handler that stores CATCH)")
    h = hs[0]
    st = [c for c in h.calls() if c.name == "store" and static_of(h, c.args[0]) == "CATCH"][0]
    take = [c for c in h.calls() if c.name in ("swap", "lock", "load", "take") and static_of(h, c.args[0]) == "WAKER"]
    ok = bool(take) and all(h.dominates(st.bb, c.bb) and st.bb != c.bb for c in take)
    val = decision.describe_deep(h, st.args[1], 1)
    ok = ok and val == "const 1"
    ck.ob(R, "handler:flag-before-waker", ok, h.loc(st.sp), "" if ok else "the signal handler does not store CATCH = true before taking the waker", how="CATCH.store(true) dominates WAKER.%s" % (take[0].name if take else "?"))
    wakes = [c for c in h.calls() if c.name in ("wake", "wake_by_ref")]
    ok = bool(wakes) and all(h.dominates(st.bb, c.bb) for c in wakes)
    ck.ob(R, "handler:wakes", ok, h.loc(None), "" if ok else "the signal handler does not wake the taken waker", how="wake() after the take")
    # orderings
    ords = []
    for g in (f, h):
        for c in g.calls():
            if c.name in ("load", "store", "swap") and static_of(g, c.args[0]) in ("CATCH", "WAKER") and "Atomic" in (c.callee or ""):
                ords.append((g.name, static_of(g, c.args[0]), c.name, ordering_of(g, c.args[-1])))
    bad = [o for o in ords if o[3] != "SeqCst"]
    ck.ob(R, "orderings", not bad and len(ords) >= 3, f.loc(None), "" if not bad else "atomic operations of the handshake weaker than SeqCst: %r" % bad, how="%d operations, all SeqCst" % len(ords))


def c18b(ck, prog):
    R = "C18-b ORDER sessions"
    howl = prog.coroutine_body(prog.method(r"^ohkami::ohkami::Ohkami$", "howl").key)
    howl = prog.awaited_inlined(howl, 1, containing=r"Future for ohkami::ohkami::sync::WaitGroup>::poll$|sync::WaitGroup as core::future::future::Future>::poll$")    # the wait after the loop may be an awaited helper
    howl = prog.inlined(howl, 1, r"WaitGroup>?::add$")       # the per-connection step may be a local helper
    add = howl.calls_to(r"sync::(_::)?<impl ohkami::ohkami::sync::WaitGroup>::add$|WaitGroup>?::add$")
    spawn = howl.calls_to(r"::spawn$|spawn_local$|::detach$")
    spawn = [c for c in spawn if not re.search(r"^core::|^alloc::", c.callee or "")]
    ok = len(add) == 1 and len(spawn) >= 1 and all(howl.dominates(add[0].bb, s.bb) for s in spawn)
    ck.ob(R, "add-before-spawn", ok, howl.loc(add[0].sp if add else None), "" if ok else "a session task is spawned on a path where WaitGroup::add has not run (add: %d, spawn: %d)" % (len(add), len(spawn)), how="WaitGroup::add dominates the spawn")
    # the handle returned by add is what moves into the spawned future
    if ok:
        fut = decision.describe_deep(howl, spawn[0].args[0], 3)
        ok2 = "add(" in fut
        ck.ob(R, "handle-moves-into-task", ok2, howl.loc(spawn[0].sp), "" if ok2 else "the spawned future does not capture the handle returned by WaitGroup::add (%s)" % fut[:80], how="spawn(async move { .., wg })")
        # inside the task: manage().await precedes done()/drop
        st = howl.origin(spawn[0].args[0])
        task = None
        if st and st[-1][0] == "agg" and st[-1][1][1].get("def"):
            task = prog.fns.get(st[-1][1][1]["def"])
        if task is None:
            ck.ob(R, "task-body", False, howl.loc(spawn[0].sp), "the spawned future is not a coroutine literal")
        else:
            man = task.calls_to(r"session::Session(::<.*>)?::manage$")
            done = task.calls_to(r"WaitGroup>?::done$")
            drops = [bi for bi in task.live_blocks() if task.term(bi)["k"] == "drop" and "WaitGroup" in task.place_ty(task.term(bi)["p"]) and not task.is_cleanup(bi)]
            polls = [c for c in task.calls() if re.search(r"Future::poll$", c.decl or "") and paths.root_call(task, c.args[0]) is not None and paths.root_call(task, c.args[0]).name == "manage"]
            rel = [c.bb for c in done] + drops
            ok3 = bool(man) and bool(polls) and bool(rel) and all(paths.has_fact(task, prog, r, paths.variant_of_call(r"Future::poll$", "Ready")) for r in rel)
            ck.ob(R, "task:manage-then-release", ok3, task.loc(None), "" if ok3 else "the session task can release its WaitGroup handle before session.manage() has completed", how="wg released only under the Ready edge of manage()'s poll")
    # the handle covers the whole service of the connection: nothing reachable from Session::manage starts a task of its own
    # (a WebSocket or streaming phase moved into a detached task would outlive the handle, and howl would return under it)
    from .lib.reach import Reach
    man_fn = prog.find(r"^ohkami::session::Session(::<.*>)?::manage$")
    if not man_fn:
        raise AnchorLost("Session::manage not found")
    rr = Reach(prog, man_fn, boundary=[r"FangProcCaller|fang::.*Proc|Handler|IntoHandler|Fn(Once|Mut)?<"])
    det = []
    for g in rr.reached.values():
        for c in g.calls():
            if re.search(r"(^|::)(spawn|spawn_local|spawn_blocking|detach)$", c.callee or "") and not re.search(r"^core::|^alloc::", c.callee or ""):
                det.append((g, c))
    ok = not det
    ck.ob(R, "session:no-detached-work", ok, det[0][0].loc(det[0][1].sp) if det else man_fn[0].loc(None),
          "" if ok else "%s, reached from Session::manage, starts a task of its own (%s): that work is not covered by the session's WaitGroup handle, so after an interrupt howl returns while it is still being served" % (det[0][0].key, det[0][1].callee),
          how="no spawn/detach among the %d functions reachable from Session::manage" % len(rr.reached))
    ck.floor(R, "functions reachable from Session::manage", len(rr.reached), 20)
    # loop exit only on the None edge of until_interrupt; then drop(listener); then wg.await; then return
    ui = howl.calls_to(r"CtrlC>?::until_interrupt$")
    wgpoll = [c for c in howl.calls() if re.search(r"Future::poll$", c.decl or "") and ("WaitGroup" in " ".join(c.targs) or "WaitGroup" in (c.callee or ""))]
    rets = howl.exits()
    ok = len(ui) == 1 and bool(wgpoll)
    if ok:
        w = wgpoll[0]
        none_edge = paths.has_fact(howl, prog, w.bb, lambda fa: fa.kind == "variant" and fa.allowed == {"None"})
        ok = none_edge is not None
        ck.ob(R, "wait-only-after-interrupt", ok, howl.loc(w.sp), "" if ok else "howl starts waiting for sessions on a path other than the None result of until_interrupt", how="wg.await under the None edge (switch bb%d)" % (none_edge.sw_bb if none_edge else -1))
        ok = all(paths.has_fact(howl, prog, r, lambda fa: fa.kind == "variant" and fa.allowed == {"Ready"} and fa.steps and fa.steps[-1][0] == "call" and fa.steps[-1][1].bb == w.bb) for r in rets) and bool(rets)
        ck.ob(R, "return-after-wait", ok, howl.loc(None), "" if ok else "howl can return without the WaitGroup future having completed", how="every return is under the Ready edge of WaitGroup's poll")
        # the awaited group is the original one (created by WaitGroup::new), not a handle
        src = paths.root_call(howl, w.args[0])
        d = decision.describe_deep(howl, w.args[0], 6)
        ok = "new()" in d and "add(" not in d
        ck.ob(R, "awaits-original-group", ok, howl.loc(w.sp), "" if ok else "the awaited WaitGroup is `%s`, not the one created by WaitGroup::new" % d[:80], how="WaitGroup::new() is what is awaited")
        # listener dropped before the wait
        dl = [bi for bi in howl.live_blocks() if (howl.term(bi)["k"] == "drop" and re.search(r"Listener", howl.place_ty(howl.term(bi)["p"])) and not howl.is_cleanup(bi))]
        dl += [c.bb for c in howl.calls_to(r"^core::mem::drop$") if "Listener" in " ".join(c.targs)]
        ok = any(howl.dominates(b, w.bb) for b in dl)
        ck.ob(R, "listener-dropped-before-wait", ok, howl.loc(None), "" if ok else "the listener is not dropped before howl waits for the sessions (new connections could still be accepted by the OS backlog)", how="drop(listener) dominates wg.await")
    else:
        ck.ob(R, "anchors", False, howl.loc(None), "until_interrupt call or WaitGroup await not found in howl")
    # WaitGroup protocol
    WG = r"^ohkami::ohkami::sync::WaitGroup$"
    addf = prog.method(WG, "add")
    fa_ = [c for c in addf.calls() if c.name.startswith("fetch_")]
    ok = len(fa_) == 1 and fa_[0].name == "fetch_add" and decision.describe_deep(addf, fa_[0].args[1], 1) == "const 1"
    ck.ob(R, "WaitGroup::add", ok, addf.loc(None), "" if ok else "WaitGroup::add is not a single fetch_add(1)", how="fetch_add(1)")
    dropf = prog.method(WG, "drop", trait=r"core::ops::drop::Drop$")
    fs_ = [c for c in dropf.calls() if c.name.startswith("fetch_")]
    ok = len(fs_) == 1 and fs_[0].name == "fetch_sub" and decision.describe_deep(dropf, fs_[0].args[1], 1) == "const 1" and ordering_of(dropf, fs_[0].args[-1]) in ("Release", "AcqRel", "SeqCst")
    ck.ob(R, "WaitGroup::drop", ok, dropf.loc(None), "" if ok else "Drop for WaitGroup is not a single fetch_sub(1, Release or stronger)", how="fetch_sub(1, %s)" % (ordering_of(dropf, fs_[0].args[-1]) if fs_ else "?"))
    pollf = prog.method(WG, "poll", trait=r"Future$")
    ld = [c for c in pollf.calls() if c.name == "load"]
    readys = [bb for bb, kind, _ in paths.ret_sites(pollf) if kind == "Ready"]
    ok = len(ld) == 1 and bool(readys) and ordering_of(pollf, ld[0].args[-1]) in ("Acquire", "SeqCst")
    if ok:
        for bb in readys:
            hit = False
            for fa in guards.facts_at(pollf, prog, bb):
                if fa.kind == "cmp" and fa.op == "Eq":
                    sides = [guards.describe_origin(pollf, fa.lhs), guards.describe_origin(pollf, fa.rhs)]
                    if any("load" in s for s in sides) and any(s == "const 0" for s in sides):
                        hit = True
                # `match load { 0 => Ready, _ => Pending }`
                if fa.kind == "int" and fa.values is not None and set(fa.values) == {0} and "load" in guards.describe_origin(pollf, fa.steps):
                    hit = True
            ok = ok and hit
    ck.ob(R, "WaitGroup::poll", ok, pollf.loc(None), "" if ok else "WaitGroup::poll can be Ready without having loaded a zero count (Acquire)", how="Ready only under load(Acquire) == 0")
    pends = [bb for bb, kind, _ in paths.ret_sites(pollf) if kind == "Pending"]
    wk = [c for c in pollf.calls() if c.name in ("wake_by_ref", "wake", "clone")]
    ok = bool(pends) and all(any(pollf.dominates(c.bb, b) for c in wk) for b in pends)
    ck.ob(R, "WaitGroup::poll-rearms", ok, pollf.loc(None), "" if ok else "WaitGroup::poll returns Pending without arranging to be polled again", how="wake_by_ref before Pending")
    clones = [im for im in prog.impls if im.get("trait") in ("core::clone::Clone", "core::marker::Copy") and re.search(WG, im["self_ty"])]
    ck.ob(R, "WaitGroup:not-Clone", not clones, "", "" if not clones else "WaitGroup implements Clone/Copy: one add() no longer corresponds to one drop", how="no Clone/Copy impl")
