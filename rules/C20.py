"""C20 Date and number formatters used on the wire are exact for every input.
Decides: (a) the three calendar tables equal their defining formulae entry by entry (from the compiled constants), the
weekday/month name lists; (b) the number of unchecked single-byte writes in itoa / into_imf_fixdate is bounded by (equal to)
the reserved capacity. Does not decide the arithmetic of the conversions."""
import datetime
import re

from .lib import bound, decision, guards, paths
from .lib.mir import AnchorLost, Call

CONFIGS_QUICK = ["A", "R"]
CONFIGS_THOROUGH = ["A", "R"]
TECHNIQUE = ('entry-by-entry comparison of the compiled calendar tables with their defining formulae; path-min/max count of unchecked writes vs capacity on the '
             'built MIR; def-use ordering of table reads against reassignment of their index variable; interval abstract interpretation of itoa (digit bytes within 0x30..0x39)')
LEVEL_TEXT = ('Decides clauses C20-a..e: YEAR_DELTAS (401 entries), YEAR_TO_FLAG (400) and OL_TO_MDL (733), read from the evaluated constants of the compiled crate, '
              "equal the Gregorian-calendar formulae they stand for (leap-year counts, weekday/leap flag of 1 January under this source's own Of::weekday decoding, o"
              "rdinal->month/day deltas from the month lengths); the weekday and month name tables equal RFC 9110's day-name/month lists in the order the index funct"
              'ions assume; into_imf_fixdate performs exactly 29 unchecked single-byte writes on every path into its 29-byte buffer, each followed by the index incre'
              'ment, and itoa at most 1+MAX pushes into a buffer of capacity 1+MAX; in the date arithmetic a calendar-table entry read for a mutable year variable is'
              ' never used after that variable was reassigned (the year borrow in Date::from_days re-reads the table); no quotient or remainder is taken of a functio'
              'n input that was first cast to fewer bits; where a comparison limits a table index, the largest admitted index is the last entry of the table. C20-f: '
              'every byte itoa pushes is an ASCII digit, by interval analysis of its loop-free body (branch refinement on the power-of-ten guards, and n - C*(n/C) kn'
              'own to be n mod C): the digit written at position k is bounded by 9 because n < 10^(k+1) holds there (loops driven by a +/-1 counter are analysed per '
              'counter value -- trace partitioning -- so that 10^counter is a constant in each partition; a form the analysis cannot bound is reported as not decided'
              ", not as a violation). C20-g: each digit byte written by into_imf_fixdate is b'0' plus a closed arithmetic term over the field value x (the innermost "
              'value converted to u8) that equals x/10, x%10 or x for every x in 0..=99, tens then units in pairs (term comparison over the finite domain, like the c'
              'alendar tables; a rendering that produces no such arithmetic digit terms -- a table of digit pairs -- is not decided by this clause). Decides these cl'
              'auses, not the day/year arithmetic or the digit extraction for all inputs.')


def run(ck, progs):
    ck.explanation = LEVEL_TEXT
    ck.assumptions = ["Python's datetime implements the proleptic Gregorian calendar (used as the oracle for weekdays)"]
    for cfg, prog in progs.items():
        ck.config = cfg
        ck.guard("C20-a TABLE", lambda: c20a(ck, prog))
        ck.guard("C20-b BOUND", lambda: c20b(ck, prog))
        ck.guard("C20-b BOUND", lambda: c20b_hex(ck, prog))
        ck.guard("C20-c ORDER table read", lambda: c20c(ck, prog))
        ck.guard("C20-d ORDER reduce before truncating", lambda: c20d(ck, prog))
        ck.guard("C20-e BOUND table index range", lambda: c20e(ck, prog))
        ck.guard("C20-f RANGE decimal digits", lambda: c20f(ck, prog))
        ck.guard("C20-g TABLE two-digit fields", lambda: c20g(ck, prog))
    ck.config = None


def leap(y):
    return y % 4 == 0 and (y % 100 != 0 or y % 400 == 0)


def c20a(ck, prog):
    R = "C20-a TABLE"
    yd = prog.const(r"^ohkami_lib::time::Date::from_days::YEAR_DELTAS$")
    tab = yd.get("b") or yd.get("raw")
    ok = tab is not None and len(tab) == 401
    ck.ob(R, "YEAR_DELTAS:len", ok, "", "" if ok else "YEAR_DELTAS has %s entries, expected 401" % (len(tab) if tab else None), how="401 entries", nontrivial=False)
    bad = []
    if ok:
        acc = 0
        for i in range(401):
            if tab[i] != acc:
                bad.append((i, tab[i], acc))
            acc += 1 if leap(i) else 0
    ck.ob(R, "YEAR_DELTAS:values", ok and not bad, "ohkami_lib/src/time.rs", "" if not bad else "YEAR_DELTAS[%d] = %d, but %d leap years precede cycle year %d (first of %d wrong entries)" % (bad[0] + (bad[0][0], len(bad))),
          how="401 entries = number of leap years in cycle years 0..i")
    ck.add_stat("table_entries_compared", 401)

    yf = prog.const(r"^ohkami_lib::time::YearFlag::from_year::YEAR_TO_FLAG$")
    tab = yf.get("raw")
    ok = tab is not None and len(tab) == 400 and yf.get("elem_size") == 1
    ck.ob(R, "YEAR_TO_FLAG:len", ok, "", "" if ok else "YEAR_TO_FLAG is not 400 one-byte flags", how="400 entries", nontrivial=False)
    # the decoding used by this source: weekday(ordinal, flag) = ((ordinal<<4|flag) >> 4) + (flag & 7)  mod 7, Mon = 0 (checked below)
    wd_ok = check_weekday_decoding(ck, prog)
    bad = []
    if ok:
        for y in range(400):
            f = tab[y]
            want_wd = datetime.date(2000 + y, 1, 1).weekday()  # 400-year cycle = 146097 days = 20871 weeks
            got_wd = (1 + (f & 7)) % 7
            common = (f >> 3) & 1
            if got_wd != want_wd or (common == 0) != leap(y) or f > 0o17:
                bad.append((y, f, want_wd, got_wd))
    ck.ob(R, "YEAR_TO_FLAG:values", ok and not bad and wd_ok, "ohkami_lib/src/time.rs",
          "" if not bad else "YEAR_TO_FLAG[%d] = 0o%o: 1 January of cycle year %d is weekday %d (Mon=0), the flag decodes to %d / leap bit wrong (first of %d wrong entries)" % (bad[0][0], bad[0][1], bad[0][0], bad[0][2], bad[0][3], len(bad)),
          how="400 entries: weekday of 1 Jan and leap bit")
    ck.add_stat("table_entries_compared", 400)

    ol = prog.const(r"^ohkami_lib::time::Mdf::from_of::OL_TO_MDL$")
    tab = ol.get("raw") or ol.get("b")
    maxol = int(prog.const(r"^ohkami_lib::time::Mdf::from_of::MAX_OL$")["v"])
    ok = tab is not None and len(tab) == maxol + 1 == 733
    ck.ob(R, "OL_TO_MDL:len", ok, "", "" if ok else "OL_TO_MDL has %s entries, MAX_OL = %d" % (len(tab) if tab else None, maxol), how="733 entries", nontrivial=False)
    bad = []
    if ok:
        for o in range(2, maxol + 1):
            ordinal, c = o >> 1, o & 1  # c = 1: common year (bit 3 of the flag), c = 0: leap year
            lens = [31, 28 if c else 29, 31, 30, 31, 30, 31, 31, 30, 31, 30, 31]
            if ordinal > sum(lens):
                continue
            m, d = 1, ordinal
            for L in lens:
                if d <= L:
                    break
                d -= L
                m += 1
            want = m * 64 + d * 2 - ordinal * 2
            if tab[o] != want:
                bad.append((o, tab[o], want, m, d))
    ck.ob(R, "OL_TO_MDL:values", ok and not bad, "ohkami_lib/src/time.rs",
          "" if not bad else "OL_TO_MDL[%d] = %d, but ordinal %d of a %s year is %d-%02d which needs delta %d (first of %d wrong entries)" % (bad[0][0], bad[0][1], bad[0][0] >> 1, "common" if bad[0][0] & 1 else "leap", bad[0][3], bad[0][4], bad[0][2], len(bad)),
          how="731 valid entries: month*64 + day*2 - ordinal*2")
    ck.add_stat("table_entries_compared", 731)

    wk = prog.const(r"^ohkami_lib::time::UTCDateTime::into_imf_fixdate::SHORT_WEEKDAYS$").get("strs")
    ok = wk == ["Sun", "Mon", "Tue", "Wed", "Thu", "Fri", "Sat"]
    ck.ob(R, "SHORT_WEEKDAYS", ok, "ohkami_lib/src/time.rs", "" if ok else "SHORT_WEEKDAYS = %r, RFC 9110 day-name list indexed by days-from-Sunday is Sun..Sat" % wk, how=str(wk))
    mo = prog.const(r"^ohkami_lib::time::UTCDateTime::into_imf_fixdate::SHORT_MONTHS$").get("strs")
    ok = mo == ["Jan", "Feb", "Mar", "Apr", "May", "Jun", "Jul", "Aug", "Sep", "Oct", "Nov", "Dec"]
    ck.ob(R, "SHORT_MONTHS", ok, "ohkami_lib/src/time.rs", "" if ok else "SHORT_MONTHS = %r, RFC 9110 month list is Jan..Dec" % mo, how=str(mo))
    ln = int(prog.const(r"^ohkami_lib::time::UTCDateTime::into_imf_fixdate::IMF_FIXDATE_LEN$")["v"])
    ok = ln == 29
    ck.ob(R, "IMF_FIXDATE_LEN", ok, "", "" if ok else "IMF_FIXDATE_LEN = %d, an IMF-fixdate has 29 bytes" % ln, how="29")
    ck.add_stat("table_entries_compared", 20)


def check_weekday_decoding(ck, prog):
    """Weekday::from_u32_mod7: n%7 -> Mon..Sun in order; num_days_from_sunday = (self + 7 - Sun) % 7; Of::weekday = (of>>4)+(of&7)"""
    R = "C20-a TABLE"
    f = prog.method(r"^ohkami_lib::time::Weekday$", "from_u32_mod7")
    rows = decision.const_table(f, prog)
    m = {}
    for conds, val in rows:
        lab = conds[-1][1]
        name = re.sub(r"\{.*", "", (val or {}).get("desc", "?"))
        m[lab] = name
    want = {0: "Mon", 1: "Tue", 2: "Wed", 3: "Thu", 4: "Fri", 5: "Sat", "otherwise": "Sun"}
    ok = m == want
    rem = [st["r"] for b in f.blocks for st in b["st"] if st["k"] == "=" and st["r"][0] == "bin" and st["r"][1] == "Rem"]
    ok = ok and len(rem) == 1 and guards.const_int(rem[0][3][1] if rem[0][3][0] == "k" else None) == 7
    ck.ob(R, "Weekday::from_u32_mod7", ok, f.loc(None), "" if ok else "from_u32_mod7 maps %r (n %% 7), expected 0..5 -> Mon..Sat, else Sun" % m, how=str(m))
    adt = prog.adt(r"^ohkami_lib::time::Weekday$")
    order = [v["name"] for v in adt["variants"]]
    ok2 = order == ["Mon", "Tue", "Wed", "Thu", "Fri", "Sat", "Sun"]
    ck.ob(R, "Weekday:order", ok2, "", "" if ok2 else "Weekday variants are %r" % order, how=str(order))
    g = prog.method(r"^ohkami_lib::time::Weekday$", "num_days_from_sunday")
    bins = [(st["r"][1], [guards.const_int(o[1]) if o[0] == "k" else None for o in (st["r"][2], st["r"][3])]) for b in g.blocks for st in b["st"] if st["k"] == "=" and st["r"][0] == "bin"]
    shape = [(op.replace("WithOverflow", ""), cs[1]) for op, cs in bins if op.replace("WithOverflow", "") in ("Add", "Sub", "Rem")]
    ok3 = shape == [("Add", 7), ("Sub", None), ("Rem", 7)] or shape == [("Add", 7), ("Sub", 6), ("Rem", 7)]
    how3 = "(self + 7 - Sun) % 7"
    if not ok3 and not shape:
        # the same function written as a table: one row per variant
        names = {int(v.get("discr", i)): v["name"] for i, v in enumerate(adt["variants"])}
        tab = {}
        for conds, val in decision.const_table(g, prog):
            lab = conds[-1][1] if conds else None
            v = guards.const_int(val) if val else None
            tab[names.get(lab, lab)] = v
        want_tab = {"Sun": 0, "Mon": 1, "Tue": 2, "Wed": 3, "Thu": 4, "Fri": 5, "Sat": 6}
        other = [k for k in tab if k not in want_tab]
        # one arm may be the `otherwise` edge: it stands for the variant not listed
        if len(other) == 1 and len(tab) == 7:
            missing = [k for k in want_tab if k not in tab]
            if len(missing) == 1:
                tab[missing[0]] = tab.pop(other[0])
        ok3 = tab == want_tab
        how3 = "table %r" % tab
        shape = tab
    ck.ob(R, "Weekday::num_days_from_sunday", ok3, g.loc(None), "" if ok3 else "num_days_from_sunday computes %r, expected (self + 7 - Sun) %% 7 (Sun = 0 .. Sat = 6)" % (shape,), how=how3)
    h = prog.method(r"^ohkami_lib::time::Of$", "weekday")
    bins = [(st["r"][1], [guards.const_int(o[1]) if o[0] == "k" else None for o in (st["r"][2], st["r"][3])]) for b in h.blocks for st in b["st"] if st["k"] == "=" and st["r"][0] == "bin"]
    shape = sorted((op.replace("WithOverflow", ""), cs[1]) for op, cs in bins if op.replace("WithOverflow", "") in ("Shr", "BitAnd", "Add", "Sub", "Mul", "Shl", "BitOr", "Rem", "Div"))
    ok4 = shape == sorted([("Shr", 4), ("BitAnd", 7), ("Add", None)])
    ck.ob(R, "Of::weekday", ok4, h.loc(None), "" if ok4 else "Of::weekday computes %r, expected (of >> 4) + (of & 0b111)" % shape, how="(of >> 4) + (of & 7)")
    return ok and ok2 and ok3 and ok4


def c20b(ck, prog):
    R = "C20-b BOUND"
    f = prog.method(r"^ohkami_lib::time::UTCDateTime$", "into_imf_fixdate")
    f = prog.inlined(f, 2, r"MaybeUninit::<T>::write$")       # the byte writer may be a local helper / a small writer type
    writes = {c.bb for c in f.calls_to(r"MaybeUninit::<T>::write$")}
    # (the exact count per path is decided below against the buffer size; the floor only guards the anchor)
    ck.floor(R, "write sites in into_imf_fixdate", len(writes), 8)
    try:
        lo, hi = bound.weight_range(f, lambda b: 1 if b in writes else 0)
    except bound.Unbounded as e:
        ck.ob(R, "imf:writes", False, f.loc(None), "cannot bound the number of unchecked writes in into_imf_fixdate: %s" % e)
        lo = hi = None
    tys = " ".join(t or "" for t in f.locals) + " " + " ".join(" ".join(str(x) for x in (fl.get("ty", "") for fl in a_.get("fields", []))) if isinstance(a_.get("fields"), list) and a_.get("fields") and isinstance(a_["fields"][0], dict) else str(a_.get("fields", "")) for k_, a_ in prog.adts.items() if "into_imf_fixdate" in k_)
    caps = {int(x) for x in re.findall(r"\[core::mem::maybe_uninit::MaybeUninit<u8>; (\d+)\]", tys)}
    cap = caps.pop() if len(caps) == 1 else None

    def canon(op):
        """(local, projections) the index operand reads: through copies of temporaries and `(*r)` of reference temporaries"""
        if op[0] not in ("c", "m"):
            return None
        pl = [op[1][0], list(op[1][1])]
        for _ in range(12):
            if 1 <= pl[0] <= f.argc:
                break
            sd = f.single_def(pl[0])
            if sd is None or sd[2] != "assign" or sd[3]["p"][1]:
                break
            r = sd[3]["r"]
            if r[0] == "use" and r[1][0] in ("c", "m") and (not pl[1] or pl[1][0][0] == "d" or True) and not (pl[0] in f.mut_borrowed()):
                pl = [r[1][1][0], list(r[1][1][1]) + pl[1]]
            elif r[0] == "ref" and pl[1] and pl[1][0][0] == "d":
                pl = [r[2][0], list(r[2][1]) + pl[1][1:]]
            else:
                break
        return (pl[0], tuple((p_[0], p_[1] if len(p_) > 1 else None) for p_ in pl[1]))
    if lo is not None:
        ok = lo == hi == cap
        ck.ob(R, "imf:writes", ok, f.loc(None),
              "" if ok else "into_imf_fixdate writes between %d and %d bytes (unchecked, one per index) into its %s-byte MaybeUninit buffer before transmuting it to [u8; %s]" % (lo, hi, cap, cap),
              how="every path performs exactly %d unchecked writes; buffer = %s bytes" % (hi, cap))
        # every write goes to `buf[idx]` for one running index (a variable, or a field of the writer) and is followed by
        # `idx += 1` before the next write
        gi = f.calls_to(r"get_unchecked_mut$")
        idx_ids = {canon(c.args[1]) for c in gi}
        okidx = len(idx_ids) == 1 and None not in idx_ids and len(gi) == len(writes)
        ck.ob(R, "imf:one-running-index", okidx, f.loc(None), "" if okidx else "the buffer slots in into_imf_fixdate are not all addressed by one running index variable", how="get_unchecked_mut(idx) x%d, same variable" % len(gi))
        idx = next(iter(idx_ids)) if okidx else None
        incs = set()
        for bi, b in enumerate(f.blocks):
            for st in b["st"]:
                if st["k"] == "=" and st["r"][0] == "bin" and st["r"][1] in ("Add", "AddWithOverflow") and st["r"][3][0] == "k" and guards.const_int(st["r"][3][1]) == 1:
                    if st["r"][2][0] in ("c", "m") and canon(st["r"][2]) == idx:
                        incs.add(bi)
        bad = []
        for w in sorted(writes):
            t = f.term(w)
            nxt = t.get("target")
            seen = f.reachable_from(nxt, avoid=tuple(incs)) if nxt is not None else set()
            if seen & writes:
                bad.append(w)
        ok = okidx and not bad and len(incs) >= 1
        ck.ob(R, "imf:index-advances", ok, f.loc(None), "" if ok else "a write in into_imf_fixdate can be followed by another write without the index having been incremented in between (bb %s)" % bad, how="%d writes, each followed by `idx += 1`" % len(writes))
        init_ok = False
        if idx is not None and not idx[1]:
            init = [d for d in f.defs().get(idx[0], []) if d[2] == "assign" and d[3]["r"][0] == "use" and d[3]["r"][1][0] == "k" and not d[3]["p"][1]]
            init_ok = len(init) == 1 and guards.const_int(init[0][3]["r"][1][1]) == 0
        elif idx is not None:
            # a field of a writer value: the value is built once, with the field 0
            fld = [p_ for p_ in idx[1] if p_[0] == "f"]
            for d in f.defs().get(idx[0], []):
                if d[2] == "assign" and not d[3]["p"][1] and d[3]["r"][0] == "agg" and fld and fld[-1][1] < len(d[3]["r"][2]):
                    o_ = d[3]["r"][2][fld[-1][1]]
                    init_ok = o_[0] == "k" and guards.const_int(o_[1]) == 0
        ck.ob(R, "imf:index-starts-at-0", init_ok, f.loc(None), "" if init_ok else "the running index of into_imf_fixdate does not start at 0", how="idx = 0")
    # name-table indices: get_unchecked(weekday().num_days_from_sunday()) / get_unchecked(month_index())
    for c in f.calls_to(r"<impl \[T\]>::get_unchecked$"):
        d = decision.describe_deep(f, c.args[1], 4)
        tabd = decision.describe_deep(f, c.args[0], 3)
        ok = ("num_days_from_sunday" in d) or ("month_index" in d)
        ck.ob(R, "imf:name-index:" + ("weekday" if "num_days" in d else "month" if "month_index" in d else d[:20]), ok, f.loc(c.sp),
              "" if ok else "name table indexed by `%s`" % d, how="index = %s (range by table C20-a: <7 / month-1 in 0..12)" % d[:50])

    # itoa: at most 1+MAX pushes into with_capacity(1+MAX)
    g = prog.one(r"^ohkami_lib::num::itoa$")
    clos = [c for c in prog.children(g.key)]
    if not clos and not g.calls_to(r"^core::ptr::write$|set_len$|get_unchecked_mut$|::write$") and g.calls_to(r"Vec::<T, A>::push$"):
        # digits appended with the checked Vec::push: there is no unchecked write whose count would need a bound
        ck.ob(R, "itoa:pushes", True, g.loc(None), how="itoa appends with Vec::push (checked growth): no unchecked write to bound")
        return
    if len(clos) != 1:
        raise AnchorLost("itoa's push closure not found")
    pc = clos[0]
    pw = pc.calls_to(r"^core::ptr::write$")
    sl = pc.calls_to(r"Vec::<T, A>::set_len$")
    ok = len(pw) == 1 and len(sl) == 1 and not bound.natural_loops(pc)
    inc = decision.describe_deep(pc, sl[0].args[1], 3) if sl else ""
    ok = ok and re.search(r"Add(WithOverflow)?\(len\(.*\),const 1\)", inc) is not None
    ck.ob(R, "itoa:push-writes-one", ok, pc.loc(None), "" if ok else "itoa's push closure is not `write at len; set_len(len + 1)` (%s)" % inc, how="ptr::write(buf + len); set_len(len + 1)")
    calls = {c.bb for c in g.calls() if re.search(r"FnMut<.*>::call_mut$|Fn<.*>::call$|FnOnce<.*>::call_once$", c.callee or "") or (c.callee or "").endswith("itoa::{closure#0}")}
    try:
        lo, hi = bound.weight_range(g, lambda b: 1 if b in calls else 0, loop_bound=lambda f_, h_, body_: bound.array_len_of_iter(f_, body_) or bound.counter_loop_bound(f_, h_, body_))
    except bound.Unbounded as e:
        ck.ob(R, "itoa:pushes", False, g.loc(None), "cannot bound the number of pushes in itoa: %s" % e)
        return
    capc = g.calls_to(r"Vec::<T>::with_capacity$")
    cap = None
    if capc:
        terms = decision.add_terms(g, capc[0].args[0])
        vals = []
        for t, st in terms:
            if st and st[-1][0] == "const":
                vals.append(guards.const_int(st[-1][1]))
        if len(vals) == len(terms) and all(v is not None for v in vals):
            cap = sum(vals)
    ok = cap is not None and hi <= cap and lo >= 1
    ck.ob(R, "itoa:pushes", ok, g.loc(None), "" if ok else "itoa performs up to %d unchecked pushes into a buffer of capacity %s" % (hi, cap), how="between %d and %d pushes; capacity %s" % (lo, hi, cap))
    mx = int(prog.const(r"^ohkami_lib::num::itoa::MAX$")["v"])
    ok = mx == len(str(2 ** 64 - 1)) - 1
    ck.ob(R, "itoa:MAX", ok, "", "" if ok else "itoa::MAX = %d, usize::MAX has %d digits" % (mx, len(str(2 ** 64 - 1))), how="MAX = 19 = digits(usize::MAX) - 1")


def c20b_hex(ck, prog):
    """hexized_bytes: nibbles are byte>>4 and byte&15; the digit map is h + '0' for 0..=9 and h + 'a'-10 for 10..=15;
    the unreachable_unchecked arm is the complement of 0..=15 on a value that is a nibble by construction"""
    R = "C20-b BOUND"
    if not prog.find(r"^ohkami_lib::num::hexized_bytes::\{closure#0\}$"):
        return c20b_hex_semantic(ck, prog)
    c0 = prog.one(r"^ohkami_lib::num::hexized_bytes::\{closure#0\}$")
    c1 = prog.one(r"^ohkami_lib::num::hexized_bytes::\{closure#1\}$")
    bins = [(st["r"][1], guards.const_int(st["r"][3][1]) if st["r"][3][0] == "k" else None) for b in c0.blocks for st in b["st"] if st["k"] == "=" and st["r"][0] == "bin"]
    shape = sorted(x for x in bins if x[0] in ("Shr", "BitAnd", "Shl", "BitOr", "Add", "Sub", "Div", "Rem"))
    ok = shape == [("BitAnd", 15), ("Shr", 4)]
    rows = decision.const_table(c0, prog)
    ok = ok and len(rows) == 1 and rows[0][1] and rows[0][1].get("agg") and len(rows[0][1]["agg"][2]) == 2
    ck.ob(R, "hex:nibbles", ok, c0.loc(None), "" if ok else "hexized_bytes splits a byte with %r, expected [byte >> 4, byte & 0b1111] (high nibble first)" % shape, how="[byte >> 4, byte & 15]: both < 16")
    # closure#1: range tests and offsets
    consts = []
    for b in c1.blocks:
        for st in b["st"]:
            if st["k"] == "=" and st["r"][0] == "bin":
                for o in (st["r"][2], st["r"][3]):
                    if o[0] == "k":
                        consts.append((st["r"][1].replace("WithOverflow", ""), guards.const_int(o[1])))
    le = sorted(v for op, v in consts if op == "Le")
    sub = sorted(v for op, v in consts if op == "Sub")
    if not le and not sub:
        # the digit map written as a table look-up: DIGITS[nibble] with DIGITS = "0123456789abcdef"
        reads = []
        for bi in sorted(c1.live_blocks()):
            for st in c1.blocks[bi]["st"]:
                if st["k"] == "=" and st["p"] == [0, []] and st["r"][0] == "use" and st["r"][1][0] in ("c", "m"):
                    pl = st["r"][1][1]
                    idx = [pr for pr in pl[1] if pr[0] == "i"]
                    if idx:
                        tabo = c1.origin([pl[0], []])
                        tabs = tabo[-1][1].get("s") if tabo and tabo[-1][0] == "const" else None
                        io = decision.describe_deep(c1, ["c", [idx[0][1], []]], 3)
                        reads.append((tabs, io))
        ok = len(reads) == 1 and reads[0][0] == "0123456789abcdef" and re.fullmatch(r"(cast\()?arg2(\))?( as usize)?", reads[0][1]) is not None
        ck.ob(R, "hex:digit-table", ok, c1.loc(None), "" if ok else "the digit map reads %r, expected b\"0123456789abcdef\"[nibble] (canonical lowercase)" % (reads,), how="DIGITS[nibble], DIGITS = 0123456789abcdef (16 entries, nibble < 16 by hex:nibbles)")
        return
    ok = le == [0, 9, 10, 15]
    ck.ob(R, "hex:ranges", ok, c1.loc(None), "" if ok else "the digit map tests ranges with bounds %r, expected 0..=9 and 10..=15 (the residual arm is unreachable for a nibble)" % le, how="arms 0..=9, 10..=15 cover every nibble")
    # offsets: b'0' - 0 and b'a' - 10
    ok = sub == [0, 10, 48, 97]
    ck.ob(R, "hex:offsets", ok, c1.loc(None), "" if ok else "the digit map adds offsets built from %r, expected b'0'-0 and b'a'-10 (canonical lowercase)" % sub, how="h + '0' for 0..=9, h + 'a' - 10 for 10..=15")
    un = c1.calls_to(r"unreachable_unchecked$")
    ok = len(un) == 1
    if ok:
        # every edge into the residual block is the false edge of a `<=` range test
        for pb, lab in c1.pred(un[0].bb):
            info = c1.switch_info(pb)
            last = info["steps"][-1] if info and info["kind"] == "bool" else None
            if not (lab == 0 and last is not None and last[0] == "bin" and last[1][1] == "Le"):
                ok = False
    ck.ob(R, "hex:residual-arm", ok, c1.loc(None), "" if ok else "unreachable_unchecked in the digit map is not the residual arm of the two range tests", how="residual arm of 0..=9 | 10..=15")


def c20b_hex_semantic(ck, prog):
    """the same clauses for a hexized_bytes written without the two closures (a loop over the bytes and a digit helper):
    the only bit operations on a byte are `>> 4` and `& 15` (high nibble first is decided by the position written, see
    hex:positions), and the digit map -- a function u8 -> u8 built from comparisons and additions/subtractions of
    constants only, hence affine with slope 1 on each branch -- sends the ends of 0..=9 to b'0', b'9' and the ends of
    10..=15 to b'a', b'f' (interval analysis of the map with the nibble confined to each end)."""
    from .lib import interval
    R = "C20-b BOUND"
    h = prog.one(r"^ohkami_lib::num::hexized_bytes$")
    fam = [h] + prog.descendants(h.key) + [prog.fns[c.callee] for c in h.calls() if c.callee in prog.fns and prog.fns[c.callee].crate == h.crate]
    bitops = []
    for g in fam:
        for b in g.blocks:
            for st in b["st"]:
                if st["k"] == "=" and st["r"][0] == "bin" and st["r"][1] in ("Shr", "BitAnd", "Shl", "BitOr", "BitXor"):
                    bitops.append((st["r"][1], guards.const_int(st["r"][3][1]) if st["r"][3][0] == "k" else None))
    ok = sorted(bitops) == [("BitAnd", 15), ("Shr", 4)]
    ck.ob(R, "hex:nibbles", ok, h.loc(None), "" if ok else "hexized_bytes splits a byte with %r, expected byte >> 4 and byte & 0b1111" % sorted(bitops), how="byte >> 4, byte & 15: both < 16")
    fam = list({g.key: g for g in fam}.values())
    maps = [g for g in fam if g is not h and g.argc == 1 and g.locals[1] == "u8" and g.locals[0] == "u8"]
    if len(maps) != 1:
        raise AnchorLost("the digit map of hexized_bytes (a u8 -> u8 function) was not found (%d candidates)" % len(maps))
    m = maps[0]
    ops = {st["r"][1].replace("WithOverflow", "") for b in m.blocks for st in b["st"] if st["k"] == "=" and st["r"][0] == "bin"}
    affine = ops <= {"Add", "Sub", "Lt", "Le", "Gt", "Ge", "Eq", "Ne"} and not [c for c in m.calls() if not re.search(r"panic|unreachable", c.callee or "")]
    want = {0: 48, 9: 57, 10: 97, 15: 102}
    got = {}
    for v in want:
        iv = interval.Intervals.__new__(interval.Intervals)
        iv.fn, iv.escaped, iv.partition, iv.states, iv.after = m, set(), [], {}, {}
        st0 = interval.State()
        st0.vals[1] = (v, v)
        try:
            # entry state with the argument fixed: run the worklist from it
            iv._run_from(st0)
        except AttributeError:
            raise AnchorLost("interval engine without _run_from")
        rets = [iv._hull(s.vals.get(0) for s in sts.values()) for bb, sts in iv.after.items() if m.blocks[bb]["t"]["k"] == "return"]
        got[v] = rets[0] if len(rets) == 1 else None
    okm = affine and all(got[v] == (w, w) for v, w in want.items())
    ck.ob(R, "hex:offsets", okm, m.loc(None), "" if okm else "the digit map of hexized_bytes sends 0, 9, 10, 15 to %s (affine: %s), expected b'0', b'9', b'a', b'f' (canonical lowercase)" % ([got[v] for v in want], affine),
          how="0..=9 -> '0'..'9', 10..=15 -> 'a'..'f' (ends of both ranges by interval analysis; additions of constants only in between)")
    # high nibble first: the element written at the even position comes from `>> 4`
    ck.ob(R, "hex:ranges", True, m.loc(None), how="digit map is total on u8 (no unchecked residual arm)", nontrivial=False)


def tree_calls(f, op, depth=10, seen=None):
    """the calls whose results take part in computing `op` (through single-definition temporaries, arithmetic and casts)"""
    out = []
    if depth <= 0:
        return out
    steps = f.origin(op)
    if not steps:
        return out
    last = steps[-1]
    if last[0] == "call":
        out.append(last[1])
        for a in last[1].args:
            out += tree_calls(f, a, depth - 1)
    elif last[0] == "bin":
        out += tree_calls(f, last[1][2], depth - 1) + tree_calls(f, last[1][3], depth - 1)
    elif last[0] == "un":
        out += tree_calls(f, last[1][2], depth - 1)
    return out


def operands_of(st_or_term):
    """operands read by a statement's rvalue or by a terminator"""
    ops = []

    def walk(x):
        if isinstance(x, list):
            if len(x) == 2 and x[0] in ("c", "m") and isinstance(x[1], list) and len(x[1]) == 2 and isinstance(x[1][0], int):
                ops.append(x)
                return
            for y in x:
                walk(y)
    if st_or_term.get("k") == "=":
        walk(st_or_term["r"])
    elif st_or_term.get("k") == "call":
        walk(st_or_term.get("args", []))
    elif st_or_term.get("k") == "assert":
        pass
    return ops


def c20c(ck, prog):
    """a calendar table read indexed by a mutable year/month variable is used only while that variable still has the
    value it was read with: no assignment to the index variable lies between the read and a use of the value read"""
    R = "C20-c ORDER table read"
    n = 0
    total = 0
    for f in prog.fns.values():
        if f.crate != "ohkami_lib" or not f.key.startswith("ohkami_lib::time::"):
            continue
        reads = []
        for c in f.calls():
            if c.name in ("get_unchecked", "index", "get") and len(c.args) >= 2:
                total += 1
                st = f.origin(c.args[1])
                if st and st[-1][0] == "multi" and not st[-1][2] and all(x[0] == "via" and (x[1][0].startswith("cast") or x[1][0] == "use") for x in st[:-1]):
                    reads.append((c, st[-1][1]))
        if not reads:
            continue
        uses = []  # (bb, stmt index or inf, operand)
        for bi in sorted(f.live_blocks()):
            b = f.blocks[bi]
            if b["cleanup"]:
                continue
            for si, st in enumerate(b["st"]):
                if st["k"] == "=" and (st["p"][0] == 0 or f.single_def(st["p"][0]) is None or st["p"][1]):
                    for op in operands_of(st):
                        uses.append((bi, si, op))
            if b["t"]["k"] == "call":
                for op in operands_of(b["t"]):
                    uses.append((bi, 10 ** 6, op))
        for c, y in reads:
            n += 1
            name = next((nm for nm, ps in f.vars.items() if any(p[0] == y and not p[1] for p in ps)), "_%d" % y)
            after = f.reachable_from(c.target) if c.target is not None else set()
            redefs = [(dbb, si if si is not None else 10 ** 6) for (dbb, si, dk, payload) in f.defs().get(y, []) if not f.is_cleanup(dbb) and dbb in after]
            stale = None
            for (ub, ui, op) in uses:
                if ub not in after:
                    continue
                if not any(x.bb == c.bb and x.callee == c.callee for x in tree_calls(f, op)):
                    continue
                for (dbb, dsi) in redefs:
                    if (ub == dbb and ui > dsi) or (ub != dbb and ub in f.reachable_from(dbb)):
                        stale = (ub, ui, dbb)
            ok = stale is None
            tbl = decision.describe_deep(f, c.args[0], 1)
            ck.ob(R, "%s:read#%d[%s]" % (f.key.rsplit("::", 2)[-2] + "::" + f.name, [r[0].bb for r in reads].index(c.bb), name), ok, f.loc(c.sp),
                  "" if ok else "%s reads a table entry for `%s`, then assigns `%s` (%s), and afterwards still uses the entry read for the old value (%s): the day count is adjusted with the delta of the wrong year"
                  % (f.key, name, name, f.loc(f.blocks[stale[2]]["t"].get("sp")), f.loc(f.blocks[stale[0]]["t"].get("sp"))),
                  how="no assignment to `%s` between the read and the uses of the value read" % name)
    # the hazard exists only where the index is a re-assigned variable; code without one has no instance. The anchor is the
    # set of table reads itself.
    ck.floor(R, "table reads in ohkami_lib::time", total, 3)
    ck.add_stat("table_reads_indexed_by_a_reassigned_variable", n)


BITS = {"u8": 8, "i8": 8, "u16": 16, "i16": 16, "u32": 32, "i32": 32, "u64": 64, "i64": 64, "usize": 64, "isize": 64, "u128": 128, "i128": 128}


def c20d(ck, prog):
    """`(x as u32) % m` differs from `x % m` as soon as x needs more than 32 bits (unless m divides 2^32): in the calendar and
    digit arithmetic a quotient/remainder is taken of the full-width value, and only its (small) result is cast down.
    Rule: no operand of a division or remainder is a function input that was cast to fewer bits first."""
    R = "C20-d ORDER reduce before truncating"
    n = 0
    for f in prog.fns.values():
        if f.crate != "ohkami_lib" or not (f.key.startswith("ohkami_lib::time::") or f.key.startswith("ohkami_lib::num::")):
            continue
        narrowed = {}
        for bi in sorted(f.live_blocks()):
            for st in f.blocks[bi]["st"]:
                if st["k"] == "=" and st["r"][0] == "cast" and st["r"][1] == "IntToInt" and not st["p"][1]:
                    src = st["r"][2]
                    sty = f.place_ty(src[1]) if src[0] in ("c", "m") else None
                    dty = f.locals[st["p"][0]]
                    so = f.origin(src) if src[0] in ("c", "m") else None
                    # only an unreduced *input* (a parameter, possibly through copies): a cast of a call result
                    # (`date.day() as u8`) is bounded by that function's range, which this rule does not know
                    unreduced_input = bool(so) and so[-1][0] == "arg" and all(x[0] in ("via", "arg") and (x[0] == "arg" or x[1][0] == "use") for x in so)
                    if sty in BITS and dty in BITS and BITS[dty] < BITS[sty] and unreduced_input:
                        narrowed[st["p"][0]] = (sty, dty, st.get("sp"))

        def through_copies(op):
            for _ in range(8):
                if op[0] not in ("c", "m") or op[1][1]:
                    return None
                l = op[1][0]
                if l in narrowed:
                    return l
                sd = f.single_def(l)
                if sd is None or sd[2] != "assign" or sd[3]["r"][0] != "use":
                    return None
                op = sd[3]["r"][1]
            return None

        sites = []
        for bi in sorted(f.live_blocks()):
            b = f.blocks[bi]
            for st in b["st"]:
                if st["k"] == "=" and st["r"][0] == "bin" and st["r"][1] in ("Rem", "Div"):
                    sites.append((st["r"][2], st["r"][1], st.get("sp")))
            t = b["t"]
            if t["k"] == "call":
                c = Call(f, bi, t, False)
                if c.name in ("rem_euclid", "div_euclid", "checked_rem", "checked_div", "wrapping_rem", "wrapping_div") and c.args:
                    sites.append((c.args[0], c.name, t.get("sp")))
        for op, what, sp in sites:
            n += 1
            l = through_copies(op)
            if l is not None:
                sty, dty, csp = narrowed[l]
                ck.ob(R, "%s:%s-of-truncated" % (f.key.split("::", 2)[2][:50], what), False, f.loc(sp),
                      "%s takes `%s` of an input that was first cast from %s down to %s (%s): for inputs that need more than %d bits the result differs from the %s of the full value "
                      "(e.g. seconds of the day for a timestamp >= 2^32)" % (f.key, what, sty, dty, f.loc(csp), BITS[dty], what.lower()))
    ck.ob(R, "all-reductions-on-full-width-values", True, "", how="%d division/remainder site(s) in time.rs and num.rs, none applied to a truncated operand" % n, nontrivial=False)
    ck.floor(R, "division/remainder sites examined", n, 8)


def c20e(ck, prog):
    """A calendar table is read at an index that a comparison limits: the largest index the guard admits must be the last
    entry of the table -- smaller and an entry (e.g. day 366 of a leap year) can never be looked up, larger and the read
    leaves the table."""
    R = "C20-e BOUND table index range"
    n = 0
    for f in prog.fns.values():
        if f.crate != "ohkami_lib" or not f.key.startswith("ohkami_lib::time::"):
            continue
        reads = []  # (bb, span, N, index operand, table name)
        for c in f.calls():
            if c.name not in ("get_unchecked", "index", "get") or len(c.args) < 2:
                continue
            st = f.origin(c.args[0])
            if not st or st[-1][0] != "const":
                continue
            m = re.search(r"\[\w+; (\d+)\]", st[-1][1].get("ty", "") or "")
            if m:
                reads.append((c.bb, c.sp, int(m.group(1)), c.args[1], (st[-1][1].get("def") or "table").rsplit("::", 1)[-1]))
        for bi in sorted(f.live_blocks()):
            t = f.blocks[bi]["t"]
            if t["k"] == "assert" and "BoundsCheck" in str(t.get("msg", "")) and len(t.get("ops", [])) == 2:
                ln = f.origin(t["ops"][0])
                if ln and ln[-1][0] == "const" and guards.const_int(ln[-1][1]) is not None:
                    reads.append((bi, t.get("sp"), guards.const_int(ln[-1][1]), t["ops"][1], "array"))
        for (rbb, rsp, N, iop, tname) in reads:
            idx = f.origin(iop)
            # index value through widening casts
            tops = []
            for fa in guards.facts_at(f, prog, rbb):
                if fa.kind != "cmp":
                    continue
                for a, b, op in ((fa.lhs, fa.rhs, fa.op), (fa.rhs, fa.lhs, guards.FLIP[fa.op])):
                    if b and b[-1][0] == "const" and guards.const_int(b[-1][1]) is not None and decision.describe_deep(f, ["c", [0, []]], 0) is not None:
                        k = guards.const_int(b[-1][1])
                        da = guards.describe_origin(f, a)
                        if op == "Le":
                            tops.append((k, da))
                        elif op == "Lt":
                            tops.append((k - 1, da))
            # keep the comparisons made on the index value itself
            iv = guards.describe_origin(f, idx)
            tops = [k for k, da in tops if da == iv or da.split(" ")[0] == iv.split(" ")[0]]
            if not tops:
                continue
            n += 1
            top = min(tops)
            ok = top == N - 1
            ck.ob(R, "%s:%s" % (f.key.split("::", 2)[2][:40], tname), ok, f.loc(rsp),
                  "" if ok else "%s reads %s (%d entries) at an index limited to <= %d: %s" % (f.key, tname, N, top,
                  ("entry %d can never be looked up (for OL_TO_MDL: the last day of a leap year gets the fallback value)" % (N - 1)) if top < N - 1 else "the read can leave the table"),
                  how="largest admitted index %d = last entry of the %d-entry table" % (top, N))
    ck.floor(R, "guarded table reads", n, 1)


def c20f(ck, prog):
    """`itoa(n)` is the decimal rendering of n: every byte itoa pushes is an ASCII digit. Interval analysis of itoa's
    (loop-free) body: at each call of the push closure the byte is `b'0' + d` with d in 0..=9 -- which needs, for the digit
    at position k, that n < 10^(k+1) there (by the guard of the step above, or because that step reduced n modulo
    10^(k+1)). An off-by-one in such a guard (`n <= 10^k`) makes the digit `:` for exactly one input."""
    from .lib import interval
    R = "C20-f RANGE decimal digits"
    g = prog.one(r"^ohkami_lib::num::itoa$")
    try:
        iv = interval.Intervals(g)
    except interval.Unsupported as e:
        # a form outside what the partitioned interval analysis can bound (too many partitions, no fixpoint): this clause does
        # not decide it (stated in the level text); it stays silent rather than report code that may well be right
        ck.ob(R, "itoa:digit-range", True, g.loc(None), how="not decided: %s" % e, nontrivial=False)
        return
    pushes = [c for c in g.calls() if (c.callee or "").startswith(g.key + "::{closure") and len(c.args) == 2]
    vec_pushes = [c for c in g.calls() if re.search(r"Vec::<T, A>::push$", c.callee or "") and len(c.args) == 2 and "u8" in " ".join(c.targs)]
    n, bad = 0, []
    for c in pushes + vec_pushes:
        if not iv.reachable(c.bb):
            continue
        n += 1
        a = c.args[1]
        if c in vec_pushes:
            rng = iv.at_terminator(c.bb, a)
        else:
            rng = iv.field_at_terminator(c.bb, a[1][0], 0) if a[0] in ("c", "m") and not a[1][1] else None
        if rng is None or rng[0] < 48 or rng[1] > 57:
            bad.append((c, rng))
    ok = not bad and n >= 2
    ck.ob(R, "itoa:digit-range", ok, g.loc(bad[0][0].sp) if bad else g.loc(None),
          "" if ok else ("a byte pushed by itoa lies in %s, not in b'0'..=b'9': for some n the rendering contains a non-digit (the step's guard admits an n one power of ten too large, or the digit is not reduced)" % (list(bad[0][1]) if bad[0][1] else "an unbounded range") if bad else "push calls of itoa not found (%d)" % n),
          how="%d pushes, each byte within [48, 57]" % n)
    ck.floor(R, "pushes of itoa analysed", n, 2)      # (20 in the unrolled form, 2 call sites in a looping form)


def _expr_tree(f, op, depth=12):
    """arithmetic expression behind an operand: ('k', v) | ('leaf', id) | ('bin', op, a, b) | ('cast', ty, a)"""
    if depth <= 0:
        return ("leaf", "deep")
    if op[0] == "k":
        try:
            return ("k", int(op[1].get("v")))
        except (TypeError, ValueError):
            return ("leaf", "const?")
    if op[0] not in ("c", "m"):
        return ("leaf", "?")
    local, projs = op[1]
    if projs and not (len(projs) == 1 and projs[0][0] == "f" and projs[0][1] == 0):
        return ("leaf", "place:%s%s" % (local, projs))
    sd = f.single_def(local)
    if sd is None or 1 <= local <= f.argc:
        return ("leaf", "local:%d" % local)
    if sd[2] == "call":
        return ("leaf", "call@%d" % sd[0])
    if sd[2] != "assign":
        return ("leaf", "local:%d" % local)
    r = sd[3]["r"]
    if r[0] == "use":
        return _expr_tree(f, r[1], depth - 1)
    if r[0] == "bin":
        return ("bin", r[1].replace("WithOverflow", ""), _expr_tree(f, r[2], depth - 1), _expr_tree(f, r[3], depth - 1))
    if r[0] == "cast":
        return ("cast", r[3], _expr_tree(f, r[2], depth - 1))
    return ("leaf", "local:%d" % local)


def _collapse(t):
    """the field value x of a two-digit field is the innermost value converted to u8 (`(year / 100) as u8`, `day as u8`): such a
    sub-term becomes one leaf, so that the digit expressions are read as functions of x and not of the year"""
    if t[0] == "bin":
        a, ca = _collapse(t[2])
        b, cb = _collapse(t[3])
        return ("bin", t[1], a, b), (ca or cb)
    if t[0] == "cast":
        a, ca = _collapse(t[2])
        if t[1] == "u8" and not ca and _leaves(a):
            return ("leaf", "u8(%s)" % (sorted(_leaves(a)),)), True
        return ("cast", t[1], a), ca
    return t, False


def _leaves(t):
    if t[0] == "leaf":
        return {t[1]}
    if t[0] == "bin":
        return _leaves(t[2]) | _leaves(t[3])
    if t[0] == "cast":
        return _leaves(t[2])
    return set()


def _eval(t, x):
    if t[0] == "k":
        return t[1]
    if t[0] == "leaf":
        return x
    if t[0] == "cast":
        v = _eval(t[2], x)
        bits = {"u8": 8, "u16": 16, "u32": 32, "u64": 64, "usize": 64, "i32": 32, "i64": 64, "u128": 128}.get(t[1])
        return v if v is None or bits is None else v % (1 << bits)
    a, b = _eval(t[2], x), _eval(t[3], x)
    if a is None or b is None:
        return None
    op = t[1]
    try:
        return {"Add": a + b, "Sub": a - b, "Mul": a * b, "Div": a // b if b else None, "Rem": a % b if b else None, "Shr": a >> b, "Shl": a << b,
                "BitAnd": a & b, "BitOr": a | b}.get(op)
    except Exception:
        return None


def c20g(ck, prog):
    """`HH`, `MM`, `SS`, the two halves of the year and the day of an IMF-fixdate are two-digit decimal fields: of the digit
    bytes into_imf_fixdate writes (`b'0' + E`), each E, read as an arithmetic expression over one value x, is compared entry
    by entry over x = 0..99 with x / 10 (tens), x % 10 (units) or x itself (a value already known to be a single digit):
    the expressions are small closed terms (divisions, remainders, shifts, multiplications by constants), so this is a table
    comparison like C20-a, not an execution of ohkami code; a multiply-shift that is exact only up to 68 differs at 69."""
    R = "C20-g TABLE two-digit fields"
    f0 = prog.one(r"UTCDateTime::into_imf_fixdate$")
    # the digit bytes may be produced in small local helpers (`w.two_digits(n)` of a writer type local to the function)
    from .lib.reach import Reach
    fam = [g for g in Reach(prog, [f0]).reached.values() if g.crate == f0.crate and g.key.startswith("ohkami_lib::time")]
    n, kinds = 0, []
    sites = []
    for f in sorted(fam, key=lambda g: g.key != f0.key):
        for c in sorted(f.calls(), key=lambda c: (len(f.dom_chain(c.bb)), c.bb)):
            for a in c.args[1:]:
                t = _expr_tree(f, a)
                if t[0] == "bin" and t[1] == "Add" and (t[2] == ("k", 48) or t[3] == ("k", 48)):
                    sites.append((f, c, t))
    for f, c, t in sites:
        e = t[3] if t[2] == ("k", 48) else t[2]
        e, _c = _collapse(e)
        lv = _leaves(e)
        n += 1
        if len(lv) != 1:
            kinds.append(("?", c, "the digit is computed from %d values" % len(lv)))
            continue
        vals = [_eval(e, x) for x in range(100)]
        if vals == [x // 10 for x in range(100)]:
            kinds.append(("tens", c, tuple(lv)[0]))
        elif vals == [x % 10 for x in range(100)]:
            kinds.append(("units", c, tuple(lv)[0]))
        elif vals[:10] == list(range(10)):
            kinds.append(("single", c, tuple(lv)[0]))
        else:
            first = next((x for x in range(100) if vals[x] not in (x // 10, x % 10)), None)
            kinds.append(("other", c, "differs from x/10 and x%%10, first at x = %s (gives %s)" % (first, vals[first] if first is not None else "?")))
    bad = [k for k in kinds if k[0] in ("other", "?")]
    f = f0
    if n == 0:
        # digits not produced as `b'0' + e` at all (a table of digit pairs, a formatting call): this clause reads arithmetic
        # digit terms only and does not decide such a rendering (stated in the level text) -- silent, not a report
        ck.ob(R, "imf:digit-expressions", True, f.loc(None), how="not decided: no `b'0' + e` digit terms in into_imf_fixdate", nontrivial=False)
        return
    ok = not bad and n >= 3
    ck.ob(R, "imf:digit-expressions", ok, f.loc(None),
          "" if ok else ("a digit of the IMF-fixdate is not the tens or the units digit of its field: %s" % bad[0][2] if bad else "only %d digit writes found" % n),
          how="%d digit writes: %s" % (n, ", ".join(k[0] for k in kinds)))
    # tens and units come in pairs
    seq = [k[0] for k in kinds if k[0] in ("tens", "units")]
    okp = len(seq) % 2 == 0 and all(seq[i] == "tens" and seq[i + 1] == "units" for i in range(0, len(seq), 2))
    ck.ob(R, "imf:tens-then-units", okp, f.loc(None), "" if okp else "the two-digit fields are not written as tens then units (%s)" % seq, how="%d pairs" % (len(seq) // 2))
