"""Summaries of external (non-workspace) callees reached from analysed roots (assumption A3).
Each line: regex on the resolved def path -> (class, reason). Classes:
  total     returns normally for every argument (OOM/abort on allocation failure excluded)
  panics    may panic for some arguments: reaching it is a sink that needs a guard
std/core/alloc callees not listed here are `total` unless rules/lib/reach.py MAY_PANIC names them.
A reached callee of any other crate without a line here fails the check (fail closed)."""

EXTERN = [
    # byte_reader 3.1 (read in full, 228 lines; the thorough tier analyses it with the driver as well)
    (r"^byte_reader::Reader::<'r>::(new|remaining|peek|peek2|peek3|next|next_if|advance_by|unwind_by)$", "total", "index arithmetic bounded by size/index; min() clamps"),
    (r"^byte_reader::Reader::<'r>::(skip_while|skip_whitespace|read_while|read_until|consume|consume_oneof)$", "total", "every get_unchecked range is bounded by a preceding `<= self.size` test or by the counted prefix"),
    (r"^byte_reader::Reader::<'r>::(read_camel|read_snake|read_kebab)$", "total", "from_utf8_unchecked on bytes matched against ASCII letter classes"),
    (r"^byte_reader::Reader::<'r>::read_quoted_by$", "total", "`remaining()[1..]` after peek()? returned Some; `get(eoq)?` is checked"),
    (r"^byte_reader::Reader::<'r>::(read_uint|read_int)$", "panics", "documented: panics (debug) / wraps (release) if the literal exceeds the integer range; prefix parser"),
    # percent-encoding 2.3
    (r"^percent_encoding::(percent_decode|percent_decode_str|utf8_percent_encode|percent_encode|percent_encode_byte)$", "total", "constructors of lazy iterators"),
    (r"^percent_encoding::PercentDecode::<'a>::(decode_utf8|decode_utf8_lossy|if_any)$", "total", "returns Result / Cow; hex parsing is checked"),
    (r"^<percent_encoding::PercentDecode<'a> as core::convert::From|^<percent_encoding::PercentEncode<'a> as ", "total", "iterator / conversion impls"),
    (r"^percent_encoding::ascii_set::AsciiSet::(add|remove|contains)$", "total", "bit set over 0..128, index masked"),
    (r"^<alloc::borrow::Cow<'a, \[u8\]> as core::convert::From<percent_encoding::PercentDecode<'a>>>::from$", "total", ""),
    # serde / serde_json value adapters
    (r"^serde_core::de::value::", "total", "plain wrappers around the given value"),
    (r"^serde_core::de::impls::|^serde_core::ser::impls::", "total", "std Deserialize/Serialize impls: errors are returned"),
    (r"^serde_core::(de|ser)::(Error|Expected|Unexpected)", "total", "error constructors"),
    (r"^serde_core::__private|^serde_core::private|^serde::__private|^serde::private", "total", "derive support code; errors are returned"),
    (r"^serde_json::(from_slice|from_str|to_vec|to_string|to_value|from_value|to_writer)$", "total", "return Result"),
    (r"^serde_json::(value|map|ser|de|error|number)::", "total", "Value accessors return Option / Result"),
    (r"^<serde_json::", "total", "trait impls of serde_json types: accessors, conversions"),
    # base64 0.22
    (r"^base64::engine::Engine::(encode|decode|encode_string|decode_vec)$", "total", "decode returns Result; encode is total"),
    (r"^<base64::engine::general_purpose::GeneralPurpose as base64::engine::Engine>::", "total", ""),
    # hmac / sha2 / digest
    (r"^hmac::|^<hmac::|^digest::|^<digest::|^sha2::|^<sha2::|^crypto_common::|^<crypto_common::|^<[^>]* as (digest|crypto_common|hmac)::", "total", "fixed-size block arithmetic; new_from_slice returns Result (InvalidLength never for HMAC)"),
    (r"^generic_array::|^<generic_array::", "total", "typed fixed-size arrays"),
    # tokio / futures: IO traits used by request reading and response sending
    (r"^tokio::io::util::async_(read|write)_ext::Async(Read|Write)Ext::", "total", "construct futures; errors are io::Result"),
    (r"^<tokio::io::util::", "total", "futures returning io::Result"),
    (r"^tokio::|^<tokio::", "total", "runtime API: errors are returned; panics only outside a runtime context (configuration error, not input)"),
    (r"^futures_core::|^<futures_core::|^futures_util::|^<futures_util::", "total", "stream/future combinators"),
    (r"^async_std::io::(read::ReadExt|write::WriteExt)::|^<async_std::io::", "total", "construct futures; errors are io::Result"),
    (r"^async_std::|^<async_std::|^smol::|^<smol::|^async_io::|^<async_io::|^async_net::|^<async_net::|^async_executor::|^futures_lite::|^<futures_lite::", "total", "runtime API: errors are returned"),
    (r"^futures_util::io::(AsyncReadExt|AsyncWriteExt)::|^<futures_util::io::|^futures_io::", "total", "construct futures; errors are io::Result"),
    (r"^glommio::|^<glommio::|^nio::|^<nio::", "total", "runtime API: errors are returned"),
    (r"^mews::|^<mews::", "total", "websocket crate: not on the analysed paths of the claimed clauses"),
    (r"^ctrlc::", "total", "signal handler registration returns Result"),
]
