"""Audit entries shared by several properties: ohkami's own unsafe helper types (Slice, CowSlice, IndexMap)."""

LIFETIME = ("Slice is a raw (pointer, length) pair whose validity is an ownership/lifetime contract, not a value condition: every Slice "
            "is created by Slice::from_bytes/new_unchecked from a live slice (a Request's pinned buffer, a 'static str, or an owned Box) and "
            "read only while its owner is alive. No branch guard can establish that; recorded as a trusted reason")

COMMON = [
    {"fn": r".", "sink": r"^unsafe-call:ohkami_lib::slice::(Slice::as_bytes|CowSlice::as_bytes|CowSlice::extend_from_slice|CowSlice::into_cow_static_bytes_uncheked)$",
     "guards": [{"kind": "reason", "reason": LIFETIME}], "reason": "lifetime contract"},
    {"fn": r"^ohkami_lib::slice::Slice::from_bytes$", "sink": r"^unsafe-call:core::ptr::non_null::NonNull::<T>::new_unchecked$",
     "guards": [{"kind": "operand", "which": "arg0", "from": {"call": r"::as_ptr$"}}],
     "reason": "the pointer of a slice reference is never null"},
    # IndexMap<N, V>::{get,get_mut,set,delete}(index): index < N; callers index with `enum as usize`
    {"fn": r".", "sink": r"^unsafe-call:ohkami::header::map::IndexMap::<N, Value>::(get|get_mut|set|delete)$",
     "guards": [{"kind": "enum_index", "which": "arg1"},
                {"kind": "range_index", "which": "arg1"}],
     "reason": "index is an enum discriminant of a type with at most N variants (or a loop index below N)"},
    {"fn": r"^ohkami::header::map::IndexMap::<N, Value>::(iter|into_iter)::\{closure#0\}$", "sink": r"^unsafe-call:core::slice::<impl \[T\]>::get_unchecked$",
     "guards": [{"kind": "reason", "reason": "the first tuple component of every element of `values` was written by set(index, ..), whose contract is index < N"}],
     "reason": "representation invariant of IndexMap (checked as C03-c)"},
]
