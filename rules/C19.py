"""C19 A mounted directory serves exactly its files, byte-identical, and nothing else.
Decides: (a) nothing touches the file system at request time (reachability / who-may-call); (b) files are registered as GET routes
only, at route + relative path; (c) payload with length and type, mime table vocabulary."""
import re

from . import C03
from .lib import decision, guards, paths, reach
from .lib.mir import AnchorLost

CONFIGS_QUICK = ["A", "R"]
CONFIGS_THOROUGH = ["A", "R", "NOAPI"]
TECHNIQUE = "call-graph reachability from the request-time file handler to file-system APIs (must be empty) and who-may-call of the file reads; registration shape of Dir::apply; mime literal table"
LEVEL_TEXT = ('Decides clauses C19-a/b/c: from the request-time closure of the static file handler no function of std::fs, std::io, std::path or std::env is reachabl'
              'e, and every file read sits in Dir::new / StaticFileHandler::new, reachable only from route registration -- so a request can only select among routes '
              'registered from the start-up walk (no `..`, encoded or doubled separator can name a file outside the snapshot, later disk changes are not served); eve'
              'ry registration made by `Dir` goes through HandlerSet::new(route).GET(handler) and no other method, the route being the mount route joined with `/` an'
              'd the relative path segments; index.html is registered at its directory path always and at its own path unless `html` is omitted, and at most one conf'
              'igured extension is stripped, by a match anchored at the end of the file name (a suffix, not the text after the first dot); the handler answers with t'
              'he file bytes through with_payload (Content-Type from the extension table, Content-Length from the same bytes); the extension table maps to well-forme'
              'd, distinct-keyed media types. C19-d: the buffer StaticFileHandler::new stores is handed out mutably only to the read that fills it: nothing modifies '
              'the snapshot between the read and the store. C19-e: in the directory walk of Dir::new every entry found to be a regular file is recorded and every dir'
              'ectory is descended into before the next entry is taken (no skip under any other condition). In Dir::apply every recorded file reaches a register call'
              ' before the next one is taken. Decides these clauses, not the exact served set for all directory trees.')

FS_API = r"^std::(fs|io|path|env|os)::|^<std::(fs|io|path)::|^std::sys::"


def run(ck, progs):
    ck.explanation = LEVEL_TEXT
    ck.assumptions = ["A2"]
    for cfg, prog in progs.items():
        ck.config = cfg
        ck.guard("C19-a REACH no-fs-at-request-time", lambda: c19a(ck, prog))
        ck.guard("C19-b WHO registration", lambda: c19b(ck, prog))
        ck.guard("C19-c PAIR payload", lambda: c19c(ck, prog))
        ck.guard("C19-d WHO snapshot is the file's bytes", lambda: c19d(ck, prog))
        ck.guard("C19-e MUSTPASS the walk takes every entry", lambda: c19e(ck, prog))
    ck.config = None


def file_handler(prog):
    ih = [f for f in prog.fns.values() if f.name == "into_handler" and f.self_ty and "StaticFileHandler" in f.self_ty]
    if len(ih) != 1:
        raise AnchorLost("StaticFileHandler::into_handler not found")
    return ih[0]


def c19a(ck, prog):
    R = "C19-a REACH no-fs-at-request-time"
    ih = file_handler(prog)
    # request-time code: the closure given to Handler::new and everything nested in it
    req_time = [g for g in prog.descendants(ih.key)]
    ck.floor(R, "request-time bodies", len(req_time), 2)
    Rr = reach.Reach(prog, req_time)
    hits = []
    for k, f in Rr.reached.items():
        for c in f.calls():
            if re.search(FS_API, c.callee or "") and not re.search(r"^std::io::stdio::_e?print$", c.callee or ""):
                hits.append((f.key, c.callee, f.loc(c.sp)))
    ok = not hits
    ck.ob(R, "handler:no-fs", ok, hits[0][2] if hits else ih.loc(None),
          "" if ok else "the request-time static file handler reaches %s (from %s): what is served would depend on the file system or the request path at request time" % (hits[0][1], hits[0][0]),
          how="%d functions reached from the request closure, none in std::fs/io/path/env" % len(Rr.reached))
    ck.add_stat("functions_reached", len(Rr.reached))
    # WHO: file reads only in Dir::new / fetch_entries / StaticFileHandler::new
    readers = {}
    for f in prog.fns.values():
        if f.crate != "ohkami" or "routing" not in f.file:
            continue
        for c in f.calls():
            if re.search(r"^std::fs::|^<std::fs::File as std::io::Read>::|std::io::Read::read", c.callee or ""):
                readers.setdefault(f.key, set()).add(c.name)
    allowed = r"routing::Dir::new(::fetch_entries)?(::\{closure#\d+\})*$|StaticFileHandler>::new(::\{closure#\d+\})*$"
    # ... or in a helper that only those start-up functions (transitively) call
    starts = [g for g in prog.fns.values() if re.search(r"routing::Dir::new$|StaticFileHandler>::new$", g.key)]
    startup = reach.Reach(prog, starts + [d for g in starts for d in prog.descendants(g.key)]).reached if starts else {}
    callers = prog.callers()

    def only_from_startup(key, seen=()):
        if re.search(allowed, key):
            return True
        if key in seen or key in Rr.reached:
            return False
        cs = callers.get(key, [])
        parent = prog.fns[key].parent if key in prog.fns else None
        ups = {c.fn.key for c in cs} | ({parent} if parent and parent in prog.fns and not cs else set())
        return bool(ups) and key in startup and all(only_from_startup(u, seen + (key,)) for u in ups)
    bad = [k for k in readers if not only_from_startup(k)]
    ck.ob(R, "who:file-reads", not bad and len(readers) >= 2, "", "" if not bad else "files are read in %r, outside Dir::new / StaticFileHandler::new" % bad, how="file reads in %d start-up function(s) only" % len(readers))
    # those readers are reachable only from registration (Route::Dir / RoutingItem::apply), never from a handler proc
    callers = prog.callers()
    dn = prog.method(r"^ohkami::ohkami::routing::Dir$", "new")
    cs = callers.get(dn.key, [])
    ok = bool(cs) and all(re.search(r"routing::Route for &'static str>::Dir$|Route.*::Dir$", c.fn.key) for c in cs)
    ck.ob(R, "who:Dir::new", ok, dn.loc(None), "" if ok else "Dir::new (the directory walk) is called from %r" % [c.fn.key for c in cs][:3], how="Dir::new only from Route::Dir (registration)")


def c19b(ck, prog):
    R = "C19-b WHO registration"
    ap = [f for f in prog.fns.values() if f.name == "apply" and f.self_ty == "ohkami::ohkami::routing::Dir" and f.trait and f.trait.endswith("RoutingItem")]
    if len(ap) != 1:
        raise AnchorLost("RoutingItem for Dir::apply not found")
    f = ap[0]
    bodies = [f] + prog.descendants(f.key)
    reg = [c for g in bodies for c in g.calls_to(r"base::Router::register_handlers$")]
    ok = len(reg) == 1
    ck.ob(R, "single-registration-path", ok, f.loc(None), "" if ok else "Dir::apply registers through %d call sites" % len(reg), how="one register_handlers call (in the `register` closure)")
    if ok:
        g = reg[0].fn
        d = decision.describe_deep(g, reg[0].args[1], 6)
        methods = [c.name for c in g.calls() if c.name in ("GET", "PUT", "POST", "PATCH", "DELETE") and "HandlerSet" in (c.callee or "")]
        ok2 = methods == ["GET"] and "new(" in d
        ck.ob(R, "GET-only", ok2, g.loc(reg[0].sp), "" if ok2 else "files are registered for methods %r" % methods, how="HandlerSet::new(route).GET(handler)")
        # route = base_path + "/" + path.join("/"); the statements may sit in the closure, in `apply` (hoisted) or in a nested helper
        family = [x for x in prog.fns.values() if x.key.startswith(f.key)]
        g = prog.inlined(g, 2, lambda caller, callee: callee.key.startswith(f.key))
        joins = [(g.const_args(c)[1] or {}).get("s") for c in g.calls() if c.name == "join"]
        seps = []
        for c in g.calls():
            if re.search(r"Add<&str>.*::add$", c.callee or "") and (g.const_args(c)[1] or {}).get("s") == "/":
                seps.append("+")
            elif c.name == "concat" and re.search(r"array\{[^{}]*,const '/',", decision.describe_deep(g, c.args[0], 3)):
                seps.append("concat")
            elif c.name in ("push_str", "push") and len(c.args) > 1 and decision.describe_deep(g, c.args[1], 1) == "const '/'":
                seps.append(c.name)
            elif re.search(r"fmt::Arguments::<'a>::new", c.callee or "") and (g.const_args(c)[0] or {}).get("b"):
                if any(x == "/" for x in format_literals(g.const_args(c)[0]["b"])[1:-1] or []):
                    seps.append("format")
        trim = [(x.const_args(c)[1] or {}).get("ch") for x in family for c in x.calls() if c.name == "trim_end_matches" and "route" in decision.describe_deep(x, c.args[0], 4)]
        ok3 = joins == ["/"] and bool(seps) and trim == ["/"]
        ck.ob(R, "route-shape", ok3, g.loc(None), "" if ok3 else "the registered route is not mount.trim_end('/') + '/' + segments.join('/') (join %r, separator %r, trim %r)" % (joins, seps, trim), how="route.trim_end_matches('/') + \"/\" + path.join(\"/\") (separator by %s)" % ",".join(seps))
        # the route `/` alone is for the root mount only: a lone "/" is built only where the trimmed mount path is empty
        lone = [c for c in g.calls() if re.search(r"From<&str>>::from$|Into<\w+>>::into$|ToString>::to_string$|ToOwned>::to_owned$", c.callee or "") and c.args and decision.describe_deep(g, c.args[0], 1) == "const '/'"]
        for c in lone:
            okl = paths.has_fact(g, prog, c.bb, lambda fa: fa.kind == "boolcall" and fa.truth and fa.call.name == "is_empty" and re.search(r"str|String", fa.call.callee or "")
                                 and "join(" not in decision.describe_deep(g, fa.call.args[0], 5)) is not None
            ck.ob(R, "route-root-only-for-empty-mount", okl, g.loc(c.sp), "" if okl else "the route `/` is registered on a path that has not established that the (trimmed) mount route is empty: the index file at the top of a directory mounted at `/docs` "
                  "would be served at `/` instead of `/docs`", how="String `/` built under base_path.is_empty()")
    # index.html: own path unless html omitted; then directory path always
    calls = [c for c in f.calls() if re.search(r"FnMut<.*>::call_mut$|FnOnce<.*>::call_once$|Fn<.*>::call$", c.decl or "") or "apply::{closure" in (c.callee or "")]
    regcalls = [c for c in calls if "register" in decision.describe_deep(f, c.args[0], 2) or True]
    regcalls = [c for c in f.calls() if re.search(r"ops::function::(FnMut::call_mut|FnOnce::call_once|Fn::call)$", c.decl or "") and reg and closure_def(f, c.args[0]) == reg[0].fn.key]
    conds = []
    for c in regcalls:
        cs = set()
        for fa in guards.facts_at(f, prog, c.bb):
            if fa.kind == "boolcall" and fa.call.name in ("is_some_and", "eq"):
                cs.add(("" if fa.truth else "!") + fa.call.name)
            if fa.kind == "cmp" and fa.raw_op in ("eq",):
                cs.add("eq" if fa.truth else "!eq")
        conds.append(sorted(cs))
    uncond = [c for c in conds if not any("is_some_and" in x for x in c)]
    html = [c for c in conds if any(x == "!is_some_and" for x in c)]
    ok = len(regcalls) == 2 and len(uncond) == 1 and len(html) == 1
    ck.ob(R, "index.html", ok, f.loc(None), "" if ok else "registration conditions are %r; expected one unconditional registration per file and one more for index.html unless `html` is omitted" % conds, how="register(path) always; register(index.html path) unless html omitted")
    eqs = []
    for c in f.calls():
        if c.name in ("eq", "ne") and len(c.args) == 2:
            for a in c.args:
                m = re.fullmatch(r"const '(.*)'", decision.describe_deep(f, a, 2))
                if m:
                    eqs.append(m.group(1))
    clos = [g for g in prog.descendants(f.key)]
    conts = [(g.const_args(c)[1] or {}).get("s") for g in clos for c in g.calls() if c.name == "contains"]
    ok = "index.html" in eqs and "html" in conts
    ck.ob(R, "index.html:literals", ok, f.loc(None), "" if ok else "the index file is recognised by %r and its omission by %r, expected `index.html` / `html`" % (eqs, conts), how="file name == \"index.html\"; omitted iff exts.contains(\"html\")")
    # at most one extension stripped: truncate is followed by leaving the loop
    tr = f.calls_to(r"String::truncate$")
    ok = len(tr) == 1
    if ok:
        from .lib.bound import natural_loops
        loops = natural_loops(f)
        inner = [h for h, body in loops.items() if tr[0].bb in body]
        if not inner:
            ok = False
        else:
            # the innermost loop that really contains the truncate is the per-file loop: within one of its iterations
            # (i.e. without passing its header again) the truncate must not be reachable a second time
            h = min(inner, key=lambda x: len(loops[x]))
            ok = tr[0].bb not in f.reachable_from(tr[0].target, avoid=(h,))
    ck.ob(R, "one-extension-stripped", bool(ok), f.loc(tr[0].sp if tr else None), "" if ok else "after stripping an extension the loop over the omitted extensions continues: more than one suffix could be removed", how="truncate(..); break")


    # the stripped text is a *suffix* of the last segment: the new length comes from a match anchored at the end
    if len(tr) == 1:
        fv = prog.inlined(f, 2, lambda caller, callee: callee.key.startswith(f.key) and not callee.calls_to(r"register_handlers$"))
        tv = [c for c in fv.calls_to(r"String::truncate$")]
        tv = tv[0] if len(tv) == 1 else tr[0]
        fv = fv if tv is not tr[0] else f
        d = decision.describe_deep(fv, tv.args[1], 8)
        d += " via " + "".join(x + "(," for x in sorted(closure_calls(prog, fv, tv.args[1])))
        anchored = re.search(r"\b(strip_suffix|rsplit_once|rfind|rsplit_terminator|rsplitn)\(", d) is not None
        ends = paths.has_fact(f, prog, tr[0].bb, lambda fa: fa.kind == "boolcall" and fa.truth and (
            fa.call.name == "ends_with" or (fa.call.name in ("is_some_and", "is_ok_and", "map_or") and any("ends_with" in closure_calls(prog, f, a) for a in fa.call.args)))) is not None
        first = re.search(r"\b(split_once|find|split|splitn|split_terminator|strip_prefix)\(", d) is not None
        ok = (anchored or ends) and not (first and not anchored)
        ck.ob(R, "extension-is-a-suffix", ok, f.loc(tr[0].sp), "" if ok else "the length the last path segment is cut to is `%s`: it does not come from a match anchored at the end of the file name "
              "(strip_suffix / rsplit_once / rfind / ends_with), so `a.min.js` with `js` omitted is not served at `a.min`" % d[:140], how="truncate(len(strip_suffix(..))): %s" % d[:80])


def closure_calls(prog, f, op, depth=6):
    """names of the calls made inside closure literals that take part in computing `op`"""
    out = set()
    if depth <= 0:
        return out
    steps = f.origin(op)
    if not steps:
        return out
    last = steps[-1]
    if last[0] == "call":
        for a in last[1].args:
            out |= closure_calls(prog, f, a, depth - 1)
    elif last[0] == "agg" and last[1][1].get("k") == "closure":
        g = prog.fns.get(last[1][1]["def"])
        if g is not None:
            out |= {c.name for c in g.calls()}
            # closures handed to combinators inside the closure
            for c in g.calls():
                for a in c.args:
                    st = g.origin(a)
                    if st and st[-1][0] == "agg" and st[-1][1][1].get("k") == "closure":
                        out |= closure_calls(prog, g, a, depth - 1)
    return out


def closure_def(f, op):
    """key of the closure literal an operand (a reference to it) denotes, or None"""
    st = f.origin(op)
    if st and st[-1][0] == "agg" and st[-1][1][1].get("k") == "closure":
        return st[-1][1][1].get("def")
    return None


def format_literals(template):
    """literal pieces of a `format_args!` byte template ([0xC0 = next argument | n, n bytes of text]*, 0), with None for
    every argument; used to see what separates two interpolated values"""
    out, i = [], 0
    while i < len(template):
        b = template[i]
        if b == 0:
            break
        if b >= 0x80:
            out.append(None)
            i += 1
            continue
        out.append(bytes(template[i + 1:i + 1 + b]).decode("utf-8", "replace"))
        i += 1 + b
    return out


def c19c(ck, prog):
    R = "C19-c PAIR payload"
    ih = file_handler(prog)
    bodies = prog.descendants(ih.key)
    wp = [c for g in bodies for c in g.calls_to(r"response::Response::(with_payload|set_payload)$")]
    raw = [1 for g in bodies for (ff, bi, variant, st) in C03.payload_stores(prog) if ff is g]
    ok = len(wp) == 1 and not raw
    if ok:
        g = wp[0].fn
        ct = decision.describe_deep(g, wp[0].args[1], 4)
        body = decision.describe_deep(g, wp[0].args[2], 5)
        ok = "mime" in ct and "content" in body
        ck.ob(R, "handler:with_payload(mime, bytes)", ok, g.loc(wp[0].sp), "" if ok else "the file handler answers with_payload(%s, %s)" % (ct[:30], body[:30]), how="Response::OK().with_payload(this.mime, &this.content)")
    else:
        ck.ob(R, "handler:with_payload(mime, bytes)", False, ih.loc(None), "the file handler does not build its response through with_payload/set_payload (which pair body, Content-Type and Content-Length): %d such call(s), %d raw payload store(s)" % (len(wp), len(raw)))
    # set_payload itself pairs length with the bytes: C03-d instance
    sub = type(ck)(ck.prop, ck.tier)
    sub.config = ck.config
    C03.c03d(sub, prog)
    sp = [o for o in sub.obs if "set_payload" in o["key"]]
    ck.ob(R, "set_payload:length-of-same-bytes", bool(sp) and all(o["ok"] for o in sp), sp[0]["where"] if sp else "", "" if sp and all(o["ok"] for o in sp) else "Response::set_payload does not set Content-Length from the bytes it stores", how=sp[0]["how"] if sp else "")
    # mime table
    m = prog.one(r"^ohkami_lib::mime::get_by_extension$")
    tab = decision.bytes_match_table(m, prog)
    rows = {}
    dup = []
    for lit, d in tab:
        mm = re.match(r"Some\{(.*)\}$", d)
        if not mm:
            continue
        if lit in rows:
            dup.append(lit)
        rows[lit] = mm.group(1)
    ck.floor(R, "mime rows", len(rows), 16)
    for ext, mt in sorted(rows.items()):
        ok = re.fullmatch(r"(text|image|font|application|audio|video|model|multipart|message)/[A-Za-z0-9][A-Za-z0-9!#$&^_.+-]*", mt) is not None and re.fullmatch(r"[a-z0-9]+", ext) is not None
        ck.ob(R, "mime:%s" % ext, ok, m.loc(None), "" if ok else "extension %r maps to %r, not a well-formed media type" % (ext, mt), how="%s -> %s" % (ext, mt))
    ck.ob(R, "mime:no-duplicate-keys", not dup, m.loc(None), "" if not dup else "duplicate extension keys %r" % dup, how="%d distinct extensions" % len(rows))
    # StaticFileHandler::new takes the mime from the *last* extension of the file name
    nw = [f for f in prog.fns.values() if f.name == "new" and f.self_ty and "StaticFileHandler" in f.self_ty]
    if nw:
        f = nw[0]
        f = prog.inlined(f, 2, lambda caller, callee: callee.crate == caller.crate and callee.self_ty == caller.self_ty and callee.key != caller.key and len(callee.blocks) < 80)     # private helpers of the handler type
        sp_ = [c for c in f.calls() if c.name in ("rsplit_once", "split_once", "rsplit", "split")]
        ok = len(sp_) == 1 and sp_[0].name == "rsplit_once" and (f.const_args(sp_[0])[1] or {}).get("ch") == "."
        g = f.calls_to(r"mime::get_by_extension$")
        ok = ok and len(g) == 1 and "rsplit_once" in decision.describe_deep(f, g[0].args[0], 6)
        ck.ob(R, "mime:from-last-extension", ok, f.loc(None), "" if ok else "the media type is not looked up from the text after the last `.` of the file name", how="get_by_extension(filename.rsplit_once('.').1)")


READ_FILL = r"(io::Read|Read)::(read_exact|read_to_end|read)$|io::impls::.*::(read_exact|read_to_end|read)$|std::fs::File.*::(read_exact|read_to_end|read)$"


def c19d(ck, prog):
    """`the body is byte-identical to the file`: the buffer StaticFileHandler::new stores is the buffer the file was read
    into, and between its creation and the store it is handed out mutably only to the read that fills it -- no drain /
    truncate / retain / element store (BOM stripping, newline normalisation, trimming) on the snapshot."""
    R = "C19-d WHO snapshot is the file's bytes"
    nw = [f for f in prog.fns.values() if f.name == "new" and f.self_ty and "StaticFileHandler" in f.self_ty]
    if not nw:
        raise AnchorLost("StaticFileHandler::new not found")
    f = nw[0]
    f = prog.inlined(f, 2, lambda caller, callee: callee.crate == caller.crate and callee.self_ty == caller.self_ty and callee.key != caller.key and len(callee.blocks) < 80)     # the read may sit in a private helper
    arcs = [c for c in f.calls() if c.name in ("new", "from") and re.search(r"sync::Arc|boxed::Box|Cow", c.callee or "") and c.args and re.search(r"Vec<u8>|\[u8\]", " ".join(c.targs))]
    if not arcs:
        # fs::read result stored directly
        arcs = [c for c in f.calls() if c.name in ("new",) and "Arc" in (c.callee or "")]
    if len(arcs) != 1:
        raise AnchorLost("the content snapshot is not stored by exactly one Arc::new in StaticFileHandler::new (%d)" % len(arcs))
    # (through Ok(..)/`?` wrappers when the buffer comes out of a spliced-in helper)
    leaves = [lv for lv in paths.leaf_values(f, arcs[0].args[0]) if lv[0] == "call"]
    if len(leaves) != 1:
        raise AnchorLost("the stored content is not one locally created buffer (%d candidate origins)" % len(leaves))
    rc = leaves[0][1]
    if re.search(r"fs::read$", rc.callee or ""):
        ck.ob(R, "snapshot:unmodified", True, f.loc(rc.sp), how="content = fs::read(path), stored as is")
        return

    def is_mut_borrow(op, depth=3):
        if op[0] not in ("c", "m") or depth <= 0:
            return False
        sd = f.single_def(op[1][0])
        if not sd or sd[2] != "assign":
            return False
        r = sd[3]["r"]
        if r[0] == "ref":
            if r[1] == "mut":
                return True
            return False
        if r[0] == "use":
            return is_mut_borrow(r[1], depth - 1)
        return False
    bad, fills = [], 0
    for c in f.calls():
        for a in c.args:
            o = f.origin(a)
            if not (o and o[-1][0] == "call" and o[-1][1].bb == rc.bb and o[-1][1] is not None):
                continue
            if c.bb == rc.bb or not is_mut_borrow(a):
                continue
            if re.search(READ_FILL, c.callee or "") or re.search(READ_FILL, c.decl or ""):
                fills += 1
                continue
            if c.name in ("deref_mut", "as_mut_slice", "as_mut", "index_mut", "borrow_mut"):
                # the mutable view must itself only go to the read
                users = [u for u in f.calls() if any((f.origin(x) or [(None,)])[-1][0] == "call" and (f.origin(x)[-1][1].bb == c.bb) for x in u.args)]
                if users and all(re.search(READ_FILL, u.callee or "") or re.search(READ_FILL, u.decl or "") for u in users):
                    fills += 1
                    continue
            bad.append((c, decision.describe_deep(f, a, 2)))
    ok = not bad and fills >= 1
    ck.ob(R, "snapshot:unmodified", ok, f.loc(bad[0][0].sp) if bad else f.loc(rc.sp),
          "" if ok else ("the buffer read from the file is modified before it is stored: `%s` takes it mutably -- the served body is no longer byte-identical to the file" % bad[0][0].callee if bad
                         else "no read into the stored buffer was found"), how="the buffer is handed out mutably only to the read that fills it (%d)" % fills)


def c19e(ck, prog):
    """`serves exactly the regular files under it`: in the directory walk of Dir::new, from the edge that found an entry
    to be a regular file every way back to the loop head passes the push that records it, and from the edge that found it
    to be a directory every way back passes the step that queues its entries (a `?` error return is not a way back): no
    entry is skipped under a counter, a name test or any other condition. Likewise in Dir::apply every recorded file
    reaches a register call before the next one is taken."""
    from .lib.bound import natural_loops
    R = "C19-e MUSTPASS the walk takes every entry"
    fs = [f for f in prog.fns.values() if re.search(r"routing::Dir::new$", f.key)]
    if len(fs) != 1:
        raise AnchorLost("Dir::new not found")
    f = prog.inlined(fs[0], 1, lambda caller, callee: callee.crate == caller.crate and callee.key.startswith(caller.key + "::") and callee.kind != "Closure" and len(callee.blocks) < 80 and not callee.calls_to(r"read_dir$"))
    loops = natural_loops(f)
    pops = [c for c in f.calls() if c.name in ("pop", "pop_front", "next") and any(c.bb in body for body in loops.values())]
    n = 0
    for what, test, sinks in (("file", "is_file", r"Vec::<T, A>::push$"), ("directory", "is_dir", r"Vec::<T, A>::(append|extend|extend_from_slice|push)$|VecDeque.*::(append|extend|push_back)$")):
        tests = [c for c in f.calls() if c.name == test and any(c.bb in b and any(pp.bb in b for pp in pops) for b in loops.values())]
        if len(tests) != 1:
            raise AnchorLost("the walk of Dir::new does not test %s exactly once (%d)" % (test, len(tests)))
        t = tests[0]
        body = min([b for b in loops.values() if t.bb in b], key=len, default=None)
        if body is None:
            raise AnchorLost("%s is not tested inside the walk loop" % test)
        header = [h for h, b in loops.items() if b is body][0]
        # the block where the test's result is switched on
        sw = [bb for bb in body if f.blocks[bb]["t"]["k"] == "switch" and re.search(r"^%s\(" % test, decision.describe_deep(f, f.blocks[bb]["t"]["discr"], 2))]
        if len(sw) != 1:
            raise AnchorLost("the result of %s is not switched on once" % test)
        true_tb = [tb for tb, lab in f.succ(sw[0]) if lab != 0]
        names = ("push",) if what == "file" else ("append", "extend", "extend_from_slice", "push", "push_back")
        sink_bbs = tuple(c.bb for c in f.calls() if (re.search(sinks, c.callee or "") or (c.name in names and re.search(r"Vec|Extend", (c.callee or "") + (c.decl or "")))) and c.bb in body and f.dominates(sw[0], c.bb))
        n += 1
        ok = bool(sink_bbs) and bool(true_tb) and header not in f.reachable_from(true_tb[0], avoid=sink_bbs)
        ck.ob(R, "walk:every-%s" % what, ok, f.loc(t.sp), "" if ok else "in Dir::new an entry found to be a %s can be passed over: the walk goes on to the next entry on a path that neither %s nor fails -- files under the directory would answer 404" % (what, "records it" if what == "file" else "queues its entries"),
              how="from the `%s` edge every way back to the loop head passes %s" % (test, "files.push(..)" if what == "file" else "entries.append(fetch_entries(..))"))
    ck.floor(R, "walk decisions", n, 2)
    # Dir::apply: every recorded file is registered before the next one is taken (no `continue` on a name test)
    aps = [g for g in prog.fns.values() if re.search(r"RoutingItem for ohkami::ohkami::routing::Dir>::apply$", g.key)]
    if len(aps) != 1:
        raise AnchorLost("Dir::apply not found (%d)" % len(aps))
    a = aps[0]
    aloops = natural_loops(a)
    regs = [c for c in a.calls() if re.search(r"ops::function::(FnMut::call_mut|FnOnce::call_once|Fn::call)$", c.decl or "") and any(c.bb in b for b in aloops.values())]
    nxs = [c for c in a.calls() if c.name == "next" and any(c.bb in b for b in aloops.values()) and re.search(r"arg1\.files\b", decision.describe_deep(a, c.args[0], 5))]
    okr = False
    for nx in nxs:
        sws = sorted(sb for sb in a.live_blocks() if a.blocks[sb]["t"]["k"] == "switch" and a.dominates(nx.bb, sb) and re.search(r"^discr\(next\(", decision.describe_deep(a, a.blocks[sb]["t"]["discr"], 2)))
        sws = [sb for sb in sws if not any(a.dominates(o, sb) and o != sb for o in sws)]      # the switch on this iterator's answer
        for sb in sws[:1]:
            for tb, lab in a.succ(sb):
                mine = [c for c in regs if c.bb in a.reachable_from(tb)]
                if not mine or nx.bb not in a.reachable_from(tb):
                    continue      # the None side
                okr = any(nx.bb not in a.reachable_from(tb, avoid=(c.bb,)) for c in mine)
    ck.ob(R, "apply:every-file-registered", okr, a.loc(None), "" if okr else "in Dir::apply a recorded file can be passed over: the loop takes the next file on a path that registers no route for this one -- a regular file under the directory would answer 404",
          how="from the `Some(file)` edge the iterator is not advanced again without a register call (%d register call sites)" % len(regs))
