"""C12 JWT fang admits exactly the tokens signed with the configured key and valid now.
Decides: (a) `verified` returns Ok only after the alg test, the three time-claim tests, the HMAC equality, all decodes, and exactly
three parts; (b) the algorithm arms of issue/verified/alg_str/header_str agree; (c) JWTProc::bite runs the inner proc only on Ok."""
import json
import re

from .lib import decision, guards, paths
from .lib.mir import AnchorLost
from .lib.reachrule import ReachRule

CONFIGS_QUICK = ["A", "R"]
CONFIGS_THOROUGH = ["A", "R", "NOAPI"]
TECHNIQUE = "dominance of the success return by every verification step (built MIR) + per-algorithm arm/table agreement + panic reachability"
LEVEL_TEXT = ("Decides clauses C12-a/b/c: the Ok return of JWT::verified is dominated by the alg comparison against the configured algorithm, the nbf/exp/iat "
              "tests against one unix_timestamp() reading, the true edge of the HMAC comparison (whole-slice equality, HMAC over header_part '.' payload_part "
              "keyed with the secret, digest matching the algorithm variant in every arm), successful decodes of all three parts and the absence of a fourth "
              "part; the returned payload is the signed payload part; issue/alg_str/header_str use the same algorithm per variant; JWTProc::bite stores the "
              "payload and calls the inner proc only on the Ok edge. Decides these clauses, not cryptographic soundness over all tokens.")

AUDIT = [
    {"fn": r"^ohkami::fang::builtin::jwt::", "sink": r"^panic-call:Result::unwrap$",
     "guards": [{"kind": "operand", "which": "arg0", "from": {"call": r"KeyInit>::new_from_slice$|::new_from_slice$"}}],
     "reason": "Hmac::new_from_slice accepts keys of any length (InvalidLength is never returned for HMAC)"},
    {"fn": r"ohkami::util::unix_timestamp$", "sink": r"^panic-call:Result::unwrap$",
     "guards": [{"kind": "operand", "which": "arg0", "from": {"call": r"SystemTime::duration_since$"}}],
     "reason": "fails only if the system clock is before 1970: environment, not request data"},
]

AUDIT.append(
    {"fn": r"jwt::JWT::<Payload>::verified$", "sink": r"^indirect:",
     "guards": [{"kind": "reason", "reason": "self.get_token is the application-supplied token extractor (default: Authorization minus `Bearer `): user code, A2"}],
     "reason": "A2 boundary"})

DIGEST = {"HS256": "OidSha256", "HS384": "OidSha384", "HS512": "OidSha512"}


def run(ck, progs):
    ck.explanation = LEVEL_TEXT
    ck.assumptions = ["A3: hmac/sha2/base64/serde_json compute what they document", "A5"]
    for cfg, prog in progs.items():
        ck.config = cfg
        ck.guard("C12-a MUSTPASS verified", lambda: c12a(ck, prog))
        ck.guard("C12-b SIBLING algorithm arms", lambda: c12b(ck, prog))
        ck.guard("C12-c MUSTPASS gate", lambda: c12c(ck, prog))
        ck.guard("C12-d REACH", lambda: c12d(ck, prog))
    ck.config = None


def next_calls(f):
    cs = f.calls_to(r"Split<'_, char> as core::iter::traits::iterator::Iterator>::next$|str::iter::(Split|SplitN|RSplit)<.*Iterator>::next$")
    # order by dominance
    cs.sort(key=lambda c: len(f.dom_chain(c.bb)))
    return cs


def c12a(ck, prog):
    R = "C12-a MUSTPASS verified"
    f = prog.method(r"jwt::JWT<Payload>$", "verified")
    oks = [s for s in paths.ret_sites(f) if s[1] not in ("residual", "Err")]
    ck.floor(R, "Ok returns", len(oks), 1)
    nx = next_calls(f)
    sp = f.calls_to(r"^core::str::<impl str>::(split|splitn|rsplit|rsplitn|split_once|rsplit_once|split_terminator)$")
    ok = len(sp) == 1 and sp[0].name == "split" and (f.const_args(sp[0])[1] or {}).get("ch") == "."
    ck.ob(R, "split('.')", ok, f.loc(sp[0].sp if sp else None), "" if ok else "the token is split with %s, expected one split('.')" % [(c.name, f.const_args(c)[1]) for c in sp], how="split('.')")
    tok = paths.root_steps(f, sp[0].args[0]) if sp else None
    for i, (bb, kind, payload) in enumerate(oks):
        tag = "" if i == 0 else "#%d" % i
        if kind != "Ok":
            ck.ob(R, "ret-form" + tag, False, f.loc(None), "verified() returns a value of unrecognised form (%s)" % kind)
            continue
        facts = guards.facts_at(f, prog, bb)

        # (1) algorithm
        algok, how = False, "no dominating comparison of the header's `alg` with self.alg_str()"
        for fa in facts:
            if fa.kind == "cmp" and fa.op == "Eq":
                a, b = fa.lhs, fa.rhs
                da = guards.describe_origin(f, a)
                db = guards.describe_origin(f, b)
                for x, y in ((a, b), (b, a)):
                    if y and y[-1][0] == "call" and re.search(r"jwt::JWT::<Payload>::alg_str$", y[-1][1].callee or ""):
                        xc = x[-1][1] if x and x[-1][0] == "call" else None
                        src = (xc.name + "(" + ",".join(decision.describe_deep(f, a_, 8) for a_ in xc.args) + ")") if xc is not None and xc.args else guards.describe_origin(f, x)
                        if "const 'alg'" in src and "get(" in src and "part_value" in src:
                            eqc = [c for c in f.calls() if c.bb in f.dom_chain(fa.sw_bb) and c.name in ("eq", "ne")]
                            algok, how = True, "`header.get(\"alg\") == self.alg_str()` (switch bb%d)" % fa.sw_bb
        ck.ob(R, "alg-check" + tag, algok, f.loc(None), "" if algok else "Ok(payload) is reachable without the header's `alg` having been compared equal to the configured algorithm: " + how, how=how)

        # (2) time claims -- read on the expanded body (helpers, Option combinators and their closures spliced in), where each
        # test is one integer comparison `claim-or-default  <op>  now` whose true outcome must not reach this Ok
        g = prog.flattened(f, r"::as_u64$", combinators=True)
        now_calls = g.calls_to(r"^ohkami::util::unix_timestamp$")
        okb = bb
        for claim, op, default in (("nbf", "Gt", "0"), ("exp", "Le", str(2**64 - 1)), ("iat", "Gt", "0")):
            found, how = False, "no comparison of the `%s` claim with the current time" % claim
            sites = []
            for bi in sorted(g.live_blocks()):
                if g.is_cleanup(bi):
                    continue
                for st in g.blocks[bi]["st"]:
                    if not (st["k"] == "=" and st["r"][0] == "bin" and st["r"][1] in ("Gt", "Ge", "Lt", "Le", "Eq", "Ne")):
                        continue
                    sides = []
                    for opnd in (st["r"][2], st["r"][3]):
                        lv = paths.leaf_values(g, opnd) if opnd[0] in ("c", "m") else []
                        calls_ = [l[1] for l in lv if l[0] == "call"]
                        d = " ".join(c_.name + "(" + ",".join(decision.describe_deep(g, a_, 14) for a_ in c_.args) + ")" for c_ in calls_) + " " + decision.describe_deep(g, opnd, 14)
                        sides.append((d, calls_))
                    for (da, ca), (db, cb), o in ((sides[0], sides[1], st["r"][1]), (sides[1], sides[0], guards.FLIP.get(st["r"][1], st["r"][1]))):
                        if ("const '%s'" % claim) in da and "get(" in da and "unix_timestamp(" in db:
                            sites.append((bi, st, o, da, ca, db))
            if len(sites) != 1:
                if sites:
                    how = "the `%s` claim is compared with the time at %d places" % (claim, len(sites))
                ck.ob(R, "claim-%s%s" % (claim, tag), False, f.loc(None), "Ok(payload) is reachable without a correct `%s` test: %s" % (claim, how), how=how)
                continue
            bi, st, o, da, ca, db = sites[0]
            dm = re.search(r"unwrap_or\(as_u64\(.*?\),const (\d+)", da)
            e = "%s(%s or %s, now)" % (o, claim, dm.group(1) if dm else "?")
            good = o == op and re.search(r"unwrap_or\(as_u64\(.*\),const %s(\.\^\w+)?\)" % default, da) is not None
            if not good:
                how = "`%s` test computes `%s`, expected %s(as_u64 or %s, now)" % (claim, e, op, default)
            else:
                # the JSON value searched is the payload part (2nd part of the token)
                getc = None
                for c_ in ca:
                    x = c_
                    for _ in range(6):
                        if x is None or x.name == "get":
                            break
                        x = paths.root_call(g, x.args[0], through=r"$^") if x.args else None
                    if x is not None and x.name == "get":
                        getc = x
                rc = paths.root_call(g, getc.args[0], through=paths.TRANSPARENT) if getc is not None else None
                pv = rc if rc is not None and rc.name == "part_value" else None
                part = paths.root_call(g, pv.args[0]) if pv is not None else None
                if part is None or len(nx) < 2 or part.bb != nx[1].bb:
                    good, how = False, "the `%s` claim is not read from the payload part" % claim
            if good and len(now_calls) != 1:
                good, how = False, "`%s` is not compared with the single unix_timestamp() reading (%d readings)" % (claim, len(now_calls))
            if good:
                # acted on: wherever the comparison's result is tested, its true edge cannot reach this Ok
                tested = []
                for sb in sorted(g.live_blocks()):
                    t_ = g.term(sb)
                    if t_["k"] == "switch" and t_["dty"] == "bool" and t_["discr"][0] in ("c", "m") and not g.is_cleanup(sb):
                        if any(k_ == "other" and dbb == bi and pl_ is st["r"] for k_, pl_, dbb in paths.value_defs(g, t_["discr"])):
                            tested.append(sb)
                leaks = []
                for sb in tested:
                    for tb, lab in g.succ(sb):
                        if lab != 0 and okb in g.reachable_from(tb):
                            leaks.append(sb)
                if not tested:
                    good, how = False, "the result of the `%s` comparison is never tested" % claim
                elif leaks:
                    good, how = False, "Ok(payload) is reachable from the true outcome of `%s`" % e
                else:
                    found, how = True, "`%s`: rejects when %s (tested at bb%s)" % (claim, e, ",".join(map(str, tested)))
            ck.ob(R, "claim-%s%s" % (claim, tag), found, f.loc(None), "" if found else "Ok(payload) is reachable without a correct `%s` test: %s" % (claim, how), how=how)

        # (3) signature
        sigok, how = False, "no dominating true edge of the signature comparison"
        for fa in facts:
            if fa.kind == "boolcall" and ((fa.truth and (fa.call.name == "eq")) or (not fa.truth and fa.call.name == "ne")):
                # (`if mac != presented { refuse }`: the surviving edge is the false edge of `ne`)
                if sigok:
                    continue
                o_, h_ = check_sig_eq(f, prog, fa.call, nx)
                sigok, how = o_, h_ + " (switch bb%d)" % fa.sw_bb
            elif fa.kind == "boolcall" and fa.truth and (fa.call.name == "eq" or fa.call.callee in prog.fns and len(fa.call.args) == 2 and fa.call.fn.locals[fa.call.dest[0]] == "bool" and "verified" in (fa.call.callee or "")):
                if sigok:
                    continue     # a comparison of the signature was already found; other boolean helpers on the path are not it
                o_, h_ = check_sig_eq(f, prog, fa.call, nx)
                # a local boolean helper that does not touch the signature part is some other test, not a failed signature test
                touches_sig = any("next(" in decision.describe_deep(f, a_, 8) or "finalize" in decision.describe_deep(f, a_, 8) for a_ in fa.call.args)
                if o_ or fa.call.name == "eq" or touches_sig or how.startswith("no dominating"):
                    if o_ or touches_sig or fa.call.name == "eq":
                        sigok, how = o_, h_ + " (switch bb%d)" % fa.sw_bb
            elif fa.kind == "boolphi" and fa.truth and not sigok:
                allok, hows, n = True, [], 0
                for dbb, steps in fa.defs:
                    n += 1
                    if not (steps and steps[-1][0] == "call" and (steps[-1][1].name == "eq" or steps[-1][1].callee in prog.fns)):
                        allok = False
                        hows.append("a definition of the flag is not an equality test (%s)" % guards.describe_origin(f, steps))
                        continue
                    o, h = check_sig_eq(f, prog, steps[-1][1], nx)
                    allok = allok and o
                    hows.append(h)
                if n >= 1:
                    sigok, how = allok, "; ".join(sorted(set(hows))) + " [%d arm(s), switch bb%d]" % (n, fa.sw_bb)
        ck.ob(R, "signature" + tag, sigok, f.loc(None), "" if sigok else "Ok(payload) is reachable without a successful whole-signature HMAC comparison: " + how, how=how)

        # (4) decodes and parts
        somes = [fa for fa in facts if fa.kind == "variant" and fa.allowed == {"Some"} and fa.steps and fa.steps[-1][0] == "call" and any(fa.steps[-1][1].bb == c.bb for c in nx)]
        nones = [fa for fa in facts if fa.kind == "variant" and fa.allowed == {"None"} and fa.steps and fa.steps[-1][0] == "call" and any(fa.steps[-1][1].bb == c.bb for c in nx)]
        nsome = len({fa.steps[-1][1].bb for fa in somes})
        nnone = len({fa.steps[-1][1].bb for fa in nones})
        ok = nsome == 3
        ck.ob(R, "three-parts-present" + tag, ok, f.loc(None), "" if ok else "Ok(payload) needs %d part(s) to be present, expected exactly 3 (header, payload, signature)" % nsome, how="3 `Some` edges of parts.next()")
        ok = nnone >= 1
        ck.ob(R, "no-fourth-part" + tag, ok, f.loc(None),
              "" if ok else "Ok(payload) is reachable without testing that the token has no fourth part: `<issued token>.x` is a different token and is admitted", how="`None` edge of a 4th parts.next()")
        decs = {"part_value": 0, "base64_url_decode": 0, "from_value": 0}
        for fa in facts:
            if fa.kind == "variant" and fa.allowed == {"Ok"} and fa.steps and fa.steps[-1][0] == "call" and fa.steps[-1][1].name in decs:
                decs[fa.steps[-1][1].name] += 1
        ok = decs["part_value"] >= 2 and decs["base64_url_decode"] >= 1
        ck.ob(R, "decodes-ok" + tag, ok, f.loc(None), "" if ok else "Ok(payload) does not require both JSON parts and the signature to decode: %s" % decs, how=str(decs))

        # (5) the payload handed out is the signed payload part
        src = paths.root_call(f, payload[2][0])
        ok = src is not None and src.name == "from_value"
        pv = paths.root_call(f, src.args[0]) if ok else None
        part = paths.root_call(f, pv.args[0]) if pv is not None and pv.name == "part_value" else None
        ok = ok and part is not None and len(nx) >= 2 and part.bb == nx[1].bb
        ck.ob(R, "payload-is-signed-part" + tag, ok, f.loc(None), "" if ok else "the returned payload is not from_value(part_value(<2nd part>)): %s" % decision.describe_deep(f, payload[2][0], 6),
              how="Ok(from_value(part_value(parts.next() #2)))")
    # token source: whatever get_token returns, unmodified
    if tok is not None:
        d = decision.describe_deep(f, sp[0].args[0], 5)
        ok = "get_token" in d or (tok[-1][0] == "call" and tok[-1][1].callee is None)
        ck.ob(R, "token-source", ok, f.loc(sp[0].sp), "" if ok else "the split text is `%s`, not the get_token result" % d, how=d[:80])


def whole_slice_helper(prog, h):
    """Is local fn `h(a: &[u8], b: &[u8]) -> bool` an accepted whole-slice comparison (e.g. a constant-time one)?
    Required shape: it returns false outright when the two lengths differ (`!=`), and every other result is the
    value of one comparison of an accumulator / of the slices -- a length test weaker than `!=` is not accepted."""
    if h.argc != 2 or not h.locals[0] == "bool":
        return False, "helper is not fn(&[u8], &[u8]) -> bool"
    lens_ne = False
    for bb, kind, payload in paths.ret_sites(h):
        if kind == "const" and guards.const_int(payload) == 0:
            fs = [fa for fa in guards.facts_at(h, prog, bb) if fa.kind == "cmp"]
            for fa in fs:
                if fa.op == "Ne" and guards.is_len_origin(h, fa.lhs) and guards.is_len_origin(h, fa.rhs):
                    def of(st):
                        last = st[-1]
                        if last[0] == "call" and last[1].args:
                            return decision.describe_deep(h, last[1].args[0], 3)
                        if last[0] == "un":
                            return decision.describe_deep(h, last[1][2], 3)
                        return guards.describe_origin(h, st)
                    if {of(fa.lhs), of(fa.rhs)} == {"arg1", "arg2"}:
                        lens_ne = True
    if not lens_ne:
        return False, "helper %s does not reject outright when the two lengths differ (`a.len() != b.len()`)" % h.name
    return True, "helper %s: false unless lengths are equal, then one accumulated comparison" % h.name


FIXED_ORDER = {}     # helper key -> ["arg2", ".", "arg3"] for the fixed-argument form


def mac_helper_summary(prog, H):
    """A local helper `H(&self, chunks) -> bytes` that computes the keyed MAC of the concatenated chunks under self.alg.
    -> ({variant: digest OID name}, how) or (None, why). Accepted shape: every answer of H is, under one arm of a match on
    self.alg, a call `M::<Hmac<ShaN>>(self.secret bytes, chunks)` of one local generic function M, and M is
    new_from_slice(key); update(chunk) for each chunk in order; finalize().into_bytes()."""
    out = {}
    Ms = set()
    for bb, kind, pl in paths.ret_sites(H):
        if kind != "call" or pl.callee not in prog.fns:
            return None, "an answer of %s is not a call of a local MAC function" % H.name
        vf = [fa for fa in guards.facts_at(H, prog, bb) if fa.kind == "variant" and fa.allowed and len(fa.allowed) == 1 and "alg" in guards.describe_origin(H, fa.steps)]
        if not vf:
            return None, "%s computes a MAC outside a match on self.alg" % H.name
        (variant,) = tuple(vf[-1].allowed)
        tx = " ".join(pl.targs or []) + " " + (pl.full or "")
        m = re.search(r"OidSha(256|384|512)", tx) or re.search(r"Sha(256|384|512)\b(?!VarCore)", tx)
        if not m:
            return None, "arm %s of %s does not name its hash" % (variant, H.name)
        out[variant] = "OidSha" + m.group(1)
        key = decision.describe_deep(H, pl.args[0], 4)
        if "arg1.secret" not in key:
            return None, "arm %s keys the MAC with `%s`, not self.secret" % (variant, key)
        passed = [decision.describe_deep(H, a, 2) for a in pl.args[1:]]
        if passed != ["arg2"] and passed != ["arg%d" % i for i in range(2, 2 + len(passed))]:
            return None, "arm %s does not MAC the chunks it was given (%s)" % (variant, passed)
        Ms.add(pl.callee)
    if len(Ms) != 1:
        return None, "%s uses %d different MAC functions" % (H.name, len(Ms))
    M = prog.fns[tuple(Ms)[0]]
    nf = M.calls_to(r"::new_from_slice$")
    up = M.calls_to(r"::update$")
    fin = M.calls_to(r"::finalize$")
    if len(nf) == 1 and len(fin) == 1 and len(up) >= 2 and M.argc >= 3:
        # fixed form `M(key, a, b)`: new_from_slice(key); update(a); update("."); update(b); finalize -- no loop, each update
        # unconditional, in dominance order; the answer is the finalized MAC
        from .lib.bound import natural_loops as _nl
        if _nl(M):
            return None, "%s mixes a loop with several updates" % M.name
        ups = sorted(up, key=lambda c: len(M.dom_chain(c.bb)))
        order = []
        for c in ups:
            if any(fa.kind in ("cmp", "boolcall", "int", "boolplace", "boolphi") for fa in guards.facts_at(M, prog, c.bb)) or not all(M.dominates(c.bb, e) for e in M.exits()):
                return None, "an update of %s is conditional" % M.name
            rc = paths.root_call(M, c.args[0], through=paths.TRANSPARENT + r"|DerefMut>::deref_mut$")
            if rc is None or rc.bb != nf[0].bb:
                return None, "an update of %s feeds another MAC" % M.name
            cc = M.const_args(c)[1]
            d = decision.describe_deep(M, c.args[1], 4)
            m_ = re.fullmatch(r"(?:as_bytes\()?(arg\d)\)?", d)
            order.append(cc["s"] if cc is not None and "s" in cc else (bytes(cc["b"]).decode("latin1") if cc is not None and cc.get("b") else (m_.group(1) if m_ else "?")))
        okf = (decision.describe_deep(M, nf[0].args[0], 2) == "arg1" and paths.root_call(M, fin[0].args[0]) is not None and paths.root_call(M, fin[0].args[0]).bb == nf[0].bb
               and all(M.dominates(u.bb, fin[0].bb) for u in ups) and "finalize(" in decision.describe_deep(M, ["c", [0, []]], 8) and "?" not in order)
        if not okf:
            return None, "%s does not feed its arguments, in order, into one MAC keyed with its first argument (%s)" % (M.name, order)
        FIXED_ORDER[H.key] = order
        return out, "%s -> %s (fixed: %s)" % (H.name, M.name, order)
    if not (len(nf) == 1 and len(up) == 1 and len(fin) == 1):
        return None, "%s is not new_from_slice; update per chunk; finalize" % M.name
    from .lib.bound import natural_loops
    loops = natural_loops(M)
    in_loop = any(up[0].bb in body for body in loops.values())
    ok = (decision.describe_deep(M, nf[0].args[0], 2) == "arg1" and in_loop and "arg2" in decision.describe_deep(M, up[0].args[1], 5)
          and paths.root_call(M, up[0].args[0], through=paths.TRANSPARENT + r"|DerefMut>::deref_mut$") is not None and paths.root_call(M, up[0].args[0], through=paths.TRANSPARENT + r"|DerefMut>::deref_mut$").bb == nf[0].bb
          and paths.root_call(M, fin[0].args[0]) is not None and paths.root_call(M, fin[0].args[0]).bb == nf[0].bb and M.dominates(nf[0].bb, fin[0].bb)
          and not any(fin[0].bb in body for body in loops.values()))
    # every chunk is fed: the update is not under any condition other than the loop's own `Some(chunk)`
    conds = [fa for fa in guards.facts_at(M, prog, up[0].bb) if fa.kind in ("cmp", "boolcall", "int", "boolplace", "boolphi")]
    ok = ok and not conds
    rets = paths.ret_sites(M)
    ok = ok and len(rets) == 1 and "finalize(" in decision.describe_deep(M, ["c", [0, []]], 6)
    if not ok:
        return None, "%s does not feed every chunk, in order, into one MAC keyed with its first argument" % M.name
    return out, "%s -> %s" % (H.name, M.name)


def chunks_of(f, op):
    """the elements of an array literal passed (by reference) as the chunk list -> [operand] or None"""
    st = f.origin(op)
    for _ in range(4):
        if st and st[-1][0] == "agg" and st[-1][1][1].get("k") == "array":
            return list(st[-1][1][2])
        if st and st[-1][0] == "call" and st[-1][1].args:
            st = f.origin(st[-1][1].args[0])
            continue
        break
    lv = paths.leaf_values(f, op)
    for l in lv:
        if l[0] == "other" and isinstance(l[1], list) and l[1][0] == "agg" and l[1][1].get("k") == "array":
            return list(l[1][2])
    return None


def check_sig_eq(f, prog, eqc, nx):
    """eqc: the call comparing the MAC with the presented signature -> (ok, how)"""
    if re.search(r"PartialEq", eqc.callee or ""):
        tys = [t.replace("&", "").strip() for t in eqc.targs[:2]]
        if not all(re.fullmatch(r"\[u8\]|alloc::vec::Vec<u8>|\[u8; \d+\]", t) for t in tys):
            return False, "comparison is on %s, expected whole byte-slice equality" % tys
    elif eqc.callee in prog.fns:
        okh, howh = whole_slice_helper(prog, prog.fns[eqc.callee])
        if not okh:
            return False, howh
    else:
        return False, "comparison is %s" % eqc.callee
    a, b = eqc.args[:2]
    ra, rb = paths.root_call(f, a), paths.root_call(f, b)
    if ra is not None and ra.name != "finalize":
        ra, rb, a, b = rb, ra, b, a
    # form 2: the MAC comes from a local helper shared with issue(): H(self, [header part, ".", payload part])
    for (x, y, rx, ry) in ((a, b, ra, rb), (b, a, rb, ra)):
        if rx is not None and rx.callee in prog.fns and ry is not None and ry.name == "base64_url_decode" and "jwt::JWT" in (rx.callee or ""):
            H = prog.fns[rx.callee]
            summ, why = mac_helper_summary(prog, H)
            if summ is None:
                return False, why
            adt = prog.adt(r"jwt::VerifyingAlgorithm$")
            variants = [v["name"] for v in adt["variants"]]
            if set(summ) != set(variants) or any(DIGEST.get(v) != d for v, d in summ.items()):
                return False, "the MAC helper maps %r, expected %r" % (summ, DIGEST)
            sigpart = paths.root_call(f, ry.args[0])
            if sigpart is None or len(nx) < 3 or sigpart.bb != nx[2].bb:
                return False, "the decoded signature is not the 3rd part"
            fixed = FIXED_ORDER.get(H.key)
            if fixed is not None:
                seq = []
                for it in fixed:
                    m_ = re.fullmatch(r"arg(\d)", it)
                    if not m_:
                        seq.append(it)
                        continue
                    k = int(m_.group(1)) - 1
                    r = paths.root_call(f, rx.args[k]) if k < len(rx.args) else None
                    idx = [i for i, n in enumerate(nx) if r is not None and n.bb == r.bb]
                    seq.append("part%d" % (idx[0] + 1) if idx else "?")
                if seq != ["part1", ".", "part2"]:
                    return False, "the helper MACs %s, expected [header part, '.', payload part]" % seq
                return True, "MAC helper %s (%s) over part1 '.' part2 == base64url(part3), whole-slice eq" % (H.name, ", ".join("%s:%s" % (v, d[3:]) for v, d in sorted(summ.items())))
            ch = chunks_of(f, rx.args[1]) if len(rx.args) > 1 else None
            if ch is None:
                return False, "the chunk list given to %s is not an array literal" % H.name
            seq = []
            for o in ch:
                stc = f.origin(o)
                lits = [x[1] for x in stc if x[0] == "const"]
                cs = None
                if stc and stc[-1][0] == "const":
                    cs = stc[-1][1].get("s")
                if cs is not None:
                    seq.append(cs)
                else:
                    r = paths.root_call(f, o)
                    idx = [i for i, n in enumerate(nx) if r is not None and n.bb == r.bb]
                    seq.append("part%d" % (idx[0] + 1) if idx else "?")
            if seq != ["part1", ".", "part2"]:
                return False, "the helper MACs %s, expected [header part, '.', payload part]" % seq
            return True, "MAC helper %s (%s) over part1 '.' part2 == base64url(part3), whole-slice eq" % (H.name, ", ".join("%s:%s" % (v, d[3:]) for v, d in sorted(summ.items())))
    if ra is None or ra.name != "finalize" or rb is None or rb.name != "base64_url_decode":
        return False, "compares %s with %s, expected finalize().into_bytes() with base64_url_decode(signature part)" % (decision.describe_deep(f, a, 3), decision.describe_deep(f, b, 3))
    sigpart = paths.root_call(f, rb.args[0])
    if sigpart is None or len(nx) < 3 or sigpart.bb != nx[2].bb:
        return False, "the decoded signature is not the 3rd part"
    # the MAC: new_from_slice(secret) ; update(header_part) ; update(".") ; update(payload_part) ; finalize  -- in this arm
    hs = f.origin(ra.args[0])
    mac = paths.root_call(f, ra.args[0])
    if mac is None or mac.name != "new_from_slice":
        return False, "finalize() is not applied to Hmac::new_from_slice(..)"
    key = decision.describe_deep(f, mac.args[0], 4)
    if "arg1.secret" not in key:
        return False, "the HMAC key is `%s`, not self.secret" % key
    # variant of the arm
    vf = [fa for fa in guards.facts_at(f, prog, mac.bb) if fa.kind == "variant" and fa.allowed and len(fa.allowed) == 1 and "alg" in guards.describe_origin(f, fa.steps)]
    if not vf:
        return False, "the HMAC is not computed under a match on self.alg"
    (variant,) = tuple(vf[-1].allowed)
    if DIGEST.get(variant) is None or DIGEST[variant] not in (mac.full or ""):
        return False, "arm %s uses %s" % (variant, re.findall(r"OidSha\d+", mac.full or ""))
    # updates between mac and finalize, in dominance order
    ups = [c for c in f.calls_to(r"::update$") if f.dominates(mac.bb, c.bb) and f.dominates(c.bb, ra.bb)]
    ups.sort(key=lambda c: len(f.dom_chain(c.bb)))
    seq = []
    for c in ups:
        st = f.origin(c.args[1])
        cc = f.const_args(c)[1]
        if cc is not None and "s" in cc:
            seq.append(cc["s"])
        else:
            r = paths.root_call(f, c.args[1])
            idx = [i for i, n in enumerate(nx) if r is not None and n.bb == r.bb]
            seq.append("part%d" % (idx[0] + 1) if idx else "?")
    if seq != ["part1", ".", "part2"]:
        return False, "arm %s MACs %s, expected [header part, '.', payload part]" % (variant, seq)
    return True, "arm %s: Hmac<%s>(secret) over part1 '.' part2 == base64url(part3), whole-slice eq" % (variant, DIGEST[variant][3:])


def unsigned_token_ok(f, op, before_bb):
    """is the MAC input `base64url(header_str()) . base64url(to_vec(payload))`, however the string was put together?"""
    from .lib import strbuild
    ps = strbuild.merged(strbuild.pieces(f, op, before_bb))
    shape = [(p_[0], p_[1] if p_[0] == "lit" else (p_[2].name if len(p_) > 2 and p_[2] is not None else "?")) for p_ in ps]
    ok = len(ps) == 3 and ps[1] == ("lit", ".") and all(p_[0] == "val" and len(p_) > 2 and p_[2] is not None and p_[2].name == "base64_url_encode" for p_ in (ps[0], ps[2]))
    if ok:
        ok = "header_str(" in decision.describe_deep(f, ps[0][2].args[0], 4) and "to_vec(" in decision.describe_deep(f, ps[2][2].args[0], 5)
    return ok, shape


def c12b(ck, prog):
    R = "C12-b SIBLING algorithm arms"
    alg = decision.variant_const_map(prog.method(r"jwt::JWT<Payload>$", "alg_str"), prog)
    hdr = decision.variant_const_map(prog.method(r"jwt::JWT<Payload>$", "header_str"), prog)
    adt = prog.adt(r"jwt::VerifyingAlgorithm$")
    variants = [v["name"] for v in adt["variants"]]
    ck.floor(R, "algorithm variants", len(variants), 3)
    for v in variants:
        ok = alg.get(v) == v
        ck.ob(R, "alg_str:%s" % v, ok, "", "" if ok else "alg_str() maps %s to %r" % (v, alg.get(v)), how="%s -> %r" % (v, alg.get(v)))
        try:
            h = json.loads(hdr.get(v) or "null")
        except ValueError:
            h = None
        ok = isinstance(h, dict) and h.get("alg") == v and h.get("typ") == "JWT"
        ck.ob(R, "header_str:%s" % v, ok, "", "" if ok else "header_str() for %s is %r (must be a JSON object with alg=%s, typ=JWT)" % (v, hdr.get(v), v), how="%s -> %s" % (v, hdr.get(v)))
        ok = v in DIGEST
        ck.ob(R, "known-digest:%s" % v, ok, "", "" if ok else "no digest known for variant %s" % v, how=DIGEST.get(v, ""))
    # issue(): per arm Hmac<Sha n>(secret).update(unsigned_token) ; unsigned_token = b64(header_str) '.' b64(payload)
    f = prog.method(r"jwt::JWT<Payload>$", "issue")
    macs = f.calls_to(r"::new_from_slice$")
    seen = set()
    helper_calls = [c for c in f.calls() if c.callee in prog.fns and "jwt::JWT" in (c.callee or "") and mac_helper_summary(prog, prog.fns[c.callee])[0] is not None] if not macs else []
    if helper_calls:
        # issue() signs through the same MAC helper verified() uses
        hc = helper_calls[0]
        summ, how_h = mac_helper_summary(prog, prog.fns[hc.callee])
        vh = [c for c in prog.method(r"jwt::JWT<Payload>$", "verified").calls() if c.callee == hc.callee]
        ok = len(helper_calls) == 1 and bool(vh) and all(DIGEST.get(v) == d for v, d in summ.items())
        ck.ob(R, "issue:same-MAC-helper-as-verified", ok, f.loc(hc.sp), "" if ok else "issue() and verified() do not compute the MAC through the same helper with the expected hash per algorithm (%r)" % summ, how=how_h)
        seen = set(summ)
        ch = chunks_of(f, hc.args[1]) if len(hc.args) > 1 else None
        ok = ch is not None and len(ch) == 1
        srcs, exts = [], []
        if ok:
            start = paths.root_call(f, ch[0])
            ok = start is not None and start.name == "base64_url_encode" and "header_str(" in decision.describe_deep(f, start.args[0], 3)
            ext = [c for c in f.calls_to(r"String::(push|push_str)$") if paths.root_call(f, c.args[0]) is not None and start is not None and paths.root_call(f, c.args[0]).bb == start.bb and f.dominates(c.bb, hc.bb)]
            exts = [(c.name, decision.describe_deep(f, c.args[1], 4)) for c in ext]
            ok = ok and len(ext) == 2 and exts[0] == ("push", "const '.'") and exts[1][0] == "push_str" and "base64_url_encode(" in exts[1][1] and "to_vec(" in exts[1][1]
        if not ok and ch is not None and len(ch) == 1:
            ok, exts = unsigned_token_ok(f, ch[0], hc.bb)
        fixed = FIXED_ORDER.get(hc.callee)
        if not ok and fixed is not None and len(hc.args) >= 3:
            # `helper(&header_part, &payload_part)` with the helper feeding a, ".", b: the two parts are b64(header_str) and
            # b64(to_vec(payload)), and the token is assembled from the same two values
            da, db = decision.describe_deep(f, hc.args[1], 5), decision.describe_deep(f, hc.args[2], 5)
            ok = fixed == ["arg2", ".", "arg3"] and "base64_url_encode(" in da and "header_str(" in da and "base64_url_encode(" in db and "to_vec(" in db
            exts = [da[:40], ".", db[:40]]
        ck.ob(R, "issue:signed-bytes", ok, f.loc(hc.sp), "" if ok else "issue() MACs %s, expected b64(header_str) + '.' + b64(to_vec(payload)) once" % (exts,), how="helper([b64(header) . b64(payload)])")
    else:
        ck.floor(R, "issue arms", len(macs), 3)
    for mac in macs:
        vf = [fa for fa in guards.facts_at(f, prog, mac.bb) if fa.kind == "variant" and fa.allowed and len(fa.allowed) == 1 and "alg" in guards.describe_origin(f, fa.steps)]
        if not vf:
            ck.ob(R, "issue-arm@bb", False, f.loc(mac.sp), "an HMAC in issue() is not under a match on self.alg")
            continue
        (variant,) = tuple(vf[-1].allowed)
        seen.add(variant)
        key = decision.describe_deep(f, mac.args[0], 4)
        ok = DIGEST.get(variant, "?") in (mac.full or "") and "arg1.secret" in key
        ck.ob(R, "issue:%s:digest+key" % variant, ok, f.loc(mac.sp), "" if ok else "issue() arm %s uses %s keyed with %s" % (variant, re.findall(r"OidSha\d+", mac.full or ""), key), how="Hmac<%s>(self.secret)" % DIGEST.get(variant, "?")[3:])
        ups = [c for c in f.calls_to(r"::update$") if f.dominates(mac.bb, c.bb) and paths.root_call(f, c.args[0]) is not None and paths.root_call(f, c.args[0]).bb == mac.bb]
        srcs = [decision.describe_deep(f, c.args[1], 3) for c in ups]
        ok = len(ups) == 1
        if ok:
            # the MAC input is the string that was started as b64(header_str) and then extended by push('.') / push_str(b64(payload)),
            # all before this arm
            start = paths.root_call(f, ups[0].args[1])
            ok = start is not None and start.name == "base64_url_encode" and "header_str(" in decision.describe_deep(f, start.args[0], 3)
            ext = [c for c in f.calls_to(r"String::(push|push_str)$") if paths.root_call(f, c.args[0]) is not None and start is not None and paths.root_call(f, c.args[0]).bb == start.bb and f.dominates(c.bb, mac.bb)]
            exts = [(c.name, decision.describe_deep(f, c.args[1], 4)) for c in ext]
            ok = ok and len(ext) == 2 and exts[0] == ("push", "const '.'") and exts[1][0] == "push_str" and "base64_url_encode(" in exts[1][1] and "to_vec(" in exts[1][1]
            if not ok:
                ok, exts = unsigned_token_ok(f, ups[0].args[1], mac.bb)
            srcs = [srcs, exts]
        ck.ob(R, "issue:%s:signed-bytes" % variant, ok, f.loc(mac.sp), "" if ok else "issue() arm %s MACs %s, expected b64(header_str) + '.' + b64(to_vec(payload)) once" % (variant, srcs), how="update(b64(header) . b64(payload))")
    ok = seen == set(variants)
    ck.ob(R, "issue:arms-cover-variants", ok, f.loc(None), "" if ok else "issue() has arms for %s, variants are %s" % (sorted(seen), variants), how=str(sorted(seen)))
    # the unsigned token: b64url(header_str) . b64url(to_vec(payload))
    encs = f.calls_to(r"^ohkami::util::base64_url_encode")
    srcs = [decision.describe_deep(f, c.args[0], 3) for c in encs]
    ok = any("header_str(" in s for s in srcs) and any("to_vec(" in s for s in srcs)
    ck.ob(R, "issue:unsigned-token", ok, f.loc(None), "" if ok else "issue() base64url-encodes %s, expected header_str() and to_vec(payload)" % srcs, how="; ".join(s[:40] for s in srcs))
    pushes = [f.const_args(c)[1] for c in f.calls_to(r"String::push$")]
    ok = len(pushes) == 2 and all(p and p.get("ch") == "." for p in pushes)
    if not ok:
        # whatever builds the token text: three values with a `.` between them
        from .lib import strbuild
        toks = [st["r"] for bi in sorted(f.live_blocks()) for st in f.blocks[bi]["st"] if st["k"] == "=" and st["r"][0] == "agg" and st["r"][1].get("adt", "").endswith("JWTToken")]
        if len(toks) == 1 and toks[0][2]:
            ps = strbuild.merged(strbuild.pieces(f, toks[0][2][0]))
            ok = [p_[0] if p_[0] == "val" else p_[1] for p_ in ps] == ["val", ".", "val", ".", "val"]
            pushes = [(p_[1] if p_[0] == "lit" else "<value>") for p_ in ps]
    ck.ob(R, "issue:separators", ok, f.loc(None), "" if ok else "issue() joins the parts with %s, expected '.' twice" % pushes, how="header . payload . signature")
    # base64url helpers use URL_SAFE_NO_PAD on both sides
    for nm in ("base64_url_encode", "base64_url_decode"):
        g = prog.one(r"^ohkami::util::%s$" % nm)
        txt = json.dumps(g.blocks)
        ok = "URL_SAFE_NO_PAD" in txt and re.search(r"Engine::(encode|decode)$", " ".join(c.decl or "" for c in g.calls())) is not None
        ck.ob(R, "alphabet:%s" % nm, ok, g.loc(None), "" if ok else "%s does not use the URL_SAFE_NO_PAD engine" % nm, how="general_purpose::URL_SAFE_NO_PAD")


def c12c(ck, prog):
    R = "C12-c MUSTPASS gate"
    bite = [f for f in prog.fns.values() if f.name == "bite" and f.self_ty and re.search(r"jwt::(_::)?JWTProc<", f.self_ty)]
    if len(bite) != 1:
        raise AnchorLost("JWTProc::bite not found")
    f = prog.coroutine_body(bite[0].key)
    pred = paths.variant_of_call(r"jwt::JWT::<Payload>::verified$", "Ok")
    n = 0
    for c in f.calls_to(r"^ohkami::fang::FangProc::bite$|^ohkami::request::context::Context::set$"):
        n += 1
        fa = paths.has_fact(f, prog, c.bb, pred)
        ck.ob(R, "%s-under-Ok" % c.name, fa is not None, f.loc(c.sp),
              "" if fa else "JWTProc::bite calls %s on a path where verified() has not returned Ok" % c.callee, how="dominated by the Ok edge of verified() (switch bb%d)" % (fa.sw_bb if fa else -1))
        if c.name == "bite":
            recv = decision.describe_deep(f, c.args[0], 3)
            ok = "inner" in recv
            ck.ob(R, "bite-receiver", ok, f.loc(c.sp), "" if ok else "the proc called is `%s`, not self.inner" % recv, how=recv)
        if c.name == "set":
            src = decision.describe_deep(f, c.args[1], 4)
            ok = "verified(" in src and "@Ok" in src
            ck.ob(R, "context-value", ok, f.loc(c.sp), "" if ok else "context.set stores `%s`, not the Ok payload of verified()" % src, how=src[:80])
    ck.floor(R, "gated calls", n, 2)
    # the Err edge returns that error response
    errs = [s for s in paths.ret_sites(f) if s[1] == "move"]
    ok = False
    for bb, kind, payload in errs:
        src = decision.describe_deep(f, payload, 4)
        if "verified(" in src and "@Err" in src:
            ok = True
    ck.ob(R, "err-returned", ok, f.loc(None), "" if ok else "the Err response of verified() is not what bite returns on the error edge", how="return Err payload of verified()")


def c12d(ck, prog):
    f = prog.method(r"jwt::JWT<Payload>$", "verified")
    rr = ReachRule(ck, prog, "C12-d REACH", [f], audit=AUDIT, unsafe=True,
                   stop=[r"^ohkami::response::", r"<impl ohkami::response::Response>", r"^ohkami::request::headers::"],
                   boundary=[r"^serde_core::", r"^core::ops::function::Fn"])
    sinks = rr.run()
    ck.floor("C12-d REACH", "functions reached", len(rr.R.reached), 3)
