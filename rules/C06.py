"""C06 Responses depend on the byte stream, not on how TCP segmented it.
Decides two clauses: (C06-a) the byte count returned by the first read bounds what is parsed; (C06-b) every payload
read_payload hands out has exactly the announced length, whatever else the segment carried.
Everything else in C06 quantifies over schedules of an external actor and is not visible in code shape."""
import re

from . import C02
from .lib import decision, guards, paths
from .lib.mir import AnchorLost, Call

CONFIGS_QUICK = ["A", "R"]
CONFIGS_THOROUGH = ["A", "R", "ASYNCSTD", "SMOL", "NIO", "GLOMMIO"]
TECHNIQUE = ('def-use of the read count in the built MIR of Request::read (USED-RESULT); extent pairing of read_payload; loop membership of the stream read and '
             'provenance of the parse extent (MUSTPASS)')
LEVEL_TEXT = ('Decides four clauses. C06-b: every value Request::read_payload returns is sized by its `size` parameter (the Content-Length), in each of its three cas'
              "es -- body complete in the head's segment, body partly there, body not there -- so bytes behind the announced length (a coalesced next request) are ne"
              "ver attributed to this request's body. C06-a: in Request::read the count of received bytes flows into the extent of what is parsed (not only into the "
              "`== 0` test), and read_payload does not decide 'nothing received' from the value of a buffer byte. C06-c: the stream read that fills the head buffer i"
              's repeated (it sits in a loop) until the head is complete, so a head that arrives in several segments is parsed like the unsplit one. C06-d: the exten'
              't of what a parse covers is initialised from state kept across requests -- a necessary condition for serving a second request that arrived in the same'
              ' segment as the first (known finding on the pinned tree: it starts from 0, the coalesced request is dropped). The search for the end of the head runs '
              'over a prefix of the buffer bounded by the received count, not over the whole buffer (which keeps bytes of earlier requests). C06-c3: inside the loop '
              "that receives the head, every exit that gives up without parsing depends only on the read's result (count, error) and on counters, never on the conten"
              "t of the bytes received so far (a decision on a partial head depends on where the segments were cut). C06-e: the session loop's clear-before-each-read"
              ' clause and the exhaustiveness of the reset (C05-a/b) re-evaluated: whatever one read left in the Request is reset before the next read on every path,'
              ' also after a refused request. C06-c4: the receive loop is left for the parser only over an edge that establishes that the head is complete, that the '
              'buffer is full, or that the read returned 0 bytes (not on a short read). C06-f: from every edge on which the announced Content-Length is not 0, Reques'
              't::read reaches no Ok(Some) without the read_payload call (an announced body is consumed with its request, whatever the method). These are necessary c'
              'onditions of segmentation independence; the behaviour for all segmentations is not decided.')


def run(ck, progs):
    ck.explanation = LEVEL_TEXT
    ck.assumptions = ["AsyncRead::read returns the number of bytes written into the buffer"]
    for cfg, prog in progs.items():
        ck.config = cfg
        ck.guard("C06-a USED-RESULT", lambda: c06a(ck, prog))
        ck.guard("C06-b PAIR payload extent", lambda: c06b(ck, prog))
        ck.guard("C06-c MUSTPASS head complete", lambda: c06c(ck, prog))
        ck.guard("C06-e MUSTPASS nothing carried over", lambda: c06e(ck, prog))
        ck.guard("C06-f MUSTPASS announced body consumed", lambda: c06f(ck, prog))
    ck.config = None


def c06a(ck, prog):
    sub = type(ck)(ck.prop, ck.tier)
    sub.config = ck.config
    C02.c02d(sub, prog)
    for o in sub.obs:
        ck.ob("C06-a USED-RESULT", o["key"], o["ok"], o["where"], o["detail"], o["how"])
    # no value-of-byte sentinel in read_payload: the only comparisons steering it are on lengths/sizes
    f = prog.one(r"^ohkami::request::Request::read_payload::\{closure#0\}$")
    bad = []
    for bi in sorted(f.live_blocks()):
        t = f.term(bi)
        if t["k"] != "switch" or f.is_cleanup(bi):
            continue
        info = f.switch_info(bi)
        if info["kind"] == "bool":
            last = info["steps"][-1]
            if last[0] == "bin":
                for side in (last[1][2], last[1][3]):
                    p = side[1] if side[0] in ("c", "m") else None
                    if p is not None and f.place_ty(p) == "u8":
                        bad.append(f.loc(t.get("sp")))
        elif info["kind"] == "int" and info.get("ty") == "u8":
            bad.append(f.loc(t.get("sp")))
    ok = not bad
    ck.ob("C06-a USED-RESULT", "no-byte-sentinel", ok, bad[0] if bad else f.loc(None),
          "" if ok else "read_payload branches on the value of a received byte: 'not yet received' is guessed from content", how="read_payload branches only on lengths")


def c06b(ck, prog):
    R = "C06-b PAIR payload extent"
    par = prog.one(r"^ohkami::request::Request::read_payload$")
    f = prog.coroutine_body(par.key)
    f = prog.inlined(f, 1, r"from_elem$|Slice::new_unchecked$|Slice::from_bytes$")       # a local helper may hold the allocation
    # the length parameter: the usize parameter of read_payload; the buffer parameter: the &[u8] one
    size_args = ["arg%d" % i for i in range(1, par.argc + 1) if par.locals[i] == "usize"]
    if len(size_args) != 1:
        ck.ob(R, "anchor", False, par.loc(None), "read_payload no longer has exactly one usize parameter (the announced length)")
        return
    size_arg = size_args[0]

    def is_size(g, op):
        st = g.origin(op)
        if not st:
            return False
        if st[-1][0] == "arg":
            return paths.capture_desc(prog, g, op) == size_arg
        return False
    n = 0
    for bb, kind, payload in paths.ret_sites(f):
        if kind != "Ok":
            continue
        n += 1
        d = decision.describe_deep(f, payload[2][0], 8)
        rc = paths.root_call(f, payload[2][0], through=r"(::into_boxed_slice|Into<.*>::into|::into)$")
        ok, how = False, d[:70]
        # CowSlice::Ref(Slice::new_unchecked(ptr, size)) / CowSlice::Own(vec![0; size].into_boxed_slice())
        inner = f.origin(payload[2][0])
        agg = inner[-1][1] if inner and inner[-1][0] == "agg" else None
        if agg is not None and agg[2]:
            c = paths.root_call(f, agg[2][0], through=r"(::into_boxed_slice|Into<.*>::into)$")
            if c is not None and c.name == "new_unchecked" and "Slice" in (c.callee or "") and len(c.args) == 2:
                ok = is_size(f, c.args[1])
                how = "Ref(Slice::new_unchecked(ptr, %s))" % decision.describe_deep(f, c.args[1], 2)
            elif c is not None and c.name == "from_elem" and len(c.args) == 2:
                ok = is_size(f, c.args[1])
                how = "Own(vec![0; %s])" % decision.describe_deep(f, c.args[1], 2)
            elif c is not None and c.name == "from_bytes" and c.args:
                # Slice::from_bytes(&buf[..size])
                ic = paths.root_call(f, c.args[0], through=r"$^")
                rng = f.origin(ic.args[1]) if ic is not None and ic.name in ("index", "get_unchecked", "get") and len(ic.args) > 1 else None
                if rng and rng[-1][0] == "agg" and rng[-1][1][1].get("adt", "").endswith("RangeTo") and rng[-1][1][2]:
                    ok = is_size(f, rng[-1][1][2][0])
                how = "Ref(Slice::from_bytes(%s))" % decision.describe_deep(f, c.args[0], 3)
            elif c is not None:
                how = "%s(%s)" % (c.name, ", ".join(decision.describe_deep(f, a, 2) for a in c.args))
        ck.ob(R, "case%d" % n, ok, f.loc(None),
              "" if ok else "read_payload returns a payload built as %s: its extent is not the announced length, so whatever else arrived in the same segment (the next pipelined request, a trailing CRLF) becomes part of this request's body" % how,
              how="payload = %s" % how)
    ck.floor(R, "payload cases", n, 2)


STREAM_READ = r"(AsyncReadExt|ReadExt|AsyncRead)::read$|io::(read::)?ReadExt::read$"


def c06c(ck, prog):
    """Two necessary conditions of `any split ... and any coalescing ... yields the same parsed requests`:
    (c) the head may arrive in several reads, so the read that fills the head buffer is repeated until the head is complete
        (it sits in a loop other than the poll loop of its own await);
    (d) a read may carry the start of the next request, so parsing a request must be possible without a fresh read of the
        stream (bytes left over from the previous read are parsed first) or the read must append behind kept bytes."""
    from .lib.bound import natural_loops
    f = prog.one(r"^ohkami::request::Request::read::\{closure#0\}$")
    f = prog.awaited_inlined(f)      # the receive loop may live in an awaited helper of Request
    reads = [c for c in f.calls() if re.search(STREAM_READ, c.callee or "") or re.search(STREAM_READ, c.decl or "")]
    if len(reads) != 1:
        raise AnchorLost("expected one stream read in Request::read, found %d" % len(reads))
    rd = reads[0]
    loops = natural_loops(f)
    parse = [c for c in f.calls() if re.search(r"request::method::Method::from_bytes$", c.callee or "")]
    if not parse:
        raise AnchorLost("Method::from_bytes not called in Request::read")
    # the await of the read future is a loop around poll(); a loop that repeats the read contains the call that creates the future
    around = [h for h, body in loops.items() if rd.bb in body]
    ok = bool(around)
    ck.ob("C06-c MUSTPASS head complete", "read:repeated-until-head-complete", ok, f.loc(rd.sp),
          "" if ok else "Request::read fills its buffer with a single stream.read(..) and parses whatever that one call returned: a request head that arrives in two segments "
          "(`GET /a HT` + `TP/1.1\\r\\n..`) is answered 505/400 instead of being parsed like the unsplit head",
          how="the stream read sits in a loop (header bb%s) that ends when the head is complete" % (around[0] if around else "-"))
    # (c') the search for the end of the head looks at every window that can hold it: over buf[..received], or from a resume
    # offset that keeps at least (terminator length - 1) of the bytes searched before
    for w in [c for c in f.calls() if c.name in ("windows",) and len(c.args) > 1]:
        k = guards.const_int(f.origin(w.args[1])[-1][1]) if f.origin(w.args[1]) and f.origin(w.args[1])[-1][0] == "const" else None
        if k is None:
            ko = f.origin(w.args[1])
            if ko and ko[-1][0] == "call" and ko[-1][1].name == "len" and ko[-1][1].args:
                ka = f.origin(ko[-1][1].args[0])
                if ka and ka[-1][0] == "const" and (ka[-1][1].get("b") or ka[-1][1].get("s")):
                    k = len(ka[-1][1].get("b") or ka[-1][1].get("s"))
        st = f.origin(w.args[0])
        ix = st[-1][1] if st and st[-1][0] == "call" else None
        if ix is None or ix.name not in ("index", "get_unchecked") or len(ix.args) < 2 or "__buf__" not in decision.describe_deep(f, ix.args[0], 4):
            continue
        rs = f.origin(ix.args[1])
        okw, why = True, "searches buf[..received]"
        if rs and rs[-1][0] == "agg" and re.search(r"ops::range::Range$", rs[-1][1][1].get("adt", "") or ""):
            start = f.origin(rs[-1][1][2][0])
            defs = []
            if start and start[-1][0] == "multi":
                for (dbb, si, dk, payload) in f.defs().get(start[-1][1], []):
                    if f.is_cleanup(dbb):
                        continue
                    if dk == "assign" and payload["r"][0] == "use":
                        defs.append(f.origin(payload["r"][1]))
                    elif dk == "call":
                        defs.append([("call", Call(f, dbb, payload, False), [])])
                    else:
                        defs.append(None)
            else:
                defs = [start]
            for d in defs:
                if d and d[-1][0] == "const" and guards.const_int(d[-1][1]) == 0:
                    continue
                if d and d[-1][0] == "call" and d[-1][1].name in ("saturating_sub", "wrapping_sub", "checked_sub") and len(d[-1][1].args) > 1:
                    back = f.origin(d[-1][1].args[1])
                    kb = guards.const_int(back[-1][1]) if back and back[-1][0] == "const" else None
                    if kb is not None and k is not None and kb >= k - 1:
                        continue
                    okw, why = False, "resumes %s byte(s) before the bytes already searched, but a terminator of %s bytes can begin up to %s bytes before them" % (kb, k, (k - 1) if k else "?")
                    continue
                okw, why = False, "starts at an offset this rule cannot bound (%s)" % (guards.describe_origin(f, d) if d else "?")
        ck.ob("C06-c MUSTPASS head complete", "head-end-search:covers-every-window", okw, f.loc(w.sp),
              "" if okw else "the search for the end of the head %s: when `\\r\\n\\r` ends one read and `\\n` starts the next, the end is never found and the request is not answered" % why,
              how=why)
    # (c'') ... and only at received bytes: the buffer is not wiped completely between requests (clear() stops at the first
    # NUL), so a search over the whole buffer can find the terminator of an earlier request beyond `received`
    fw = prog.inlined(f, 2, r"<impl \[T\]>::windows$|memchr::memmem|<impl \[T\]>::(starts_with|ends_with|contains)$")
    searches = [c for c in fw.calls() if c.name in ("windows", "find", "contains", "position", "rposition") and c.args and "__buf__" in decision.describe_deep(fw, c.args[0], 8)
                and fw.dominates(c.bb, [x for x in fw.calls() if re.search(r"request::method::Method::from_bytes$", x.callee or "")][0].bb) is not None]
    searches = [c for c in searches if any(rd.bb in body and c.bb in body for body in natural_loops(fw).values()) or c.name == "windows"]
    for c in searches:
        d = decision.describe_deep(fw, c.args[0], 8)
        bounded = re.search(r"(index|get_unchecked|get|index_mut)\((deref\(|deref_mut\()*[^,]*__buf__[^,]*,Range(To)?\{", d) is not None or re.search(r"split_at(_mut)?\([^,]*__buf__[^,]*,[^)]*\)\.0", d) is not None \
            or re.search(r"take\(", d) is not None
        ck.ob("C06-c MUSTPASS head complete", "head-end-search:within-received-bytes", bounded, fw.loc(c.sp),
              "" if bounded else "the search for the end of the head runs over `%s`, not over the bytes received for this request: bytes of an earlier request that clear() left in the buffer (it stops wiping at the first NUL) "
              "can end a head that has only partly arrived, so a head split across two segments is parsed truncated and refused" % d[:80],
              how="searches a prefix of the buffer bounded by the received count")
    ck.floor("C06-c MUSTPASS head complete", "head-end searches", len(searches), 1)
    # (c3) while the head is being received, nothing but `the head is complete` is decided from the bytes received so far:
    # what a partial head looks like depends on where the segments were cut, so a give-up (a return from inside the
    # receive loop) may depend on the read's result (count, error) and on counters, not on buffer content
    def _strip_read(d):
        out, i = "", 0
        rx = re.compile(r"poll\(|(?<![A-Za-z_])read\(|(?<![A-Za-z_])is_empty\(|(?<![A-Za-z_])len\(")     # the read's result; lengths (of any part of the buffer) are not content
        while i < len(d):
            m = rx.search(d, i)
            if not m:
                out += d[i:]
                break
            out += d[i:m.start()] + "<read>"
            depth, j = 1, m.end()
            while j < len(d) and depth:
                depth += (d[j] == "(") - (d[j] == ")")
                j += 1
            i = j
        return out
    around_rd = sorted([(len(body), h) for h, body in loops.items() if rd.bb in body])
    if around_rd:
        L = loops[around_rd[0][1]]
        outside_parse = [c for c in parse if c.bb not in L]
        nexit = 0
        for u in sorted(L):
            if f.is_cleanup(u):
                continue
            for v, lab in f.succ(u):
                if v in L or f.is_cleanup(v):
                    continue
                reach = f.reachable_from(v)
                if any(c.bb in reach for c in outside_parse):
                    continue
                nexit += 1
                for sb in sorted(L):
                    t = f.blocks[sb]["t"]
                    if t["k"] != "switch" or not f.dominates(sb, u):
                        continue
                    d = _strip_read(decision.describe_deep(f, t["discr"], 14))
                    content = "__buf__" in d and not re.search(r"windows\(|find\(|position\(|contains\(|memmem|memchr|ends_with\(", d)
                    # (`len(__buf__)` is capacity, not content)
                    content = content and not re.fullmatch(r"[A-Za-z]+\((var:\w+|const \d+),len\([^()]*__buf__[^()]*\)\)", d)
                    if content:
                        ck.ob("C06-c MUSTPASS head complete", "receive-loop:no-decision-on-partial-content", False, f.loc(t.get("sp")),
                              "inside the loop that receives the head, a return without parsing depends on `%s`, i.e. on the content of the bytes received so far: whether the request is dropped then depends on where its head was cut into segments (a cut inside the method token, say), not on the request" % d[:110])
        # (c4) the loop is left for the parser only when the head is complete, the buffer is full, or the peer has stopped
        # sending (a read of 0 bytes): not on a short read, a byte count or any other test -- a head that arrives in two
        # segments would otherwise be parsed truncated
        bad_exit = None
        nparse = 0
        # evaluated on the function that holds the loop natively (Request::read itself, or the awaited helper the loop was
        # moved into): in a spliced-in view the helper's `return Ok(None)` and `Ok(Some(n))` share one continuation
        raw = prog.one(r"^ohkami::request::Request::read::\{closure#0\}$")
        g4 = raw if [c for c in raw.calls() if re.search(STREAM_READ, c.callee or "") or re.search(STREAM_READ, c.decl or "")] else None
        if g4 is None:
            cands = [h for h in prog.fns.values() if h.key.startswith("ohkami::request::") and h.coroutine and [c for c in h.calls() if re.search(STREAM_READ, c.callee or "") or re.search(STREAM_READ, c.decl or "")]]
            if len(cands) != 1:
                raise AnchorLost("the function holding the head-receive loop was not found (%d candidates)" % len(cands))
            g4 = cands[0]
        rd4 = [c for c in g4.calls() if re.search(STREAM_READ, c.callee or "") or re.search(STREAM_READ, c.decl or "")][0]
        loops4 = natural_loops(g4)
        ar4 = sorted([(len(body), h) for h, body in loops4.items() if rd4.bb in body])
        if not ar4:
            raise AnchorLost("the stream read is not in a loop")
        L4 = loops4[ar4[0][1]]
        goal = {c.bb for c in g4.calls() if re.search(r"request::method::Method::from_bytes$", c.callee or "") and c.bb not in L4}
        if g4 is not raw:
            goal = {bb for bb, kind, payload in paths.ret_sites(g4) if kind in ("Ok", "Ready") and "Some" in decision.describe_deep(g4, payload[2][0], 3)} if False else set()
            for bb, kind, payload in paths.ret_sites(g4):
                try:
                    dsc = decision.describe_deep(g4, payload[2][0], 4) if kind not in ("call", "residual", "const", "move") else ""
                except Exception:
                    dsc = ""
                if kind == "Ok" and "Some" in dsc:
                    goal.add(bb)
        for u in sorted(L4):
            if g4.is_cleanup(u) or g4.blocks[u]["t"]["k"] != "switch":
                continue
            by_succ = {}
            for v, lab in g4.succ(u):
                by_succ.setdefault(v, set()).add(lab)
            for v, labs in by_succ.items():
                if v in L4 or g4.is_cleanup(v):
                    continue
                reach = g4.reachable_from(v)
                if not (goal & reach):
                    continue
                nparse += 1
                try:
                    facts = list(guards.derive(g4, prog, guards.edge_facts(g4, prog, u, labs))) + list(guards.facts_at(g4, prog, u))
                except Exception:
                    facts = list(guards.facts_at(g4, prog, u))
                okx = False
                for fa in facts:
                    if fa.kind == "boolcall" and fa.truth and fa.call.name in ("any", "contains", "is_some") and re.search(r"windows\(|find\(|position\(|memmem", decision.describe_deep(g4, fa.call.args[0], 8) if fa.call.args else ""):
                        okx = True      # the head-end search answered yes
                    elif fa.kind == "variant" and fa.allowed == {"Some"} and fa.steps and re.search(r"find|position|memmem", guards.describe_origin(g4, fa.steps)):
                        okx = True
                    elif fa.kind == "cmp":
                        l, r = guards.describe_origin(g4, fa.lhs), guards.describe_origin(g4, fa.rhs)
                        if fa.op in ("Ge", "Gt", "Eq") and re.search(r"const (1024|\d{4,})|BUF_SIZE|len", r) and not re.search(r"poll|read", l):
                            okx = True      # the buffer is full
                        if fa.op == "Eq" and r == "const 0" and re.search(r"poll|read|Ok", l):
                            okx = True      # the read returned 0 bytes
                    elif fa.kind == "int" and fa.values == {0}:
                        okx = True          # `Ok(0)`
                    elif fa.kind == "boolcall" and fa.truth and fa.call.name == "is_empty":
                        okx = True          # no room left in the buffer
                if not okx:
                    bad_exit = (u, v)
        f4 = g4
        okc4 = bad_exit is None and nparse >= 1
        ck.ob("C06-c MUSTPASS head complete", "receive-loop:left-only-when-complete-full-or-eof", okc4, f4.loc(f4.blocks[bad_exit[0]]["t"].get("sp")) if bad_exit else f.loc(rd.sp),
              "" if okc4 else "the loop that receives the head is left for the parser over an edge (bb%s -> bb%s) that establishes neither `the head is complete`, nor `the buffer is full`, nor `the read returned 0 bytes`: a head that arrives in two segments is parsed truncated" % (bad_exit if bad_exit else ("?", "?")),
              how="%d exit(s) towards the parser, each under head-complete / buffer-full / read-of-0" % nparse)
        ck.ob("C06-c MUSTPASS head complete", "receive-loop:no-decision-on-partial-content", True, f.loc(rd.sp), how="%d give-up exit(s) of the receive loop depend only on the read's result and on counters" % nexit)
    # (d) the number of valid bytes at the start of a parse comes from state kept across requests, not from 0
    ext = [c for c in f.calls() if c.name in ("index", "get_unchecked", "get") and len(c.args) > 1 and "__buf__" in decision.describe_deep(f, c.args[0], 4)
           and f.dominates(c.bb, parse[0].bb)]
    kept = False
    what = "?"
    for c in ext:
        st = f.origin(c.args[1])
        if not (st and st[-1][0] == "agg"):
            continue
        for o in st[-1][1][2]:
            os_ = f.origin(o)
            if os_ and os_[-1][0] == "multi" and not os_[-1][2]:
                what = decision.describe_deep(f, o, 2)
                for (dbb, si, dk, payload) in f.defs().get(os_[-1][1], []):
                    if f.is_cleanup(dbb) or dk != "assign":
                        continue
                    r = payload["r"]
                    d = decision.describe_deep(f, r[1], 4) if r[0] == "use" and r[1][0] != "k" else ""
                    if re.search(r"arg1\.\^?self\.(?!__buf__)", d) and "poll(" not in d:
                        kept = True
            elif os_ and os_[-1][0] == "arg":
                kept = True
    ok = kept
    ck.ob("C06-d MUSTPASS carry-over", "parse-extent-from-kept-state", ok, f.loc(rd.sp),
          "" if ok else "the extent of what Request::read parses (`%s`) starts from 0 on every request and the session clears the buffer before each read: bytes of a following request "
          "that arrived in the same segment are dropped, so of two requests sent in one segment only the first is ever answered" % what,
          how="the parse extent is initialised from state kept across requests")


def c06e(ck, prog):
    """`no byte of one request is ever attributed to another request`: whatever one read left in the Request (headers, query,
    payload, the buffer's bytes) is reset before the next read on the connection, on every path of the session loop -- also
    after a refused (400/505) request. This is the session loop's clear-before-each-read clause (C05-b) and the reset's
    exhaustiveness (C05-a), re-evaluated here because a skipped reset is what attributes one request's bytes to the next."""
    R = "C06-e MUSTPASS nothing carried over"
    from . import C05
    sub = type(ck)(ck.prop, ck.tier)
    sub.config = ck.config
    sub.guard("C05-b MUSTPASS session loop", lambda: C05.c05b(sub, prog))
    sub.guard("C05-a EXHAUSTIVE reset", lambda: C05.c05a(sub, prog))
    n = 0
    for o in sub.obs:
        if o["key"] in ("clear-before-each-read", "anchor-lost") or (o["rule"].startswith("C05-a") and not o["key"].startswith("floor:")):
            n += 1
            ck.ob(R, o["rule"].split(" ")[0] + ":" + o["key"], o["ok"], o["where"], o["detail"], how=o["how"], nontrivial=o.get("nontrivial", True))
    ck.floor(R, "reset clauses", n, 10)


def c06f(ck, prog):
    """A request that announces a body (Content-Length > 0) has that body consumed as part of the request, whatever its
    method: otherwise body bytes that arrive in a later segment stay in the socket and are parsed as the next request, while
    the same bytes in the head's segment are dropped -- the outcome depends on the segmentation. In Request::read, from every
    edge on which the announced length is not 0, no `Ok(Some(()))` is reached without the read_payload call."""
    R = "C06-f MUSTPASS announced body consumed"
    f = prog.one(r"^ohkami::request::Request::read::\{closure#0\}$")
    rps = [c for c in f.calls() if c.name == "read_payload"]
    if len(rps) != 1:
        raise AnchorLost("Request::read does not call read_payload exactly once (%d)" % len(rps))
    rp = rps[0]
    f = prog.inlined(f, 1, lambda caller, callee: callee.crate == caller.crate and callee.kind != "Closure" and not callee.coroutine and callee.name not in ("read_payload", "read") and not [ch for ch in prog.children(callee.key) if ch.coroutine] and "request" in callee.key and len(callee.blocks) < 60)      # a length-parsing helper (never an async fn)
    rps = [c for c in f.calls() if c.name == "read_payload"]
    rp = rps[0]
    size_d = decision.describe_deep(f, rp.args[2], 3) if len(rp.args) > 2 else "?"
    oks = {bb for bb, kind, payload in paths.ret_sites(f) if kind == "Ok" and "Some" in decision.describe_deep(f, payload[2][0], 3)}
    # the decisions on the announced length: switches in front of read_payload whose discriminant is (a comparison of) the
    # very value handed to it
    sws = []
    for sb in sorted(f.live_blocks()):
        t = f.blocks[sb]["t"]
        if t["k"] != "switch" or f.is_cleanup(sb) or not f.dominates(sb, rp.bb):
            continue
        d = decision.describe_deep(f, t["discr"], 4)
        if size_d != "?" and (d == size_d or re.fullmatch(r"(Gt|Ge|Ne|Eq|Lt|Le)\((%s,const \d+|const \d+,%s)\)" % (re.escape(size_d), re.escape(size_d)), d)):
            sws.append(sb)
    bad = None
    def _implies_nonzero(sb, lab):
        t = f.blocks[sb]["t"]
        d = decision.describe_deep(f, t["discr"], 4)
        if d == size_d:
            listed = [int(v) for v, _ in t["targets"]]
            return (lab != "otherwise" and lab != 0) or (lab == "otherwise" and 0 in listed)
        m = re.fullmatch(r"(Gt|Ge|Ne|Eq|Lt|Le)\((.*),(.*)\)", d)
        if not m:
            return False
        op, a, b = m.group(1), m.group(2), m.group(3)
        if a.startswith("const ") and b == size_d:
            op = {"Gt": "Lt", "Ge": "Le", "Lt": "Gt", "Le": "Ge"}.get(op, op)
            a, b = b, a
        if not b.startswith("const "):
            return False
        k = int(b.split()[1])
        truth = lab != 0
        if op == "Gt":
            return truth and k >= 0
        if op == "Ge":
            return truth and k >= 1
        if op == "Ne":
            return truth and k == 0
        if op == "Eq":
            return (not truth) and k == 0
        if op == "Lt":
            return (not truth) and k >= 1
        if op == "Le":
            return (not truth) and k >= 0
        return False
    for sb in sws:
        for tb, lab in f.succ(sb):
            if f.is_cleanup(tb) or not _implies_nonzero(sb, lab):
                continue        # an edge that does not establish `the announced length is not 0`
            if rp.bb not in f.reachable_from(tb):
                continue        # the too-large refusal
            if oks & f.reachable_from(tb, avoid=(rp.bb,)):
                bad = (sb, tb)
    if not sws and oks and not all(f.dominates(rp.bb, o) for o in oks):
        # no decision on the length at all, yet some success answer bypasses read_payload
        bad = (rp.bb, rp.bb)
    ok = bad is None and bool(oks)
    ck.ob(R, "nonzero-length:read_payload", ok, f.loc(f.blocks[bad[0]]["t"].get("sp")) if bad else f.loc(rp.sp),
          "" if ok else "Request::read can answer Ok(Some) for a request that announced a body without consuming it (a path from `Content-Length != 0` around read_payload): body bytes arriving in a later segment are then parsed as the next request, the same bytes in the head's segment are dropped",
          how="from the non-zero edges of the length decision, no Ok(Some) without read_payload")
