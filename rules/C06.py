"""C06 Responses depend on the byte stream, not on how TCP segmented it.
Decides exactly one clause (C06-a): the byte count returned by the first read bounds what is parsed.
Everything else in C06 quantifies over schedules of an external actor and is not visible in code shape."""
from . import C02

CONFIGS_QUICK = ["A"]
CONFIGS_THOROUGH = ["A", "R", "ASYNCSTD", "SMOL", "NIO", "GLOMMIO"]
TECHNIQUE = "def-use of the read count in the built MIR of Request::read (USED-RESULT)"
LEVEL_TEXT = ("Decides one clause, C06-a: in Request::read the Ok(n) payload of stream.read(&mut buf) flows into the extent of what is parsed "
              "(not only into the `== 0` test), and read_payload does not decide 'nothing received' from the value of a buffer byte. This is a necessary "
              "condition of segmentation independence for arbitrary byte content (without n a received 0 byte is indistinguishable from padding). "
              "Decides this clause only: heads split over several reads and several requests coalesced in one read are not decided.")


def run(ck, progs):
    ck.explanation = LEVEL_TEXT
    ck.assumptions = ["AsyncRead::read returns the number of bytes written into the buffer"]
    for cfg, prog in progs.items():
        ck.config = cfg
        ck.guard("C06-a USED-RESULT", lambda: c06a(ck, prog))
    ck.config = None


def c06a(ck, prog):
    sub = type(ck)(ck.prop, ck.tier)
    sub.config = ck.config
    C02.c02d(sub, prog)
    for o in sub.obs:
        ck.ob("C06-a USED-RESULT", o["key"], o["ok"], o["where"], o["detail"], o["how"])
    # no value-of-byte sentinel in read_payload: the only comparisons steering it are on lengths/sizes
    f = prog.one(r"^ohkami::request::Request::read_payload::\{closure#0\}$")
    bad = []
    for bi in sorted(f.live_blocks()):
        t = f.term(bi)
        if t["k"] != "switch" or f.is_cleanup(bi):
            continue
        info = f.switch_info(bi)
        if info["kind"] == "bool":
            last = info["steps"][-1]
            if last[0] == "bin":
                for side in (last[1][2], last[1][3]):
                    p = side[1] if side[0] in ("c", "m") else None
                    if p is not None and f.place_ty(p) == "u8":
                        bad.append(f.loc(t.get("sp")))
        elif info["kind"] == "int" and info.get("ty") == "u8":
            bad.append(f.loc(t.get("sp")))
    ok = not bad
    ck.ob("C06-a USED-RESULT", "no-byte-sentinel", ok, bad[0] if bad else f.loc(None),
          "" if ok else "read_payload branches on the value of a received byte: 'not yet received' is guessed from content", how="read_payload branches only on lengths")
