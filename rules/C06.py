"""C06 Responses depend on the byte stream, not on how TCP segmented it.
Decides two clauses: (C06-a) the byte count returned by the first read bounds what is parsed; (C06-b) every payload
read_payload hands out has exactly the announced length, whatever else the segment carried.
Everything else in C06 quantifies over schedules of an external actor and is not visible in code shape."""
import re

from . import C02
from .lib import decision, paths

CONFIGS_QUICK = ["A"]
CONFIGS_THOROUGH = ["A", "R", "ASYNCSTD", "SMOL", "NIO", "GLOMMIO"]
TECHNIQUE = "def-use of the read count in the built MIR of Request::read (USED-RESULT)"
LEVEL_TEXT = ("Decides two clauses. C06-b: every value Request::read_payload returns is sized by its `size` parameter (the Content-Length), in each of its three "
              "cases -- body complete in the head's segment, body partly there, body not there -- so bytes behind the announced length (a coalesced next "
              "request) are never attributed to this request's body. C06-a: in Request::read the Ok(n) payload of stream.read(&mut buf) flows into the extent of what is parsed "
              "(not only into the `== 0` test), and read_payload does not decide 'nothing received' from the value of a buffer byte. This is a necessary "
              "condition of segmentation independence for arbitrary byte content (without n a received 0 byte is indistinguishable from padding). "
              "Decides these clauses only: heads split over several reads and several requests coalesced in one read are not decided.")


def run(ck, progs):
    ck.explanation = LEVEL_TEXT
    ck.assumptions = ["AsyncRead::read returns the number of bytes written into the buffer"]
    for cfg, prog in progs.items():
        ck.config = cfg
        ck.guard("C06-a USED-RESULT", lambda: c06a(ck, prog))
        ck.guard("C06-b PAIR payload extent", lambda: c06b(ck, prog))
    ck.config = None


def c06a(ck, prog):
    sub = type(ck)(ck.prop, ck.tier)
    sub.config = ck.config
    C02.c02d(sub, prog)
    for o in sub.obs:
        ck.ob("C06-a USED-RESULT", o["key"], o["ok"], o["where"], o["detail"], o["how"])
    # no value-of-byte sentinel in read_payload: the only comparisons steering it are on lengths/sizes
    f = prog.one(r"^ohkami::request::Request::read_payload::\{closure#0\}$")
    bad = []
    for bi in sorted(f.live_blocks()):
        t = f.term(bi)
        if t["k"] != "switch" or f.is_cleanup(bi):
            continue
        info = f.switch_info(bi)
        if info["kind"] == "bool":
            last = info["steps"][-1]
            if last[0] == "bin":
                for side in (last[1][2], last[1][3]):
                    p = side[1] if side[0] in ("c", "m") else None
                    if p is not None and f.place_ty(p) == "u8":
                        bad.append(f.loc(t.get("sp")))
        elif info["kind"] == "int" and info.get("ty") == "u8":
            bad.append(f.loc(t.get("sp")))
    ok = not bad
    ck.ob("C06-a USED-RESULT", "no-byte-sentinel", ok, bad[0] if bad else f.loc(None),
          "" if ok else "read_payload branches on the value of a received byte: 'not yet received' is guessed from content", how="read_payload branches only on lengths")


def c06b(ck, prog):
    R = "C06-b PAIR payload extent"
    par = prog.one(r"^ohkami::request::Request::read_payload$")
    f = prog.coroutine_body(par.key)
    # the length parameter: the usize parameter of read_payload; the buffer parameter: the &[u8] one
    size_args = ["arg%d" % i for i in range(1, par.argc + 1) if par.locals[i] == "usize"]
    if len(size_args) != 1:
        ck.ob(R, "anchor", False, par.loc(None), "read_payload no longer has exactly one usize parameter (the announced length)")
        return
    size_arg = size_args[0]

    def is_size(g, op):
        st = g.origin(op)
        if not st:
            return False
        if st[-1][0] == "arg":
            return paths.capture_desc(prog, g, op) == size_arg
        return False
    n = 0
    for bb, kind, payload in paths.ret_sites(f):
        if kind != "Ok":
            continue
        n += 1
        d = decision.describe_deep(f, payload[2][0], 8)
        rc = paths.root_call(f, payload[2][0], through=r"(::into_boxed_slice|Into<.*>::into|::into)$")
        ok, how = False, d[:70]
        # CowSlice::Ref(Slice::new_unchecked(ptr, size)) / CowSlice::Own(vec![0; size].into_boxed_slice())
        inner = f.origin(payload[2][0])
        agg = inner[-1][1] if inner and inner[-1][0] == "agg" else None
        if agg is not None and agg[2]:
            c = paths.root_call(f, agg[2][0], through=r"(::into_boxed_slice|Into<.*>::into)$")
            if c is not None and c.name == "new_unchecked" and "Slice" in (c.callee or "") and len(c.args) == 2:
                ok = is_size(f, c.args[1])
                how = "Ref(Slice::new_unchecked(ptr, %s))" % decision.describe_deep(f, c.args[1], 2)
            elif c is not None and c.name == "from_elem" and len(c.args) == 2:
                ok = is_size(f, c.args[1])
                how = "Own(vec![0; %s])" % decision.describe_deep(f, c.args[1], 2)
            elif c is not None and c.name == "from_bytes" and c.args:
                # Slice::from_bytes(&buf[..size])
                ic = paths.root_call(f, c.args[0], through=r"$^")
                rng = f.origin(ic.args[1]) if ic is not None and ic.name in ("index", "get_unchecked", "get") and len(ic.args) > 1 else None
                if rng and rng[-1][0] == "agg" and rng[-1][1][1].get("adt", "").endswith("RangeTo") and rng[-1][1][2]:
                    ok = is_size(f, rng[-1][1][2][0])
                how = "Ref(Slice::from_bytes(%s))" % decision.describe_deep(f, c.args[0], 3)
            elif c is not None:
                how = "%s(%s)" % (c.name, ", ".join(decision.describe_deep(f, a, 2) for a in c.args))
        ck.ob(R, "case%d" % n, ok, f.loc(None),
              "" if ok else "read_payload returns a payload built as %s: its extent is not the announced length, so whatever else arrived in the same segment (the next pipelined request, a trailing CRLF) becomes part of this request's body" % how,
              how="payload = %s" % how)
    ck.floor(R, "payload cases", n, 3)
