"""C16 derive(Schema) describes the JSON shape that serde actually reads and writes.
Decides (thin): (a) every shape-changing serde attribute that the derive parses is consulted by the generator; (b) the case
converters and the naming code do not panic on valid identifiers / valid serde names and do not discard letters."""
import re

from .C02 import places_in
from .lib import decision, guards, paths
from .lib.mir import AnchorLost
from .lib.reachrule import ReachRule

CONFIGS_QUICK = ["A", "R"]
CONFIGS_THOROUGH = ["A", "R"]
TECHNIQUE = ("field-read exhaustiveness of the parsed serde-attribute structs over the proc-macro crate's MIR; panic reachability and API-misuse rules (identifier "
             'construction from arbitrary strings, splitting at letters) in the naming code; decision structure of the word-boundary test in the variant case '
             'converter')
LEVEL_TEXT = ("Decides clauses C16-a..d: every field of the derive's ContainerAttributes / FieldAttributes / VariantAttributes that stands for a serde attribute chan"
              'ging the JSON shape is read somewhere outside its parser (an attribute that is parsed but never consulted cannot be honoured); the case converters rea'
              'ch no panicking string slicing that is not guarded, property and variant names are never turned into `Ident`s from converted or user-given strings (se'
              'rde names need not be identifiers: kebab-case, `rename = "a-b"`), and an identifier is never split at letters (which would drop them); the snake_case '
              "variant converter (on which kebab and the SCREAMING forms are built) pushes its `_` separator under exactly serde_derive's two per-character tests -- "
              'upper-case and not the first character -- and pushes the lower-cased character unconditionally; no name taken from an explicit `rename` attribute reac'
              'hes a container case conversion (reaching definitions of the name variable), so an explicit rename wins as in serde; on the camelCase arm of the field'
              ' converter the head of the PascalCase form is what gets lower-cased (`_id` -> `Id` -> `id`), on that of the variant converter the head of the name; in'
              ' the PascalCase loop the pending-capital flag is cleared on every path of an iteration that found it set (whatever character follows the `_` takes the'
              " capital). C16-g: in the field loops of schema_of_fields (predicate helpers expanded) no path from reading a field's attributes to a push of that fiel"
              "d's schema avoids the edge flag == false, for each of serde's skip, skip_serializing and skip_deserializing separately. C16-h: the proxy type whose sc"
              "hema stands for a container with serde's into / from / try_from is into's whenever into is given (from and try_from are used only on paths that found "
              'into absent). Decides these clauses, not agreement of the derived schema with serde_derive for all type definitions.')

ATTR = "ohkami_macros::openapi::attributes::serde::attributes::"
# serde attributes that do not change the serialized shape / the set of accepted documents described by the schema
NOT_SHAPE = {
    "FieldAttributes": {"alias": "deserialize-only alternative name; the schema describes the primary name"},
    "VariantAttributes": {"alias": "deserialize-only alternative name"},
    "ContainerAttributes": {},
}

AUDIT = [
    {"fn": r"serde::case::Case::apply_to_variant$", "sink": r"^panic-call:str index$",
     "guards": [{"kind": "reason", "reason": "`variant[..1]` / `variant[1..]` on a variant identifier, which is never empty; identical to serde_derive's own RenameRule::apply_to_variant (same behaviour on a non-ASCII initial)"}],
     "reason": "parity with serde_derive on identifiers"},
    {"fn": r"serde::case::Case::apply_to_field$", "sink": r"^panic-call:str index$",
     "guards": [{"kind": "operand", "which": "arg0", "from": {"call": r"Case::apply_to_field$"}}],
     "reason": "camelCase lower-cases the first character of the PascalCase form exactly like serde_derive (`pascal[..1]`); empty only for a field named with underscores only, which serde_derive rejects the same way"},
]


def run(ck, progs):
    ck.explanation = LEVEL_TEXT
    ck.assumptions = ["A4: serde's attribute reference (container/variant/field attributes)", "A5"]
    for cfg, prog in progs.items():
        ck.config = cfg
        ck.guard("C16-a EXHAUSTIVE attributes", lambda: c16a(ck, prog))
        ck.guard("C16-b REACH naming", lambda: c16b(ck, prog))
        ck.guard("C16-c DECISION word boundary", lambda: c16c(ck, prog))
        ck.guard("C16-e DECISION camelCase head", lambda: c16e(ck, prog))
        ck.guard("C16-f MUSTPASS PascalCase flag", lambda: c16f(ck, prog))
        ck.guard("C16-g DECISION each skip attribute skips", lambda: c16g(ck, prog))
        ck.guard("C16-h DECISION proxy type is the written one", lambda: c16h(ck, prog))
        ck.guard("C16-d ORDER rename precedence", lambda: c16d(ck, prog))
    ck.config = None


def c16a(ck, prog):
    R = "C16-a EXHAUSTIVE attributes"
    total = 0
    for st in ("ContainerAttributes", "FieldAttributes", "VariantAttributes"):
        adt = prog.adts.get(ATTR + st)
        if adt is None:
            raise AnchorLost("struct %s not found" % st)
        fields = [x[0] for x in adt["variants"][0]["fields"]]
        reads = {f: set() for f in fields}
        for f in prog.fns.values():
            if f.crate != "ohkami_macros":
                continue
            if f.name in ("parse", "default") and st in (f.self_ty or ""):
                continue
            for bi in f.live_blocks():
                b = f.blocks[bi]
                items = [s["r"] for s in b["st"] if s["k"] == "="] + [b["t"]]
                for it in items:
                    for pl in places_in(it):
                        for i, pr in enumerate(pl[1]):
                            if pr[0] == "f" and pr[2] in reads and st in f.place_ty([pl[0], pl[1][:i]]):
                                reads[pr[2]].add(f.name)
        for fld in fields:
            total += 1
            ex = NOT_SHAPE[st].get(fld)
            ok = bool(reads[fld]) or ex is not None
            ck.ob(R, "%s.%s" % (st, fld), ok, "ohkami_macros/src/openapi/attributes/serde/attributes.rs",
                  "" if ok else "#[serde(%s)] on a %s is parsed into %s.%s but never read by the schema generator: the derived schema ignores it while serde honours it" % (fld, st.replace("Attributes", "").lower(), st, fld),
                  how=("read in " + ", ".join(sorted(reads[fld]))[:60]) if reads[fld] else "exempt: " + str(ex))
    ck.floor(R, "attribute fields examined", total, 28)


def c16b(ck, prog):
    R = "C16-b REACH naming"
    roots = prog.find(r"^ohkami_macros::openapi::attributes::serde::case::Case::(apply_to_field|apply_to_variant)$")
    if len(roots) != 2:
        raise AnchorLost("Case::apply_to_field / apply_to_variant not found")
    rr = ReachRule(ck, prog, R, roots + [g for r in roots for g in prog.descendants(r.key)], audit=AUDIT, unsafe=False,
                   ignore_sink=lambda s: not (s.kind == "panic-call" and s.what in ("str index", "slice index", "Option::unwrap", "Option::expect", "Result::unwrap", "Result::expect")))
    sinks = rr.run()
    ck.floor(R, "converter sinks examined", len(sinks), 2)
    # identifiers are not split at letters
    for r in roots:
        for g in [r] + prog.descendants(r.key):
            for c in g.calls_to(r"^core::str::<impl str>::(split|rsplit|split_terminator|splitn|split_inclusive)$"):
                a = g.const_args(c)[1] if len(c.args) > 1 else None
                pat = decision.describe_deep(g, c.args[1], 2) if len(c.args) > 1 else "?"
                ok = a is not None and ("ch" in a or "s" in a) and not re.search(r"[A-Za-z]", a.get("ch", a.get("s", "")))
                ck.ob(R, "%s:split-pattern" % r.name, ok, g.loc(c.sp),
                      "" if ok else "Case::%s splits the identifier with pattern `%s`: split() discards the matched characters, here letters of the name (e.g. `FirstOne` -> `irst`, `ne`)" % (r.name, pat),
                      how="split at the literal %r" % (a.get("ch", a.get("s")) if a else None))
    # property / variant names must not become Idents from converted or user strings
    n = 0
    for f in prog.fns.values():
        if f.crate != "ohkami_macros" or "openapi" not in f.key:
            continue
        for c in f.calls_to(r"^proc_macro2::Ident::new$"):
            n += 1
            st = paths.root_steps(f, c.args[0], through=r"(::deref|::as_ref|::as_str|::borrow|Deref>::deref)$")
            last = st[-1] if st else None
            d = decision.describe_deep(f, c.args[0], 4)
            ok = last is not None and (last[0] == "const" or (last[0] == "call" and last[1].name == "to_string" and "Ident" in " ".join(last[1].targs) and not re.search(r"apply_to_|rename", d)))
            ck.ob(R, "Ident::new@%s#%d" % (f.name, c.bb), ok, f.loc(c.sp),
                  "" if ok else "%s builds an `Ident` from `%s`: serde names need not be identifiers (`rename_all = \"kebab-case\"`, `rename = \"my-name\"`), and Ident::new panics on them, so the derive fails on a valid type" % (f.name, d[:70]),
                  how="Ident::new(%s)" % d[:40])
    ck.stat("Ident::new sites examined", n)


def c16c(ck, prog):
    """serde's RenameRule::apply_to_variant for snake_case (and everything built on it) puts `_` before *every* upper-case
    character except the first one, whatever precedes it (`HTTPServer` -> `h_t_t_p_server`). The separator push in the
    derive's converter must be decided, per character, by exactly these two tests and nothing else."""
    R = "C16-c DECISION word boundary"
    from .lib.bound import natural_loops
    f = prog.one(r"serde::case::Case::apply_to_variant$")
    loops = natural_loops(f)
    seps = []
    for c in f.calls():
        if c.name != "push" or len(c.args) < 2:
            continue
        ca = f.const_args(c)
        if len(ca) > 1 and ca[1] and ca[1].get("ch") == "_":
            seps.append(c)
    if not seps:
        raise AnchorLost("no `push('_')` in Case::apply_to_variant")
    for c in seps:
        inner = [h for h, body in loops.items() if c.bb in body]
        if not inner:
            ck.ob(R, "separator:in-loop", False, f.loc(c.sp), "the `_` separator is pushed outside a per-character loop")
            continue
        h = min(inner, key=lambda x: len(loops[x]))
        body = loops[h]
        conds = []
        item = None
        for fa in guards.facts_at(f, prog, c.bb):
            if fa.sw_bb not in body:
                continue
            if fa.kind == "variant" and fa.allowed == {"Some"} and fa.steps and fa.steps[-1][0] == "call" and fa.steps[-1][1].name == "next":
                item = fa
                continue  # the loop's own `while let Some(..) = it.next()`
            if fa.kind == "boolcall" and fa.call.name == "is_uppercase" and fa.truth and "next(" in decision.describe_deep(f, fa.call.args[0], 4):
                conds.append("upper")
            elif fa.kind == "cmp" and ((fa.op == "Gt" and guards.const_int(fa.rhs[-1][1]) == 0 if fa.rhs and fa.rhs[-1][0] == "const" else False)
                                      or (fa.op == "Ne" and fa.rhs and fa.rhs[-1][0] == "const" and guards.const_int(fa.rhs[-1][1]) == 0)) \
                    and "next" in guards.describe_origin(f, fa.lhs):
                conds.append("not-first")
            else:
                conds.append("other:%s" % (fa.kind + ":" + (fa.call.name if fa.kind == "boolcall" else str(getattr(fa, "truth", "")))))
        ok = sorted(conds) == ["not-first", "upper"]
        ck.ob(R, "separator:conditions", ok, f.loc(c.sp),
              "" if ok else "the `_` separator of snake_case variant names is pushed under the per-character conditions %r; serde_derive pushes it exactly when the character "
              "is upper-case and not the first (so `HTTPServer` is `h_t_t_p_server`): any other or additional condition names variants differently from what serde reads and writes" % sorted(conds),
              how="push('_') iff index > 0 && ch.is_uppercase()")
    # the character itself is pushed on every iteration
    pushes = [c for c in f.calls() if c.name == "push" and c not in seps and any(c.bb in loops[h] for h in loops)]
    for c in pushes:
        h = min([h for h in loops if c.bb in loops[h]], key=lambda x: len(loops[x]))
        extra = [fa for fa in guards.facts_at(f, prog, c.bb) if fa.sw_bb in loops[h] and not (fa.kind == "variant" and fa.allowed == {"Some"})]
        d = decision.describe_deep(f, c.args[1], 4)
        ok = not extra and re.match(r"to_(ascii_)?lowercase\(next\(", d) is not None
        ck.ob(R, "character:always-pushed", ok, f.loc(c.sp), "" if ok else "the converted character `%s` is pushed under %d extra condition(s) / is not the lower-cased loop character" % (d[:60], len(extra)),
              how="push(ch.to_ascii_lowercase()) on every iteration")
    ck.floor(R, "separator pushes", len(seps), 1)
    ck.floor(R, "character pushes", len(pushes), 1)


def c16e(ck, prog):
    """serde's camelCase: for a field, the PascalCase form (underscores removed, the letter after each capitalised) with its
    *first character* lower-cased -- `_id` is `Id` in PascalCase, hence `id`; for a variant, the variant name with its first
    character lower-cased. On the Camel arm of each converter there must be a lower-casing of the head, applied to the
    PascalCase result (field) / to the name (variant), not to something else."""
    R = "C16-e DECISION camelCase head"
    for nm in ("apply_to_field", "apply_to_variant"):
        f = prog.one(r"serde::case::Case::%s$" % nm)
        arm = None
        for sb in sorted(f.live_blocks()):
            if f.blocks[sb]["t"]["k"] != "switch":
                continue
            info = f.switch_info(sb)
            if info and info.get("kind") == "variant" and info["place"] == [1, []]:
                names = prog.variant_names(info["ty"]) or {}
                tbs = [tb for tb, lab in f.succ(sb) if names.get(lab) == "Camel"]
                if not tbs:
                    tbs = [tb for tb, lab in f.succ(sb) if lab == "otherwise"]
                arm = f.reachable_from(tbs[0]) if tbs else None
                break
        if arm is None:
            ck.ob(R, "%s:camel-arm" % nm, False, f.loc(None), "no match on the case rule in Case::%s" % nm)
            continue
        lows = [c for c in f.calls() if c.name in ("to_ascii_lowercase", "to_lowercase", "make_ascii_lowercase") and c.bb in arm and c.args]
        descs = [decision.describe_deep(f, c.args[0], 8) for c in lows]
        head = lambda d: re.search(r"RangeTo\{const 1\}|RangeToInclusive\{const 0\}|next\((chars|char_indices)\(", d) is not None
        if nm == "apply_to_field":
            good = [d for d in descs if head(d) and "arg2" not in re.sub(r"apply_to_field\(Pascal\{\},arg2\)", "PASCAL", d) and ("PASCAL" in re.sub(r"apply_to_field\(Pascal\{\},arg2\)", "PASCAL", d) or d.startswith("var:") or "(var:" in d)]
            want = "the first character of the PascalCase form is lower-cased (`_id` -> `Id` -> `id`)"
        else:
            good = [d for d in descs if head(d) and "arg2" in d]
            want = "the first character of the variant name is lower-cased"
        ok = bool(good)
        ck.ob(R, "%s:camelCase" % nm, ok, f.loc(lows[0].sp if lows else None),
              "" if ok else "on the camelCase arm of Case::%s no lower-casing of the head of %s is found (lower-casings on the arm: %r): serde writes %s, "
              "so a field like `_id` / `Name` is named differently in the schema and on the wire" % (nm, "the PascalCase form" if nm == "apply_to_field" else "the name", descs, want),
              how="%s: %s" % (want, good[0][:70] if good else ""))


def c16f(ck, prog):
    """serde's PascalCase for fields: `_` is dropped and capitalises the *next character, whatever it is* (`pos_3d` -> `Pos3d`:
    the `3` takes the capital, the `d` stays). In the converter's loop the pending-capital flag must therefore be cleared
    on every path of an iteration that found it set and did not see another `_` -- not only when the character happens
    to be a lower-case letter."""
    R = "C16-f MUSTPASS PascalCase flag"
    from .lib.bound import natural_loops
    f = prog.one(r"serde::case::Case::apply_to_field$")
    loops = natural_loops(f)
    n = 0
    for l, defs in f.defs().items():
        if f.locals[l] != "bool" or l <= f.argc:
            continue
        consts = [(d[0], str(d[3]["r"][1][1].get("v"))) for d in defs if d[2] == "assign" and not d[3]["p"][1] and d[3]["r"][0] == "use" and d[3]["r"][1][0] == "k"]
        sets = [bb for bb, v in consts if v == "1" and any(bb in body for body in loops.values())]
        clears = [bb for bb, v in consts if v == "0" and any(bb in body for body in loops.values())]
        if not sets or not clears:
            continue
        # the loop that sets and clears the flag
        h = min([hh for hh, body in loops.items() if sets[0] in body], key=lambda hh: len(loops[hh]))
        body = loops[h]
        for sb in sorted(body):
            t = f.term(sb)
            if t["k"] != "switch" or t.get("dty") != "bool" or t["discr"][0] not in ("c", "m"):
                continue
            st = f.origin(t["discr"])
            if not (st and st[-1][0] == "multi" and st[-1][1] == l and not st[-1][2]):
                continue
            n += 1
            for tb, lab in f.succ(sb):
                if lab == 0 or tb not in body:
                    continue
                # from the edge `flag is set`: back to the loop header without clearing it (or setting it again for a new `_`)?
                reach = f.reachable_from(tb, avoid=tuple(set(clears) | set(sets)))
                ok = h not in reach
                ck.ob(R, "flag-cleared-by-the-next-character", ok, f.loc(t.get("sp")),
                      "" if ok else "in the PascalCase loop an iteration that finds the capitalise flag set can end without clearing it (only some characters take the capital): `pos_3d` becomes `Pos3D` where serde writes `Pos3d`, "
                      "so the schema names a property serde never writes", how="every path from `flag set` back to the loop head passes `flag = false` (or `flag = true` for another `_`)")
    ck.floor(R, "tests of the capitalise flag inside the conversion loop", n, 1)


def derives_from(f, rvalue, rx, seen, depth=5):
    """does an rvalue derive, through re-assigned temporaries (match arms joining in a tuple), from something whose
    description matches rx? -> the matching description or None"""
    if depth <= 0:
        return None
    ops = []
    if rvalue[0] == "use":
        ops = [rvalue[1]]
    elif rvalue[0] == "agg":
        ops = list(rvalue[2])
    for op in ops:
        if op[0] not in ("c", "m"):
            continue
        txt = decision.describe_deep(f, op, 6)
        if re.search(rx, txt):
            return txt
        st = f.origin(op)
        if st and st[-1][0] == "multi" and st[-1][1] not in seen:
            m = st[-1][1]
            for d in f.defs().get(m, []):
                if f.is_cleanup(d[0]):
                    continue
                if d[2] == "assign":
                    hit = derives_from(f, d[3]["r"], rx, seen | {m}, depth - 1)
                    if hit:
                        return hit
        if st and st[-1][0] == "agg":
            hit = derives_from(f, st[-1][1], rx, seen, depth - 1)
            if hit:
                return hit
    return None


def c16d(ck, prog):
    """serde: an explicit `#[serde(rename = "..")]` names the field/variant exactly; the container's `rename_all` /
    `rename_all_fields` case rule applies only to names that were not renamed explicitly. In the generator the name variable
    is assigned several times; no value derived from a `rename` attribute may reach a case conversion (reaching definitions)."""
    R = "C16-d ORDER rename precedence"
    n = 0
    kinds = {}
    for f in prog.fns.values():
        if f.crate != "ohkami_macros" or "case::Case" in f.key:
            continue
        for c in f.calls():
            if c.name not in ("apply_to_field", "apply_to_variant") or "case::Case" not in (c.callee or "") or len(c.args) < 2:
                continue
            n += 1
            kinds[c.name] = kinds.get(c.name, 0) + 1
            st = f.origin(c.args[1])
            if st and st[-1][0] == "call" and st[-1][1].name in ("deref", "as_str", "as_ref", "borrow") and st[-1][1].args:
                st = f.origin(st[-1][1].args[0])
            if not st or st[-1][0] != "multi":
                # converts a value that is not a re-assigned variable: judge it directly
                d = decision.describe_deep(f, c.args[1], 6)
                ok = re.search(r"\.rename\b", d) is None
                ck.ob(R, "%s:%s#bb-direct%d" % (f.name, c.name, n), ok, f.loc(c.sp), "" if ok else "%s converts the case of a value taken from a `rename` attribute (%s)" % (f.key, d[:80]), how="input of the case conversion: %s" % d[:60])
                continue
            local = st[-1][1]
            IN, OUT = paths.reaching_defs(f, local)
            reach = IN.get(c.bb, set()) if not any(d[0] == c.bb for d in OUT.get(c.bb, set()) if d[1] is not None) else IN.get(c.bb, set())
            bad = []
            for (dbb, si) in sorted(reach, key=lambda x: (x[0], x[1] or 0)):
                for d in f.defs().get(local, []):
                    if d[0] == dbb and d[1] == si:
                        if d[2] == "assign" and d[3]["r"][0] == "use":
                            txt = decision.describe_deep(f, d[3]["r"][1], 6)
                        elif d[2] == "call":
                            txt = decision.describe_deep(f, ["c", [local, []]], 6) if False else (d[3].get("callee") or "")
                        else:
                            txt = ""
                        if re.search(r"\.rename\b", txt):
                            bad.append(txt)
                        elif d[2] == "assign":
                            hit = derives_from(f, d[3]["r"], r"\.rename\b", {local})
                            if hit:
                                bad.append(hit)
            ok = not bad
            ck.ob(R, "%s:%s@%s" % (f.name, c.name, "rename_all_fields" if "rename_all_fields" in decision.describe_deep(f, c.args[0], 6) else "rename_all"), ok, f.loc(c.sp),
                  "" if ok else "in %s a name taken from an explicit `#[serde(rename = ..)]` (%s) reaches the container's case conversion: serde writes the renamed name verbatim "
                  "(`rename_all = \"camelCase\"` + `rename = \"legacy_id\"` is `legacy_id` on the wire, the schema would say `legacyId`)" % (f.key, bad[0][:70]),
                  how="no definition of the name derived from `.rename` reaches the conversion (%d reaching definition(s))" % len(reach))
    # floors per kind of name (a shared helper may serve several call sites: the count of sites is not the invariant)
    ck.floor(R, "case conversions of field names in the generator", kinds.get("apply_to_field", 0), 1)
    ck.floor(R, "case conversions of variant names in the generator", kinds.get("apply_to_variant", 0), 1)


def c16g(ck, prog):
    """serde leaves a field out of the serialized shape under `skip` or `skip_serializing`, and out of the accepted input
    under `skip` or `skip_deserializing`; the schema generator leaves a field out when any one of the three is set. In the
    field loops of schema_of_fields (attribute helpers expanded), no path from the point where a field's attributes were
    read to a push of that field's schema avoids the edge `<flag> is false`, for each of the three flags separately."""
    from .lib import pathsens
    R = "C16-g DECISION each skip attribute skips"
    fs = prog.find(r"^ohkami_macros::openapi::derive_schema::schema_of_fields$")
    if len(fs) != 1:
        raise AnchorLost("schema_of_fields not found")
    f = prog.inlined(fs[0], 2, lambda caller, callee: callee.crate == "ohkami_macros" and callee.locals and callee.locals[0] == "bool" and len(callee.blocks) < 40)       # predicate helpers, methods or free functions
    from .lib.bound import natural_loops
    loops = natural_loops(f)
    # (the newtype arm reads the attributes of its single field outside any loop and has nothing to leave out)
    news = [c for c in f.calls() if c.name == "new" and re.search(r"attributes::FieldAttributes::new$", c.callee or "") and any(c.bb in body for body in loops.values())]
    pushes = [c for c in f.calls() if c.name == "push" and re.search(r"Vec::<T, A>::push$|Vec::<T>::push$", c.callee or "")]
    ck.floor(R, "field loops (FieldAttributes::new sites)", len(news), 2)
    ck.floor(R, "schema pushes", len(pushes), 3)

    def flag_false_edge(flag):
        def test(fn, b, s, labs, known):
            t = fn.blocks[b]["t"]
            d = t.get("discr")
            if not d or d[0] not in ("c", "m") or t.get("dty") != "bool":
                return False
            projs = d[1][1]
            if not projs:
                # `_t = copy (attrs.serde).flag; switchInt(move _t)`
                for st in reversed(fn.blocks[b]["st"]):
                    if st["k"] == "=" and st["p"] == [d[1][0], []]:
                        if st["r"][0] == "use" and st["r"][1][0] in ("c", "m"):
                            projs = st["r"][1][1][1]
                        break
            if not projs:
                # the result of an expanded predicate helper whose last operand is returned as is (`a || b || flag`)
                sym = known.get(d[1][0])
                if isinstance(sym, tuple) and sym and sym[0] == "p":
                    return sym[-1] == flag and labs == {0}
            return bool(projs) and projs[-1][0] == "f" and projs[-1][2] == flag and labs == {0}
        return test
    for i, nw in enumerate(news):
        mine = [p_ for p_ in pushes if f.dominates(nw.bb, p_.bb) and not any(f.dominates(o.bb, p_.bb) and f.dominates(nw.bb, o.bb) and o is not nw for o in news)]
        for flag in ("skip", "skip_serializing", "skip_deserializing"):
            esc = None
            for p_ in mine:
                pth = pathsens.path_avoiding_edges(f, prog, nw.target, p_.bb, lambda facts: False, constprop=True, avoid=(nw.bb,), raw_edge_ok=flag_false_edge(flag))
                if pth is not None:
                    esc = (p_, pth)
                    break
            ok = bool(mine) and esc is None
            ck.ob(R, "loop#%d:%s" % (i, flag), ok, f.loc(esc[0].sp) if esc else f.loc(nw.sp),
                  "" if ok else "a field carrying #[serde(%s)] (alone) still gets a property/element in the derived schema (path bb%s): serde leaves the field out of %s, so values serde writes (or accepts) do not validate" % (
                      flag, "->".join(map(str, esc[1][:10])) if esc else "?", "the serialized shape" if flag != "skip_deserializing" else "the accepted input"),
                  how="every path to the %d push(es) of this loop takes the edge `%s == false`" % (len(mine), flag))


def c16h(ck, prog):
    """`#[serde(into = "A", from = "B")]`: serde writes the container through A and reads it through B; the schema describes
    what serde writes, so when `into` is given the proxy type whose schema stands for the container is `into`'s. In the two
    derive entry points the type handed to `parse_str::<Type>` is `from`'s or `try_from`'s only on paths that found `into`
    absent (or, written as an `or` chain, `into` comes first)."""
    R = "C16-h DECISION proxy type is the written one"
    n = 0
    for nm in ("derive_schema_for_struct", "derive_schema_for_enum"):
        fs = [f for f in prog.fns.values() if f.name == nm and f.crate == "ohkami_macros"]
        if len(fs) != 1:
            raise AnchorLost("%s not found" % nm)
        f = prog.inlined(fs[0], 2, lambda caller, callee: callee.crate == "ohkami_macros" and len(callee.blocks) < 40 and "derive_schema" in callee.key)
        for c in f.calls():
            if not (c.name == "parse_str" and "Type" in " ".join(c.targs)):
                continue
            d = decision.describe_deep(f, c.args[0], 12)
            if not re.search(r"serde\.(into|from|try_from)\b", d) and "var:" not in d:
                continue
            n += 1
            ok, why = True, ""
            order = re.findall(r"serde\.(into|from|try_from)\b", d)
            if order:
                # expression form: `a.or(b).or(c)` / `a.or_else(|| b)`: the leftmost present one wins
                ok = order[0] == "into" or "into" not in order and False
                why = "the proxy type is chosen in the order %s" % order
            else:
                # `match (&into, &from, &try_from) { (Some(t), _, _) | (_, Some(t), _) | .. => t }`: every definition of t
                op = c.args[0]
                st = f.origin(op)
                if st and st[-1][0] == "call" and st[-1][1].name in ("deref", "as_str", "as_ref") and st[-1][1].args:
                    op = st[-1][1].args[0]
                    st = f.origin(op)
                if not (st and st[-1][0] == "multi"):
                    ok, why = False, "the proxy type `%s` has a shape this rule cannot read" % d[:60]
                else:
                    for (dbb, si, dk, payload) in f.defs().get(st[-1][1], []):
                        if f.is_cleanup(dbb) or dk != "assign":
                            continue
                        r = payload["r"]
                        src = r[1] if r[0] == "use" else (["c", r[2]] if r[0] == "ref" else None)
                        dd = decision.describe_deep(f, src, 8) if src is not None else "?"
                        fld = re.findall(r"\.(into|from|try_from)\b", dd)
                        if not fld:
                            # bound through the tuple scrutinee: the tuple field index tells which attribute
                            tm = re.search(r"tuple\{([^{}]*)\}\.(\d)", dd)
                            if tm:
                                parts = tm.group(1).split(",")
                                k = int(tm.group(2))
                                fld = re.findall(r"\.(into|from|try_from)\b", parts[k]) if k < len(parts) else []
                        if not fld:
                            ok, why = False, "a definition of the proxy type (`%s`) cannot be attributed to an attribute" % dd[:60]
                            break
                        if fld[0] in ("from", "try_from"):
                            # (path form: the match's decision tree reaches this binding over several edges, none of which
                            # dominates it; the residual edge of the exhaustive `into` test is not a path)
                            from .lib import pathsens as _ps

                            def _into_none(facts):
                                for fa in facts:
                                    if fa.kind == "variant" and fa.allowed == {"None"}:
                                        w = decision.describe_deep(f, fa.place, 6) if getattr(fa, "place", None) else guards.describe_origin(f, fa.steps)
                                        if re.search(r"\.into\b", w):
                                            return True
                                return False
                            none_into = _ps.path_avoiding_edges(f, prog, 0, dbb, _into_none) is None
                            if not none_into:
                                ok, why = False, "the type of `%s` is used on a path that did not find `into` absent" % fld[0]
                                break
            ck.ob(R, "%s:into-first" % nm, ok, f.loc(c.sp), "" if ok else "%s: %s -- with #[serde(into = \"A\", from = \"B\")] the derived schema would describe B, the type serde reads through, while serde writes the container as A" % (nm, why),
                  how="from / try_from stand in only when into is absent")
    ck.floor(R, "proxy type selections", n, 2)
