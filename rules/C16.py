"""C16 derive(Schema) describes the JSON shape that serde actually reads and writes.
Decides (thin): (a) every shape-changing serde attribute that the derive parses is consulted by the generator; (b) the case
converters and the naming code do not panic on valid identifiers / valid serde names and do not discard letters."""
import re

from .C02 import places_in
from .lib import decision, guards, paths
from .lib.mir import AnchorLost
from .lib.reachrule import ReachRule

CONFIGS_QUICK = ["A"]
CONFIGS_THOROUGH = ["A", "R"]
TECHNIQUE = "field-read exhaustiveness of the parsed serde-attribute structs over the proc-macro crate's MIR; panic reachability and API-misuse rules (identifier construction from arbitrary strings, splitting at letters) in the naming code"
LEVEL_TEXT = ("Decides clauses C16-a/b: every field of the derive's ContainerAttributes / FieldAttributes / VariantAttributes that stands for a serde attribute "
              "changing the JSON shape is read somewhere outside its parser (an attribute that is parsed but never consulted cannot be honoured); the case "
              "converters reach no panicking string slicing that is not guarded, property and variant names are never turned into `Ident`s from converted or "
              "user-given strings (serde names need not be identifiers: kebab-case, `rename = \"a-b\"`), and an identifier is never split at letters (which "
              "would drop them). Decides these clauses, not agreement of the derived schema with serde_derive for all type definitions.")

ATTR = "ohkami_macros::openapi::attributes::serde::attributes::"
# serde attributes that do not change the serialized shape / the set of accepted documents described by the schema
NOT_SHAPE = {
    "FieldAttributes": {"alias": "deserialize-only alternative name; the schema describes the primary name"},
    "VariantAttributes": {"alias": "deserialize-only alternative name"},
    "ContainerAttributes": {},
}

AUDIT = [
    {"fn": r"serde::case::Case::apply_to_variant$", "sink": r"^panic-call:str index$",
     "guards": [{"kind": "reason", "reason": "`variant[..1]` / `variant[1..]` on a variant identifier, which is never empty; identical to serde_derive's own RenameRule::apply_to_variant (same behaviour on a non-ASCII initial)"}],
     "reason": "parity with serde_derive on identifiers"},
    {"fn": r"serde::case::Case::apply_to_field$", "sink": r"^panic-call:str index$",
     "guards": [{"kind": "operand", "which": "arg0", "from": {"call": r"Case::apply_to_field$"}}],
     "reason": "camelCase lower-cases the first character of the PascalCase form exactly like serde_derive (`pascal[..1]`); empty only for a field named with underscores only, which serde_derive rejects the same way"},
]


def run(ck, progs):
    ck.explanation = LEVEL_TEXT
    ck.assumptions = ["A4: serde's attribute reference (container/variant/field attributes)", "A5"]
    for cfg, prog in progs.items():
        ck.config = cfg
        ck.guard("C16-a EXHAUSTIVE attributes", lambda: c16a(ck, prog))
        ck.guard("C16-b REACH naming", lambda: c16b(ck, prog))
    ck.config = None


def c16a(ck, prog):
    R = "C16-a EXHAUSTIVE attributes"
    total = 0
    for st in ("ContainerAttributes", "FieldAttributes", "VariantAttributes"):
        adt = prog.adts.get(ATTR + st)
        if adt is None:
            raise AnchorLost("struct %s not found" % st)
        fields = [x[0] for x in adt["variants"][0]["fields"]]
        reads = {f: set() for f in fields}
        for f in prog.fns.values():
            if f.crate != "ohkami_macros":
                continue
            if f.name in ("parse", "default") and st in (f.self_ty or ""):
                continue
            for bi in f.live_blocks():
                b = f.blocks[bi]
                items = [s["r"] for s in b["st"] if s["k"] == "="] + [b["t"]]
                for it in items:
                    for pl in places_in(it):
                        for i, pr in enumerate(pl[1]):
                            if pr[0] == "f" and pr[2] in reads and st in f.place_ty([pl[0], pl[1][:i]]):
                                reads[pr[2]].add(f.name)
        for fld in fields:
            total += 1
            ex = NOT_SHAPE[st].get(fld)
            ok = bool(reads[fld]) or ex is not None
            ck.ob(R, "%s.%s" % (st, fld), ok, "ohkami_macros/src/openapi/attributes/serde/attributes.rs",
                  "" if ok else "#[serde(%s)] on a %s is parsed into %s.%s but never read by the schema generator: the derived schema ignores it while serde honours it" % (fld, st.replace("Attributes", "").lower(), st, fld),
                  how=("read in " + ", ".join(sorted(reads[fld]))[:60]) if reads[fld] else "exempt: " + str(ex))
    ck.floor(R, "attribute fields examined", total, 28)


def c16b(ck, prog):
    R = "C16-b REACH naming"
    roots = prog.find(r"^ohkami_macros::openapi::attributes::serde::case::Case::(apply_to_field|apply_to_variant)$")
    if len(roots) != 2:
        raise AnchorLost("Case::apply_to_field / apply_to_variant not found")
    rr = ReachRule(ck, prog, R, roots + [g for r in roots for g in prog.descendants(r.key)], audit=AUDIT, unsafe=False,
                   ignore_sink=lambda s: not (s.kind == "panic-call" and s.what in ("str index", "slice index", "Option::unwrap", "Option::expect", "Result::unwrap", "Result::expect")))
    sinks = rr.run()
    ck.floor(R, "converter sinks examined", len(sinks), 2)
    # identifiers are not split at letters
    for r in roots:
        for g in [r] + prog.descendants(r.key):
            for c in g.calls_to(r"^core::str::<impl str>::(split|rsplit|split_terminator|splitn|split_inclusive)$"):
                a = g.const_args(c)[1] if len(c.args) > 1 else None
                pat = decision.describe_deep(g, c.args[1], 2) if len(c.args) > 1 else "?"
                ok = a is not None and ("ch" in a or "s" in a) and not re.search(r"[A-Za-z]", a.get("ch", a.get("s", "")))
                ck.ob(R, "%s:split-pattern" % r.name, ok, g.loc(c.sp),
                      "" if ok else "Case::%s splits the identifier with pattern `%s`: split() discards the matched characters, here letters of the name (e.g. `FirstOne` -> `irst`, `ne`)" % (r.name, pat),
                      how="split at the literal %r" % (a.get("ch", a.get("s")) if a else None))
    # property / variant names must not become Idents from converted or user strings
    n = 0
    for f in prog.fns.values():
        if f.crate != "ohkami_macros" or "openapi" not in f.key:
            continue
        for c in f.calls_to(r"^proc_macro2::Ident::new$"):
            n += 1
            st = paths.root_steps(f, c.args[0], through=r"(::deref|::as_ref|::as_str|::borrow|Deref>::deref)$")
            last = st[-1] if st else None
            d = decision.describe_deep(f, c.args[0], 4)
            ok = last is not None and (last[0] == "const" or (last[0] == "call" and last[1].name == "to_string" and "Ident" in " ".join(last[1].targs) and not re.search(r"apply_to_|rename", d)))
            ck.ob(R, "Ident::new@%s#%d" % (f.name, c.bb), ok, f.loc(c.sp),
                  "" if ok else "%s builds an `Ident` from `%s`: serde names need not be identifiers (`rename_all = \"kebab-case\"`, `rename = \"my-name\"`), and Ident::new panics on them, so the derive fails on a valid type" % (f.name, d[:70]),
                  how="Ident::new(%s)" % d[:40])
    ck.stat("Ident::new sites examined", n)
