"""C02 HTTP/1.1 request bytes are parsed faithfully, malformed bytes are refused.
Decides: (a) no panic / unguarded unsafe op reachable from Request::read; (b) none from the request accessors
(their UTF-8 `expect`s discharged only by validation in read); (c) header/method tables; (d) the read byte count is used."""
import re

from .lib import decision, guards, paths
from .lib.mir import AnchorLost
from .lib.reachrule import ReachRule

CONFIGS_QUICK = ["A", "R"]
CONFIGS_THOROUGH = ["A", "R", "ASYNCSTD", "SMOL", "NIO", "GLOMMIO", "NOAPI"]
TECHNIQUE = "MIR call-graph reachability of panic/unsafe sinks from the request parser and accessors + guard audit; header/method literal tables; def-use of the read count"
LEVEL_TEXT = ('Decides clauses C02-a..f: no panic sink and no unguarded unsafe operation is reachable from Request::read/read_payload (request line, headers, Content'
              "-Length, body) or from the public request accessors (Path, Headers, Cookies) -- the accessors' UTF-8 expectations count as discharged only if Request:"
              ':read validates the same bytes before storing them; the request header table is case-consistent and recognised case-insensitively (and answers `custom'
              ' header` only after every case-insensitive name comparison failed), Method::from_bytes/as_str are inverse; the byte count returned by the first read b'
              'ounds what is parsed; `Headers::get(name)` answers None only after the standard header table was consulted for the name; no integer FromStr (`str::par'
              'se`, which accepts a leading `+`) is applied to wire text in Request::read; the value of a query pair yielded by QueryParams::iter runs from after the'
              " pair's first `=` to the end of the pair (not one item of a split at every `=`, no other upper bound). The integer-FromStr clause ranges over everythi"
              'ng Request::read can reach in the crate (local helpers included); the head parser is given a prefix of the buffer bounded by the received count, never'
              ' the whole buffer; the fallback closure of Headers::get consults the table before every answer it gives. C02-i: the part of an announced body that was'
              " not in the head's segment is read with read_exact or with reads repeated in a loop, never with a single read. Decides these clauses, not the faithful"
              'ness of every parsed field for all byte strings.')

STOP = [r"^ohkami::response::", r"<impl ohkami::response::Response>", r"<ohkami::response::Response as "]

READ_VALIDATES_VALUE = {"kind": "sibling", "fn": r"^ohkami::request::Request::read::\{closure#0\}$", "at_call": r"^ohkami::request::headers::Headers::(append|insert_custom)$",
                        "guard": {"kind": "utf8_checked"}}
READ_VALIDATES_PATH = {"kind": "sibling", "fn": r"^ohkami::request::Request::read::\{closure#0\}$", "at_call": r"Path>::init_with_request_bytes$",
                       "guard": {"kind": "all", "of": [{"kind": "utf8_checked"}, {"kind": "utf8_checked", "call": r"percent_decode_utf8$"}]}}

AUDIT = [
    # ---- Request::read
    {"fn": r"^ohkami::request::Request::\w+::\{closure#0\}$", "sink": r"^panic-call:(slice|array) index$|^assert:BoundsCheck$|^panic-call:split_at(_mut)?$",
     "guards": [{"kind": "operand", "which": "arg1", "from": {"call": r"Future>?::poll$", "payload": "Ok"}, "max_offset": 0, "dominated": False},
                {"kind": "accumulated_read_count"}],
     "reason": "`buf[..n]` / `buf[n..]` with n = the count returned by read(&mut buf), or the sum of the counts of reads into buf[n..]: <= buf.len() by AsyncRead's contract"},
    {"fn": r"^ohkami::request::Request::\w+::\{closure#0\}$", "sink": r"^assert:Overflow\(Add\)$",
     "guards": [{"kind": "accumulated_read_count"}],
     "reason": "`received += n`: received + n <= buf.len() because n was read into buf[received..]"},
    {"fn": r"^ohkami::request::Request::read::\{closure#0\}::\{closure#\d+\}$", "sink": r"^assert:Overflow\(Sub\)$",
     "guards": [{"kind": "cmp", "op": "Ge", "const": 48}], "reason": "`*b - b'0'` under the `b'0'..=b'9'` arm"},
    # ---- read_payload
    {"fn": r"^ohkami::request::Request::read_payload::\{closure#0\}$", "sink": r"^unsafe-call:core::slice::<impl \[T\]>::get_unchecked$",
     "guards": [{"kind": "cmp", "op": "Ne", "const": 0, "lhs_len": True}, {"kind": "cmp", "op": "Gt", "const": 0, "lhs_len": True}],
     "reason": "index 0 of a slice whose length was tested non-zero (short-circuit `len == 0 ||`)"},
    {"fn": r"^ohkami::request::Request::read_payload::\{closure#0\}$", "sink": r"^unsafe-call:ohkami_lib::slice::Slice::new_unchecked$",
     "guards": [{"kind": "all", "of": [{"kind": "cmp", "op": "Le", "lhs": {"param": True}, "rhs_len": True},
                                        {"kind": "operand", "which": "arg0", "from": {"call": r"::as_ptr$"}}]}],
     "reason": "(ptr, size) of the received bytes with size <= their length"},
    {"fn": r"^ohkami::request::Request::read_payload::\{closure#0\}$", "sink": r"^unsafe-call:core::slice::<impl \[T\]>::get_unchecked_mut$|^panic-call:copy_from_slice$",
     "guards": [{"kind": "cmp", "op": "Gt", "lhs": {"param": True}, "rhs_len": True}],
     "reason": "`..n` / `n..` of a buffer of length size on the else-edge of size <= n; copy_from_slice between slices of length n"},
    # ---- Path::init_with_request_bytes
    {"fn": r"Path>::init_with_request_bytes$", "sink": r"^assert:Overflow\(Sub\)$|^unsafe-call:core::slice::<impl \[T\]>::get_unchecked$",
     "guards": [{"kind": "variant", "variant": "Continue", "of": {"call": r"Try>::branch$"}}],
     "reason": "`bytes.first() == Some(b'/')` was required through `?`, so len >= 1 and index len-1 exists"},
    {"fn": r"Path>::init_with_request_bytes$", "sink": r"^unsafe-call:ohkami_lib::slice::Slice::new_unchecked$",
     "guards": [{"kind": "all", "of": [{"kind": "operand", "which": "arg0", "from": {"call": r"::as_ptr$"}},
                                        {"kind": "operand", "which": "arg1", "from": {"len": True}, "max_offset": 0, "min_offset": -1}]}],
     "reason": "(ptr, len or len-1) of the same slice"},
    {"fn": r"^ohkami_lib::slice::Slice::new_unchecked$", "sink": r".", "guards": [{"kind": "in_unsafe_fn"}], "reason": "unsafe fn"},
    # ---- accessors: `expect`s on stored bytes are sound only if read validated those bytes
    {"fn": r"^ohkami::request::headers::Headers::(get_standard|get|iter)(::\{closure#\d+\})*$", "sink": r"^panic-call:Result::expect$",
     "guards": [READ_VALIDATES_VALUE], "reason": "header names/values are stored only after from_utf8 succeeded in Request::read (setters take &str/String)"},
    {"fn": r"path::Path>::(str|as_ref|params::\{closure#0\})$", "sink": r"^panic-call:Result::expect$",
     "guards": [READ_VALIDATES_PATH], "reason": "the request target is stored only after it was checked to be UTF-8 both raw and percent-decoded"},
    {"fn": r"path::(Path|Params)>::(str|as_ref|params|deref|iter::\{closure#0\})$", "sink": r"^unsafe-call:core::mem::maybe_uninit::MaybeUninit::<T>::assume_init_ref$",
     "guards": [{"kind": "reason", "reason": "Path is written by init_with_request_bytes in Request::read before any handler/fang sees the request; Params.list[i] is written by push for i < next (C01-c bounds push)"}],
     "reason": "initialisation protocol of the request object"},
    {"fn": r"path::Params>::iter::\{closure#0\}$", "sink": r"^unsafe-call:core::slice::<impl \[T\]>::get_unchecked$",
     "guards": [{"kind": "reason", "reason": "i ranges over 0..self.next and next <= LIMIT is maintained by push (C01-c)"}], "reason": "loop index below the fill count"},
    {"fn": r"^ohkami::request::headers::Header::as_str$", "sink": r"^unsafe-call:core::str::converts::from_utf8_unchecked$",
     "guards": [{"kind": "const_ascii", "which": "arg0"}], "reason": "the operand is a byte-string literal of the header table; checked to be ASCII"},
    {"fn": r"^ohkami::request::headers::Headers::iter::\{closure#0\}$", "sink": r"^transmute:|^unsafe-call:core::intrinsics::transmute$",
     "guards": [{"kind": "reason", "reason": "the u8 is the first tuple component written by IndexMap::set(Header as usize): a valid discriminant"}], "reason": "IndexMap invariant"},
    {"fn": r"^ohkami::request::headers::Headers::append_custom$", "sink": r"^unsafe-call:core::option::Option::<T>::unwrap_unchecked$",
     "guards": [{"kind": "reason", "reason": "self.custom was set to Some on the is_none() edge just above"}], "reason": "just-initialised option"},
]


def run(ck, progs):
    ck.explanation = LEVEL_TEXT
    ck.assumptions = ["A2: user handlers/fangs are outside", "A3: extern summaries (byte_reader, tokio IO)", "A5: audit reasons"]
    for cfg, prog in progs.items():
        ck.config = cfg
        ck.guard("C02-a REACH parser", lambda: c02a(ck, prog))
        ck.guard("C02-b REACH accessors", lambda: c02b(ck, prog))
        if cfg == "A":
            ck.guard("C02-c TABLE", lambda: c02c(ck, prog))
        ck.guard("C02-d USED-RESULT", lambda: c02d(ck, prog))
        ck.guard("C02-e MUSTPASS header lookup", lambda: c02e(ck, prog))
        ck.guard("C02-f API-MISUSE numeric header", lambda: c02f(ck, prog))
        ck.guard("C02-g PAIR query value extent", lambda: c02g(ck, prog))
        ck.guard("C02-i MUSTPASS body read completely", lambda: c02i(ck, prog))
        ck.guard("C02-h PAIR payload extent", lambda: c02h(ck, prog))
    ck.config = None


def c02a(ck, prog):
    roots = prog.find(r"^ohkami::request::Request::(read|read_payload)$")
    if len(roots) < 2:
        raise AnchorLost("Request::read / read_payload not found")
    roots += [g for f in roots for g in prog.descendants(f.key)]
    roots += prog.methods(r"request::path::Path$", r"init_with_request_bytes") + prog.find(r"^ohkami::request::method::Method::from_bytes$")
    roots += prog.find(r"^ohkami::request::headers::Header::from_bytes$") + prog.find(r"^ohkami::request::headers::Headers::(append|insert_custom|get_raw)$")
    rr = ReachRule(ck, prog, "C02-a REACH parser", roots, audit=AUDIT, stop=STOP)
    sinks = rr.run()
    ck.floor("C02-a REACH parser", "functions reached from the parser", len(rr.R.reached), 15)


def c02b(ck, prog):
    roots = [f for f in prog.fns.values() if f.self_ty == "ohkami::request::headers::Headers" and not f.trait and f.pub and f.name not in ("set",)]
    roots += prog.find(r"^ohkami::request::headers::Headers::(iter|get_standard)$")
    roots += prog.methods(r"request::path::Path$", r"str|params") + prog.methods(r"request::path::Path$", r"as_ref|deref|fmt", trait=r".")
    roots += prog.methods(r"request::path::Params$", r"iter")
    roots += [g for f in list(roots) for g in prog.descendants(f.key)]
    ck.floor("C02-b REACH accessors", "accessor functions", len(roots), 55)
    rr = ReachRule(ck, prog, "C02-b REACH accessors", roots, audit=AUDIT, stop=STOP + [r"^ohkami::util::iter_cookies$"])
    sinks = rr.run()
    ck.floor("C02-b REACH accessors", "functions reached from the accessors", len(rr.R.reached), 55)


def c02c(ck, prog):
    R = "C02-c TABLE"
    # request header table: as_str (variant -> name) and from_bytes (accepted spellings)
    f = prog.one(r"^ohkami::request::headers::Header::as_str$")
    rows = decision.const_table(f, prog)
    names = {}
    for conds, val in rows:
        v = conds[0][1]
        # value is from_utf8_unchecked(literal): take the literal argument
        names[v] = None
    lit = {}
    for c in f.calls_to(r"from_utf8_unchecked$"):
        fa = [x for x in guards.facts_at(f, prog, c.bb) if x.kind == "variant" and x.allowed and len(x.allowed) == 1]
        ca = f.const_args(c)[0]
        if fa and ca:
            lit[tuple(fa[-1].allowed)[0]] = ca.get("s")
    adt = prog.adt(r"^ohkami::request::headers::Header$")
    variants = [v["name"] for v in adt["variants"]]
    ck.floor(R, "request header variants", len(variants), 46)
    for v in variants:
        nm = lit.get(v)
        ok = nm is not None and nm.replace("-", "").lower() == v.lower() and re.fullmatch(r"[A-Za-z][A-Za-z0-9-]*", nm) is not None
        ck.ob(R, "name:%s" % v, ok, f.loc(None), "" if ok else "request header %s is spelled %r (must equal the identifier up to hyphens, RFC 9110 token)" % (v, nm), how="%s = %r" % (v, nm))
    # from_bytes: case-insensitive recognition (RFC 9110 section 5.1: field names are case-insensitive)
    g = prog.one(r"^ohkami::request::headers::Header::from_bytes$")
    ci = [c for h in [g] + prog.descendants(g.key) for c in h.calls_to(r"eq_ignore_ascii_case$|to_ascii_lowercase$|make_ascii_lowercase$|to_ascii_uppercase$")]
    rd = prog.one(r"^ohkami::request::Request::read::\{closure#0\}$")
    ci += [c for c in rd.calls_to(r"eq_ignore_ascii_case$|to_ascii_lowercase$|make_ascii_lowercase$")]
    ok = len(ci) > 0
    ck.ob(R, "from_bytes:case-insensitive", ok, g.loc(None),
          "" if ok else "Header::from_bytes matches literal spellings only (canonical and lower case): `Content-length: 5` is filed as a custom header, so the body is not read and is parsed as the next request",
          how="case-insensitive comparison reached (%d site(s))" % len(ci))
    # ... and on every path: where recognition is a chain of eq_ignore_ascii_case tests, `None` (= custom header) is
    # answered only after every one of them failed -- no shortcut may skip the case-insensitive comparison
    chain = g.calls_to(r"eq_ignore_ascii_case$")
    if chain:
        nstd = len(chain)
        nones = [(bb, kind) for bb, kind, _ in paths.ret_sites(g) if kind == "None"]
        if not nones:
            raise AnchorLost("Header::from_bytes has no `None` return site")
        for i, (bb, kind) in enumerate(sorted(nones)):
            failed = {fa.call.bb for fa in guards.facts_at(g, prog, bb) if fa.kind == "boolcall" and not fa.truth and fa.call.name == "eq_ignore_ascii_case"}
            ok = len(failed) == nstd
            ck.ob(R, "from_bytes:None-only-after-all-names-failed#%d" % i, ok, g.loc(g.blocks[bb]["t"].get("sp")),
                  "" if ok else "Header::from_bytes can answer None (custom header) after only %d of its %d case-insensitive name comparisons failed: some spellings of a standard field name "
                  "(RFC 9110 5.1: case-insensitive) are filed as custom headers, e.g. a Content-Length the body reader then does not see" % (len(failed), nstd),
                  how="None dominated by the false edge of all %d eq_ignore_ascii_case tests" % nstd)
        ck.floor(R, "case-insensitive name comparisons in from_bytes", nstd, 40)
    # Method: from_bytes and as_str inverse
    m = prog.one(r"^ohkami::request::method::Method::from_bytes$")
    madt = prog.adt(r"^ohkami::request::method::Method$")
    mv = [v["name"] for v in madt["variants"]]
    ck.floor(R, "methods", len(mv), 7)
    rec = {}
    for lit, d in decision.bytes_match_table(m, prog):
        mm = re.match(r"Some\{(\w+)\{", d)
        if mm:
            rec.setdefault(mm.group(1), set()).add(lit)
    as_str = prog.find(r"^ohkami::request::method::Method::as_str$")
    names = decision.variant_const_map(as_str[0], prog) if as_str else {}
    for v in mv:
        ok = rec.get(v) == {v} and (not names or names.get(v) == v)
        ck.ob(R, "method:%s" % v, ok, m.loc(None), "" if ok else "Method::from_bytes maps %r to %s and as_str renders it %r: the token must be exactly %r both ways" % (sorted(rec.get(v, [])), v, names.get(v), v), how="%r <-> %s" % (v, v))


def c02d(ck, prog):
    R = "C02-d USED-RESULT"
    f = prog.one(r"^ohkami::request::Request::read::\{closure#0\}$")
    f = prog.awaited_inlined(f)      # the receive loop may live in an awaited helper of Request
    # the first read: AsyncReadExt::read(stream, buf) -> future -> poll -> Ready(Ok(n))
    rd = f.calls_to(r"(AsyncReadExt|ReadExt)::read$")
    if not rd:
        raise AnchorLost("the stream.read(..) call of Request::read was not found")
    # find uses of the Ok payload: places `((X as Ready).0 as Ok).0`
    uses = []
    for bi, b in enumerate(f.blocks):
        if b["cleanup"]:
            continue
        for st in b["st"]:
            if st["k"] != "=":
                continue
            txt = str(st["r"])
            if "'dc', 'Ok'" in txt:
                for pl in places_in(st["r"]):
                    if any(pr[0] == "dc" and pr[1] == "Ok" for pr in pl[1]):
                        uses.append((bi, st, pl))
        t = b["t"]
        if t["k"] == "switch":
            pl = t["discr"][1] if t["discr"][0] in ("c", "m") else None
            if pl and any(pr[0] == "dc" and pr[1] == "Ok" for pr in pl[1]):
                uses.append((bi, t, pl))
    # classify: a use that only feeds a switch (the `Ok(0)` test) vs a use that binds the count
    binds = []
    for bi, st, pl in uses:
        if isinstance(st, dict) and st.get("k") == "=":
            dst = st["p"][0]
            binds.append((bi, dst))
    flows = []
    for bi, dst in binds:
        # does the bound local reach something other than a comparison with 0?
        for bj, b in enumerate(f.blocks):
            if b["cleanup"]:
                continue
            for st in b["st"]:
                if st["k"] == "=" and mentions_local(st["r"], dst):
                    flows.append((bj, st["r"][0]))
            t = b["t"]
            if t["k"] == "call" and any(mentions_local(a, dst) for a in t["args"]):
                flows.append((bj, "call:" + (t.get("callee") or "?")))
    real = [x for x in flows if not (x[1] == "bin")]
    ok = len(real) > 0
    ck.ob(R, "read-count", ok, f.loc(rd[0].sp),
          "" if ok else "the byte count returned by stream.read(&mut buf) is only tested against 0 and then dropped: the parser cannot tell received zero bytes from unreceived ones (a body starting with \\0 in the head's segment makes the server wait for bytes that already arrived)",
          how="Ok(n) flows into %s" % sorted({x[1] for x in real})[:4])
    # ... and bounds what the parser is given: the bytes handed to the head parser are a prefix of the buffer (`buf[..k]`,
    # `split_at(k).0`, `take(k)`), not the whole buffer -- what lies behind the received bytes is padding or an earlier request
    rn = [c for c in f.calls() if c.name == "new" and re.search(r"byte_reader::Reader", c.callee or "")]
    if rn:
        d = decision.describe_deep(f, rn[0].args[0], 12)
        bounded = re.search(r"(index|get_unchecked|get)\((deref\(|deref_mut\()*[^,]*__buf__[^,]*,RangeTo\{", d) is not None \
            or re.search(r"split_at(_mut)?\([^,]*__buf__[^,]*,[^)]*\)\.0", d) is not None or re.search(r"take\(|from_raw_parts\(", d) is not None or "__buf__" not in d
        ck.ob(R, "parser-input:bounded-by-received", bounded, f.loc(rn[0].sp), "" if bounded else "the head parser is given `%s`, the whole buffer: bytes behind the received ones (zero padding, or what an earlier request left there) are parsed as part of this request" % d[:90],
              how="Reader::new over a prefix of the buffer")


def places_in(r):
    out = []

    def rec(x):
        if isinstance(x, list):
            if len(x) == 2 and isinstance(x[0], int) and isinstance(x[1], list) and all(isinstance(p, list) for p in x[1]):
                out.append(x)
                return
            for y in x:
                rec(y)
        elif isinstance(x, dict):
            for y in x.values():
                rec(y)
    rec(r)
    return out


def mentions_local(x, l):
    return any(p[0] == l for p in places_in(x))


def c02e(ck, prog):
    """`req.headers.get(name)` answers for standard and custom names alike: it may answer None only after the standard
    table was consulted for the name (directly or in the fallback closure of an `or_else`-like combinator)."""
    R = "C02-e MUSTPASS header lookup"
    f = prog.one(r"^ohkami::request::headers::Headers::get$")
    consult = set()
    for c in f.calls():
        if re.search(r"request::headers::Header::from_bytes$", c.callee or ""):
            consult.add(c.bb)
        for a in c.args:
            st = f.origin(a)
            if st and st[-1][0] == "agg" and st[-1][1][1].get("k") == "closure":
                g = prog.fns.get(st[-1][1][1]["def"])
                if g is not None and g.calls_to(r"request::headers::Header::from_bytes$"):
                    # ... on every path of the closure: each of its answers is preceded by the table look-up, or is the
                    # look-up's own `?` (no early `return None` on, say, a long name in front of it)
                    fb = g.calls_to(r"request::headers::Header::from_bytes$")
                    early = [rb for rb, rk, rp in paths.ret_sites(g) if not any(g.dominates(x.bb, rb) for x in fb)]
                    if not early:
                        consult.add(c.bb)
    if not consult:
        raise AnchorLost("Headers::get never consults Header::from_bytes")
    n = 0
    for bb, kind, _ in paths.ret_sites(f):
        if kind not in ("None", "residual"):
            continue
        ok = any(f.dominates(cb, bb) for cb in consult)
        ck.ob(R, "get:None-only-after-standard-lookup#%d" % n, ok, f.loc(f.blocks[bb]["t"].get("sp")),
              "" if ok else "request Headers::get can answer None before the standard header table was consulted: a request without custom headers answers None for `get(\"User-Agent\")` "
              "although the header is present (the same call answers Some as soon as any custom header is sent)",
              how="the None answer is dominated by the standard-table lookup")
        n += 1
    ck.floor(R, "None answers of Headers::get", n, 1)


def c02f(ck, prog):
    """`non-numeric ... Content-Length` is malformed and must be refused: the value is 1*DIGIT (RFC 9110 8.6). Rust's
    `str::parse::<uN>` / `from_str_radix` also accept a leading `+`, so wire digits must not be converted with them
    (same rule as C07-b for path parameters): in Request::read and its closures no integer FromStr is called."""
    R = "C02-f API-MISUSE numeric header"
    rd = prog.one(r"^ohkami::request::Request::read::\{closure#0\}$")
    # everything Request::read can reach inside the crate: its closures and the local helpers it calls (a free function
    # `content_length_of(v)` is as much part of the parser as an inline fold)
    from .lib.reach import Reach
    rr = Reach(prog, [rd] + prog.descendants(rd.key), boundary=[r"FangProc|Handler|Fn(Once|Mut)?<"])
    bodies = [g for g in rr.reached.values() if g.crate in ("ohkami", "ohkami_lib")]
    bad = []
    for g in bodies:
        for c in g.calls():
            cal = (c.callee or "") + " " + (c.full or "" if hasattr(c, "full") else "")
            if re.search(r"core::str::<impl str>::parse$|FromStr>::from_str$|from_str_radix$|from_ascii(_radix)?$", c.callee or "") and re.search(r"\b(u8|u16|u32|u64|u128|usize|i8|i16|i32|i64|i128|isize)\b", " ".join(c.targs or []) + " " + (c.callee or "")):
                bad.append((g, c))
    ok = not bad
    ck.ob(R, "Request::read:no-integer-FromStr", ok, bad[0][0].loc(bad[0][1].sp) if bad else rd.loc(None),
          "" if ok else "Request::read converts header text with `%s`: integer FromStr accepts a leading `+`, so `Content-Length: +5` is taken as 5 instead of being refused with 400" % (bad[0][1].callee),
          how="no integer FromStr among the calls of Request::read (%d bodies): digits are folded explicitly" % len(bodies))


def c02g(ck, prog):
    """`each name=value pair of the query is delivered as sent`: a pair ends at `&`, its name at the *first* `=`; the value
    is everything after that `=`, later `=` included (`token=YWJj==`, `next=/a?b=c`). In the function that yields the pairs
    of QueryParams::iter the value must not be one item of an unbounded split at `=` and must not have an upper bound
    other than the end of the pair."""
    R = "C02-g PAIR query value extent"
    it = prog.one(r"^ohkami::request::query::QueryParams::iter$")
    n = 0
    mod = [g for g in prog.fns.values() if g.crate == "ohkami" and g.key.startswith("ohkami::request::query::")]
    for g in sorted(set([it] + prog.descendants(it.key) + mod), key=lambda x: x.key):
        for bb, kind, pl in paths.ret_sites(g):
            if kind == "other" and isinstance(pl, list) and pl[0] == "agg" and pl[1].get("k") == "tuple" and len(pl[2]) == 2:
                cand = [("other", pl)]       # `|(k, v)| (decode(k), decode(v))`
            elif kind == "Some" and isinstance(pl, list) and pl[0] == "agg" and pl[2] and pl[2][0][0] in ("c", "m"):
                cand = paths.leaf_values(g, pl[2][0])
            else:
                continue
            for leaf in cand:
                if not (leaf[0] == "other" and isinstance(leaf[1], list) and leaf[1][0] == "agg" and leaf[1][1].get("k") == "tuple" and len(leaf[1][2]) == 2):
                    continue
                n += 1
                d = decision.describe_deep(g, leaf[1][2][1], 10)
                unbounded_split = re.search(r"(next|nth|next_back|last)\((by_ref\()?(split|rsplit|split_terminator|split_inclusive)\(", d) is not None
                capped = re.search(r"Range\{|RangeTo\{|RangeInclusive|RangeToInclusive", d) is not None
                ok = not unbounded_split and not capped
                ck.ob(R, "value:to-the-end-of-the-pair", ok, g.loc(g.blocks[bb]["t"].get("sp")),
                      "" if ok else "the value of a query pair is `%s`: %s, so a value that itself contains `=` (`token=YWJjZA==`, `redirect=/login?next=/home`) is cut at its first `=`"
                      % (d[:90], "one item of a split at every `=`" if unbounded_split else "a slice with an upper bound"),
                      how="value = the pair from after its first `=` to its end: %s" % d[:70])
    ck.floor(R, "(name, value) pairs built by QueryParams::iter", n, 1)


def c02h(ck, prog):
    """`the payload delivered is exactly the Content-Length bytes that follow the head`: the clauses of C06-b (every payload
    read_payload returns has the announced extent, whichever buffer case applies), re-evaluated here because a payload that
    swallows the bytes behind it is a parsing fault of this request, not only a segmentation effect."""
    R = "C02-h PAIR payload extent"
    from . import C06
    sub = type(ck)(ck.prop, ck.tier)
    sub.config = ck.config
    C06.c06b(sub, prog)
    n = 0
    for o in sub.obs:
        n += 1
        ck.ob(R, o["key"], o["ok"], o["where"], o["detail"], how=o["how"], nontrivial=o.get("nontrivial", True))
    ck.floor(R, "payload-extent clauses", n, 2)


def c02i(ck, prog):
    """`the handler sees the body the wire carried`: the part of an announced body that was not in the head's segment is read
    with a read that fills its buffer (read_exact), or with reads repeated in a loop -- a single `read` returns after
    whatever segment arrived first and leaves the rest of the payload zero."""
    from .lib.bound import natural_loops
    R = "C02-i MUSTPASS body read completely"
    f = prog.coroutine_body(prog.one(r"^ohkami::request::Request::read_payload$").key)
    f = prog.awaited_inlined(f)
    loops = natural_loops(f)
    partial = [c for c in f.calls() if re.search(r"(AsyncReadExt|ReadExt|AsyncRead|io::Read)::read$", c.callee or "") or re.search(r"(AsyncReadExt|ReadExt)::read$", c.decl or "")]
    exact = [c for c in f.calls() if re.search(r"::read_exact$", c.callee or "") or re.search(r"::read_exact$", c.decl or "")]
    # (the await of a read future is itself a poll loop: a loop that repeats the read contains the call creating the future)
    single = [c for c in partial if not any(c.bb in body for body in loops.values())]
    ok = not single and (bool(exact) or bool(partial))
    ck.ob(R, "read_payload:fills-the-body", ok, f.loc(single[0].sp) if single else f.loc(None),
          "" if ok else ("read_payload fetches the rest of the body with a single `read` (not read_exact, not in a loop): it returns after the first segment, and the bytes that arrive later are missing from the payload (left zero)" if single else "no stream read found in read_payload"),
          how="%d read_exact, %d looped read(s)" % (len(exact), len(partial) - len(single)))
