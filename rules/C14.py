"""C14 CORS fang applies the configured policy to every response and preflight.
Decides: (a) which header CORSProc::bite sets under which condition (decision rules on its coroutine), the builder's
wildcard/credentials exclusion, origin literal tables; (b) the default OPTIONS handler's method list and answers."""
import re

from .lib import decision, guards, paths
from .lib.mir import AnchorLost

CONFIGS_QUICK = ["A", "R"]
CONFIGS_THOROUGH = ["A", "R", "NOAPI"]
TECHNIQUE = "condition-under-which rules (dominating branch facts) for every header mutation in CORSProc::bite's coroutine, decision tables of the builder and of the default OPTIONS handler"
LEVEL_TEXT = ('Decides clauses C14-a..e: CORSProc::bite sets Access-Control-Allow-Origin to the configured origin unconditionally on every path from the inner proc '
              'to the return (so also on errors and 404), Allow-Credentials `true` exactly under the credentials flag, Expose-Headers exactly when configured, Vary: '
              'Origin exactly for the wildcard, the preflight-only headers (Max-Age, Allow-Methods, Allow-Headers with the echo of Access-Control-Request-Headers as '
              'fallback) only for OPTIONS requests, and rewrites 501 to 200 without Content-Type/Length only for OPTIONS with status Not Implemented; '
              'CORS::AllowCredentials() sets the flag only for a non-wildcard origin; the origin literal tables are mutually consistent; the default OPTIONS handler '
              'advertises the registered methods plus HEAD iff GET plus OPTIONS, answers 501 + Allow-Methods when the requested method is in that list, 400 + Allow-'
              'Methods when not, and 404 without Access-Control-Request-Method; register_handlers derives the list from exactly the filled handler slots. The '
              'requested preflight method is looked up by whole-name membership in the list of registered methods (not by a text search in their concatenation). '
              'Every value-taking builder method of CORS stores `Some(<its parameter>)` unconditionally (no setting can be lost in a conversion). C14-d: the router '
              "attaches an application's fangs (hence its CORS fang) to every node of its subtree, handler-less nodes included, and mounting hands the mounted "
              "application's fangs over on every success path -- the nodes that answer 404s and unserved methods under a mount are where a missing policy is "
              'observable; C14-e: in Node::merge_here the handler of the node at the mount point is assigned only on the edge where the mounted root has a handler '
              "(mounting never erases the automatic preflight handler of the parent's own route). Decides these clauses, not the advertised set under nested/merged "
              'applications.')


def run(ck, progs):
    ck.explanation = LEVEL_TEXT
    ck.assumptions = ["Fetch standard CORS protocol as implemented by hono's cors middleware (the code's stated model)"]
    for cfg, prog in progs.items():
        ck.config = cfg
        ck.guard("C14-a DECISION cors", lambda: c14a(ck, prog))
        ck.guard("C14-b DECISION options", lambda: c14b(ck, prog))
        ck.guard("C14-c PAIR builder keeps the policy", lambda: c14c(ck, prog))
        ck.guard("C14-d SCOPE policy on every response", lambda: c14d(ck, prog))
        ck.guard("C14-e GUARD mount keeps the preflight handler", lambda: c14e(ck, prog))
    ck.config = None


def conds_at(f, prog, bb):
    """readable set of branch conditions known at bb"""
    out = set()
    for fa in guards.facts_at(f, prog, bb):
        if getattr(fa, "derived", None):
            continue
        if fa.kind == "boolcall":
            out.add("%s%s(%s)" % ("" if fa.truth else "!", fa.call.name, ",".join(decision.describe_deep(f, a, 3) for a in fa.call.args)))
        elif fa.kind == "boolplace":
            out.add("%s%s" % ("" if fa.truth else "!", fa.desc))
        elif fa.kind == "variant" and fa.allowed and len(fa.allowed) == 1:
            if fa.steps and fa.steps[-1][0] == "call" and re.search(r"Future::poll$", fa.steps[-1][1].decl or ""):
                continue
            out.add("%s is %s" % (decision.describe_deep(f, fa.place, 4) if fa.place else guards.describe_origin(f, fa.steps), tuple(fa.allowed)[0]))
        elif fa.kind == "cmp" and fa.raw_op not in ("eq", "ne"):
            out.add("%s %s %s" % (guards.describe_origin(f, fa.lhs), fa.op, guards.describe_origin(f, fa.rhs)))
    return out


def c14a(ck, prog):
    R = "C14-a DECISION cors"
    bites = [f for f in prog.fns.values() if f.name == "bite" and f.self_ty and "cors::CORSProc<" in f.self_ty]
    if len(bites) != 1:
        raise AnchorLost("CORSProc::bite not found")
    f = prog.coroutine_body(bites[0].key)
    f = prog.inlined(f, 2, r"SetHeaders::<'set>::(AccessControl\w+|Vary)$")     # header setting may be split into helpers of CORS
    inner = f.calls_to(r"^ohkami::fang::FangProc::bite$")
    ipoll = [p for p in f.calls() if re.search(r"Future::poll$", p.decl or "") and inner and paths.root_call(f, p.args[0]) is not None and paths.root_call(f, p.args[0]).bb == inner[0].bb]
    rets = f.exits()

    def setter(name):
        return [c for c in f.calls() if re.search(r"SetHeaders::<'set>::%s$" % name, c.callee or "")]

    def just(c):
        """conditions at a call, without the ones every statement after the await shares"""
        return {x for x in conds_at(f, prog, c.bb)}

    # Allow-Origin: unconditional, after the inner proc, value = configured origin
    ao = setter("AccessControlAllowOrigin")
    ok = len(ao) == 1 and bool(ipoll)
    if ok:
        c = ao[0]
        val = decision.describe_deep(f, c.args[1], 4)
        ok = not just(c) and all(f.dominates(c.bb, r) for r in rets) and bool(rets) and re.fullmatch(r"as_str\(arg1\.\^?\w*\.?cors\.AllowOrigin\)|as_str\(.*cors\.AllowOrigin\)", val) is not None
        ok = ok and paths.has_fact(f, prog, c.bb, paths.variant_of_call(r"Future::poll$", "Ready")) is not None
        ck.ob(R, "allow-origin:always", ok, f.loc(c.sp), "" if ok else "Access-Control-Allow-Origin is set to %s under %r, expected the configured origin unconditionally on every response" % (val, sorted(just(c))), how="AccessControlAllowOrigin(cors.AllowOrigin.as_str()) on every path inner -> return")
    else:
        ck.ob(R, "allow-origin:always", False, f.loc(None), "CORSProc::bite sets Access-Control-Allow-Origin %d times" % len(ao))

    def expect(name, want_rx, value_rx, how, count=1, extra_ok=lambda c: True):
        cs = setter(name)
        if len(cs) != count:
            ck.ob(R, name, False, f.loc(None), "CORSProc::bite sets %s %d time(s), expected %d" % (name, len(cs), count))
            return cs
        for i, c in enumerate(cs):
            conds = just(c)
            val = decision.describe_deep(f, c.args[1], 5)
            ok = all(any(re.search(w, x) for x in conds) for w in want_rx) and len(conds) == len(want_rx) and re.search(value_rx, val) is not None and extra_ok(c)
            ck.ob(R, name + ("#%d" % i if i else ""), ok, f.loc(c.sp), "" if ok else "%s is set to `%s` under %r; expected %s" % (name, val[:50], sorted(conds), how), how=how)
        return cs

    expect("AccessControlAllowCredentials", [r"^arg1.*cors\.AllowCredentials$"], r"^const 'true'$", "`true` exactly under cors.AllowCredentials")
    expect("AccessControlExposeHeaders", [r"cors\.ExposeHeaders is Some$"], r"ExposeHeaders", "the configured list exactly when ExposeHeaders is Some")
    vary = setter("Vary")
    vo = [c for c in vary if decision.describe_deep(f, c.args[1], 2) == "const 'Origin'"]
    ok = len(vo) == 1 and just(vo[0]) and all(re.search(r"^is_any\(.*AllowOrigin\)$", x) for x in just(vo[0]))
    ck.ob(R, "Vary:Origin", bool(ok), f.loc(vo[0].sp if vo else None), "" if ok else "Vary: Origin is not set exactly for the wildcard origin (%r)" % ([sorted(just(c)) for c in vo]), how="Vary(\"Origin\") exactly under AllowOrigin.is_any()")
    OPT = r"^isOPTIONS\("
    expect("AccessControlMaxAge", [OPT, r"cors\.MaxAge is Some$"], r"MaxAge", "only for OPTIONS requests, when MaxAge is configured")
    expect("AccessControlAllowMethods", [OPT, r"cors\.AllowMethods is Some$"], r"AllowMethods", "only for OPTIONS requests, when AllowMethods is configured")
    ah = expect("AccessControlAllowHeaders", [OPT, r" is Some$"], r".", "only for OPTIONS requests: configured AllowHeaders, else the echoed Access-Control-Request-Headers")
    if len(ah) == 1:
        oe = [c for c in f.calls() if c.name == "or_else" and "AllowHeaders" in decision.describe_deep(f, c.args[0], 4)]
        okf = False
        if oe:
            clos = f.origin(oe[0].args[1])
            cf = prog.fns.get(clos[-1][1][1].get("def")) if clos and clos[-1][0] == "agg" else None
            okf = cf is not None and bool([c for c in cf.calls() if c.name == "AccessControlRequestHeaders"])
        else:
            # the same choice written as a match: the value set is, on every path, the configured list, and otherwise the
            # request's Access-Control-Request-Headers (read only where the configured list is absent)
            lv = paths.leaf_values(f, ah[0].args[1]) if False else None
            src = paths.root_call(f, ah[0].args[1])      # to_string(x): follow x
            xop = src.args[0] if src is not None and src.args else ah[0].args[1]
            leaves = paths.leaf_values(f, xop)
            for _ in range(3):
                # an owning conversion of the chosen text (`allow_headers.to_owned()`): follow what is converted
                if len(leaves) == 1 and leaves[0][0] == "call" and leaves[0][1].name in ("to_owned", "to_string", "into", "from", "clone", "to_vec") and leaves[0][1].args:
                    leaves = paths.leaf_values(f, leaves[0][1].args[0])
                else:
                    break
            kinds = set()
            for l in leaves:
                if l[0] == "call" and l[1].name == "AccessControlRequestHeaders":
                    unconfigured = paths.has_fact(f, prog, l[1].bb, lambda fa: fa.kind == "variant" and fa.allowed == {"None"} and "AllowHeaders" in (guards.describe_origin(f, fa.steps) + (decision.describe_deep(f, fa.steps[-1][1].args[0], 4) if fa.steps and fa.steps[-1][0] == "call" and fa.steps[-1][1].args else "")))
                    kinds.add("echo" if unconfigured is not None else "echo-even-if-configured")
                elif l[0] in ("call", "place") and "AllowHeaders" in (decision.describe_deep(f, l[1].args[0], 4) if l[0] == "call" and l[1].args else decision.describe_deep(f, ["c", [l[1], l[2]]], 4)):
                    kinds.add("configured")
                else:
                    kinds.add("other")
            okf = kinds == {"configured", "echo"}
        ck.ob(R, "AllowHeaders:echo-fallback", okf, f.loc(ah[0].sp), "" if okf else "the fallback of Access-Control-Allow-Headers is not the request's Access-Control-Request-Headers", how="cors.AllowHeaders.as_deref().or_else(|| req.headers.AccessControlRequestHeaders())")
    # 501 -> 200 only for OPTIONS && status == NotImplemented
    st = [(bi, s_, agg) for bi, s_, agg in decision.field_stores(f, "status")]
    ok = len(st) == 1
    if ok:
        bi, s_, agg = st[0]
        conds = conds_at(f, prog, bi)
        val = agg[1].get("variant") if agg else decision.describe_deep(f, s_["r"][1], 2) if s_["r"][0] == "use" else "?"
        ok = val == "OK" and any(re.search(OPT, x) for x in conds) and any(re.search(r"^eq\(.*status.*NotImplemented", x) or re.search(r"status.* Eq .*NotImplemented|NotImplemented", x) for x in conds) and len(conds) == 2
        ck.ob(R, "501=>200", ok, f.loc(s_.get("sp")), "" if ok else "the response status is rewritten to %s under %r, expected 200 only for OPTIONS with status 501" % (val, sorted(conds)), how="status = OK only under isOPTIONS && status == NotImplemented")
        rm = [c for c in setter("ContentType") + setter("ContentLength") if "None" in decision.describe_deep(f, c.args[1], 2)]
        ok = len(rm) == 2 and all(conds_at(f, prog, c.bb) == conds for c in rm)
        ck.ob(R, "501=>200:no-body-headers", ok, f.loc(s_.get("sp")), "" if ok else "the successful preflight keeps Content-Type/Content-Length", how="ContentType(None).ContentLength(None) in the same branch")
    else:
        ck.ob(R, "501=>200", False, f.loc(None), "CORSProc::bite assigns the status %d times" % len(st))
    # builder: AllowCredentials only for a non-wildcard origin
    b = prog.method(r"^ohkami::fang::builtin::cors::CORS$", "AllowCredentials")
    sts = decision.field_stores(b, "AllowCredentials")
    ok = len(sts) == 1
    if ok:
        bi, s_, agg = sts[0]
        conds = conds_at(b, prog, bi)
        val = decision.describe_deep(b, s_["r"][1], 1) if s_["r"][0] == "use" else "?"
        ok = val == "const 1" and conds and all(re.search(r"^!is_any\(", x) for x in conds)
    if not sts:
        # `match self.AllowOrigin { Only(_) => Self { AllowCredentials: true, ..self }, Any => self }`
        aggs = [(bi, st) for bi in sorted(b.live_blocks()) for st in b.blocks[bi]["st"]
                if st["k"] == "=" and st["r"][0] == "agg" and isinstance(st["r"][1], dict) and re.search(r"cors::CORS$", st["r"][1].get("adt") or "") and "AllowCredentials" in (st["r"][1].get("fields") or [])]
        ok = bool(aggs)
        for bi, st in aggs:
            op = st["r"][2][st["r"][1]["fields"].index("AllowCredentials")]
            val = decision.describe_deep(b, op, 2)
            if val == "const 0" or re.search(r"arg1\.AllowCredentials$", val):
                continue
            not_any = False
            for fa in guards.facts_at(b, prog, bi):
                w = (decision.describe_deep(b, fa.place, 4) if getattr(fa, "place", None) else guards.describe_origin(b, fa.steps)) if fa.kind == "variant" else ""
                if fa.kind == "variant" and fa.allowed is not None and "Any" not in fa.allowed and "AllowOrigin" in w:
                    not_any = True
                if fa.kind == "boolcall" and fa.call.name == "is_any" and not fa.truth:
                    not_any = True
            ok = ok and val == "const 1" and not_any
    ck.ob(R, "builder:no-credentials-with-wildcard", bool(ok), b.loc(None), "" if ok else "CORS::AllowCredentials() can enable credentials for the wildcard origin", how="AllowCredentials = true only under !AllowOrigin.is_any()")
    new = prog.method(r"^ohkami::fang::builtin::cors::CORS$", "new")
    rows = decision.const_table(new, prog)
    d = (rows[0][1] or {}).get("desc", "") if len(rows) == 1 else ""
    ok = re.match(r"CORS\{from_literal\(arg1\),0,", d) is not None
    ck.ob(R, "builder:defaults", ok, new.loc(None), "" if ok else "CORS::new builds %s, expected the given origin and credentials off" % d[:60], how="CORS { AllowOrigin: from_literal(origin), AllowCredentials: false, .. }")
    # origin tables
    AO = r"^ohkami::fang::builtin::cors::AccessControlAllowOrigin$"
    as_str = decision.const_table(prog.method(AO, "as_str"), prog)
    t = {c[0][1]: (v or {}).get("s", (v or {}).get("desc")) for c, v in as_str if c}
    ok = t.get("Any") == "*" and "arg1" in str(t.get("Only"))
    ck.ob(R, "origin:as_str", ok, "", "" if ok else "AccessControlAllowOrigin::as_str is %r" % t, how="Any => \"*\", Only(o) => o")
    is_any = decision.const_table(prog.method(AO, "is_any"), prog)
    t = {c[0][1]: guards.const_int(v) for c, v in is_any if c}
    ok = t.get("Any") == 1 and t.get("Only") == 0
    ck.ob(R, "origin:is_any", ok, "", "" if ok else "is_any is %r" % t, how="Any => true, Only => false")
    fl = prog.method(AO, "from_literal")
    txt = str(fl.blocks)
    rows = decision.const_table(fl, prog)
    descs = sorted((v or {}).get("desc", "") for c, v in rows)
    ok = any(d.startswith("Any") for d in descs) and any(d.startswith("Only") for d in descs) and (re.search(r"\['42', \d+\]", txt) is not None or "'v': '42'" in txt or "'s': '*'" in txt)
    ck.ob(R, "origin:from_literal", ok, fl.loc(None), "" if ok else "from_literal does not map exactly \"*\" to Any (%r)" % descs, how="\"*\" => Any, other => Only(other)")


def c14b(ck, prog):
    R = "C14-b DECISION options"
    f = prog.method(r"^ohkami::fang::handler::Handler$", "default_options_with")
    pushes = [c for c in f.calls_to(r"Vec::<T, A>::push$")]
    lits = {}
    for c in pushes:
        v = (f.const_args(c)[1] or {}).get("s")
        lits[v] = conds_at(f, prog, c.bb)
    ok = set(lits) == {"HEAD", "OPTIONS"}
    if ok:
        ok = len(lits["HEAD"]) == 1 and all(re.search(r"^contains\(.*const 'GET'\)$", x) for x in lits["HEAD"]) and not lits["OPTIONS"]
    how_list = "push(\"HEAD\") iff contains(\"GET\"); push(\"OPTIONS\") always"
    if not ok and not pushes:
        # the same list as an iterator chain: registered.chain(has_get.then_some("HEAD")).chain(once("OPTIONS")).collect()
        col = [c for c in f.calls() if c.name == "collect" or c.name == "from_iter"]
        for c in col:
            d = decision.describe_deep(f, c.args[0], 10)
            m = re.fullmatch(r"chain\(chain\(into_iter\(arg1\),then_some\((any|contains)\((iter\(deref\(arg1\)\)|deref\(arg1\)|arg1),(closure\{\}|const 'GET')\),const 'HEAD'\)\),once\(const 'OPTIONS'\)\)", d)
            if not m:
                continue
            if m.group(1) == "any":
                # the predicate is equality with "GET"
                anyc = [x for x in f.calls() if x.name == "any"]
                cdef = f.origin(anyc[0].args[1]) if anyc else None
                cf = prog.fns.get(cdef[-1][1][1].get("def")) if cdef and cdef[-1][0] == "agg" else None
                eqs = [x for x in cf.calls() if x.name == "eq"] if cf is not None else []
                if not (len(eqs) == 1 and len(cf.calls()) == 1 and (cf.const_args(eqs[0])[1] or {}).get("s") == "GET" and decision.show(decision.bool_expr(cf)).startswith("eq(")):
                    continue
            ok = True
            how_list = "registered ++ (HEAD if any == GET) ++ OPTIONS, collected"
    ck.ob(R, "list:HEAD-iff-GET,+OPTIONS", ok, f.loc(None), "" if ok else "default_options_with extends the method list with %r" % {k: sorted(v) for k, v in lits.items()}, how=how_list)
    join = [c for c in f.calls() if c.name == "join"]
    sep = (f.const_args(join[0])[1] or {}).get("s") if join else None
    ok = sep == ", "
    ck.ob(R, "list:separator", ok, f.loc(None), "" if ok else "the Allow-Methods value is joined with %r" % sep, how="join(\", \")")
    # the handler
    cl = [c for c in prog.descendants(f.key) if c.coroutine]
    if len(cl) != 1:
        raise AnchorLost("the default OPTIONS handler's async block was not found")
    h = cl[0]
    rows = decision.const_table(h, prog)
    tab = {}
    for conds, val in rows:
        key = tuple(str(c[1]) for c in conds if not (isinstance(c[0], str) and ("method" in c[0] and "Eq" in c[0])))
        d = (val or {}).get("desc", "")
        tab[key] = d
    def find(pred):
        return [d for k, d in tab.items() if pred(k)]
    nf = find(lambda k: "None" in k)
    ok = len(nf) >= 1 and all(d.startswith("NotFound(") for d in nf)
    ck.ob(R, "no-request-method=>404", ok, h.loc(None), "" if ok else "without Access-Control-Request-Method the default OPTIONS handler answers %r" % nf, how="None => Response::NotFound()")
    # the two Some rows: contains true -> NotImplemented, false -> BadRequest, both with_headers(Allow-Methods)
    rs = [c for c in h.calls() if c.name in ("NotImplemented", "BadRequest")]
    got = {}
    for c in rs:
        conds = conds_at(h, prog, c.bb)
        cont = [x for x in conds if "contains(" in x]
        got[c.name] = (cont[0].startswith("!") if cont else None, any("is Some" in x for x in conds))
    ok = got.get("NotImplemented") == (False, True) and got.get("BadRequest") == (True, True)
    ck.ob(R, "requested-method:501/400", ok, h.loc(None), "" if ok else "the default OPTIONS handler answers %r (negated contains, under Some)" % got, how="contains(method) => 501 Not Implemented, else 400 Bad Request")
    wh = [c for c in h.calls() if c.name == "with_headers"]
    okh = len(wh) == 1 and all(paths.has_fact(h, prog, c.bb, lambda fa: fa.kind == "variant" and fa.allowed == {"Some"}) for c in wh)
    if okh:
        clos = h.origin(wh[0].args[1])
        cf = prog.fns.get(clos[-1][1][1].get("def")) if clos and clos[-1][0] == "agg" else None
        okh = cf is not None and len([c for c in cf.calls() if c.name == "AccessControlAllowMethods"]) == 1
        src = decision.describe_deep(h, wh[0].args[0], 3)
        okh = okh and "NotImplemented" in str([decision.describe_deep(h, ["c", c.dest], 1) for c in rs]) or okh
    ck.ob(R, "requested-method:Allow-Methods", bool(okh), h.loc(None), "" if okh else "the preflight answer does not carry Access-Control-Allow-Methods with the method list", how="(501|400).with_headers(|h| h.AccessControlAllowMethods(list))")
    cont = [c for c in h.calls() if c.name == "contains"]
    ok = len(cont) == 1 and "AccessControlRequestMethod" in decision.describe_deep(h, cont[0].args[1], 5)
    ck.ob(R, "requested-method:source", ok, h.loc(None), "" if ok else "the list is not searched for the value of Access-Control-Request-Method", how="available_methods.contains(&Access-Control-Request-Method)")
    # ... by element-wise membership in the list of method names, not by a text search in their concatenation
    elem = [c for c in cont if re.search(r"^core::slice::<impl \[T\]>::contains$|^alloc::vec::Vec::<T, A>::contains$|HashSet<.*>::contains$|BTreeSet<.*>::contains$", c.callee or "")]
    ok = len(cont) == 1 and len(elem) == 1
    ck.ob(R, "requested-method:whole-name-membership", ok, h.loc(cont[0].sp if cont else None),
          "" if ok else "the requested method is looked up with `%s`: a text search in the joined list accepts fragments (`PO`, `T`, `GET, PUT`) as registered methods, "
          "so such a preflight is answered 2xx instead of 4xx" % ((cont[0].callee if cont else "?")), how="<[&str]>::contains(&method): equality with one whole method name")
    # register_handlers: the list is built from exactly the filled slots
    rh = prog.method(r"^ohkami::router::base::Router$", "register_handlers")
    got = {}
    for c in rh.calls_to(r"Vec::<T, A>::push$"):
        v = (rh.const_args(c)[1] or {}).get("s")
        conds = conds_at(rh, prog, c.bb)
        got[v] = sorted(conds)
    ok = set(got) == {"GET", "PUT", "POST", "PATCH", "DELETE"} and all(len(v) == 1 and re.fullmatch(r"is_some\(arg2\.%s\)" % k, v[0]) for k, v in got.items())
    if not ok and not got:
        # the same list as a table: [("M", handlers.M.is_some()), ..].into_iter().filter_map(|(m, filled)| filled.then_some(m)).collect()
        dw = rh.calls_to(r"Handler::default_options_with$")
        d = decision.describe_deep(rh, dw[0].args[0], 10) if dw else ""
        m = re.fullmatch(r"(?:collect|from_iter)\(filter_map\(into_iter\(array\{(.*)\}\),closure\{\}\)\)", d)
        if m:
            rows = re.findall(r"tuple\{const '(\w+)',is_some\(arg2\.(\w+)\)\}", m.group(1))
            fm = [c for c in rh.calls() if c.name == "filter_map"]
            cdef = rh.origin(fm[0].args[1]) if fm else None
            cf = prog.fns.get(cdef[-1][1][1].get("def")) if cdef and cdef[-1][0] == "agg" else None
            sel = [(c.name, [decision.describe_deep(cf, a, 4) for a in c.args]) for c in cf.calls()] if cf is not None else []
            ok = (sorted(a for a, b in rows) == sorted(["GET", "PUT", "POST", "PATCH", "DELETE"]) and all(a == b for a, b in rows)
                  and len(rows) == m.group(1).count("tuple{") and sel == [("then_some", ["arg2.1", "arg2.0"])])
            got = {a: "is_some(arg2.%s)" % b for a, b in rows}
    ck.ob(R, "register:list-from-slots", ok, rh.loc(None), "" if ok else "the advertised method list is built as %r, expected \"M\" exactly when handlers.M is filled" % got, how="push(\"M\") iff handlers.M.is_some(), M in GET PUT POST PATCH DELETE")


def c14c(ck, prog):
    """`the configured exposed headers ... the configured or echoed request headers and the configured max-age`: what the
    preflight advertises is read from the policy fields, so each builder method must store what it was given -- `Some(value)`
    built from its parameter, unconditionally (a conversion that can answer None, e.g. NonZeroU32::new(0), drops a setting)."""
    R = "C14-c PAIR builder keeps the policy"
    n = 0
    for f in prog.methods(r"^ohkami::fang::builtin::cors::CORS$", r".*"):
        if f.name in ("new",) or f.argc < 2:
            continue
        if not re.search(r"cors::CORS$", f.locals[0] or "") or not re.search(r"cors::CORS$", f.locals[1] or ""):
            continue     # not a builder method (`fn X(mut self, value) -> Self`): e.g. a helper applying the policy to a response
        stores = [(bi, st) for bi in sorted(f.live_blocks()) for st in f.blocks[bi]["st"]
                  if st["k"] == "=" and st["p"][0] == 1 and st["p"][1] and st["p"][1][-1][0] == "f"]
        mine = [(bi, st) for bi, st in stores if st["p"][1][-1][2] == f.name]
        n += 1
        if not mine:
            # `Self { <field>: Some(value), ..self }`: the returned policy is one aggregate whose <field> is built from the parameter
            aggs = [(bi, st) for bi in sorted(f.live_blocks()) for st in f.blocks[bi]["st"]
                    if st["k"] == "=" and st["r"][0] == "agg" and isinstance(st["r"][1], dict) and re.search(r"cors::CORS$", st["r"][1].get("adt") or "") and f.name in (st["r"][1].get("fields") or [])]
            if len(aggs) == 1:
                bi, st = aggs[0]
                op = st["r"][2][st["r"][1]["fields"].index(f.name)]
                d = decision.describe_deep(f, op, 5)
                cond = [fa for fa in guards.facts_at(f, prog, bi) if fa.kind in ("cmp", "boolcall", "variant", "int", "boolplace")]
                rets = paths.ret_sites(f)
                oku = re.fullmatch(r"Some\{(\w+\()*arg2[^{}]*\}", d) is not None and not cond and all(f.dominates(bi, bb) for bb, _, _ in rets)
                ck.ob(R, "CORS::%s" % f.name, oku, f.loc(None), "" if oku else "CORS::%s does not keep the setting it is given (the returned policy has %s = `%s`%s)" % (f.name, f.name, d[:60], " under %d condition(s)" % len(cond) if cond else ""),
                      how="Self { %s: Some(<the parameter>), ..self } unconditionally" % f.name)
                continue
        ok = len(mine) == 1
        why = "%d store(s) to the field `%s`" % (len(mine), f.name)
        if ok:
            bi, st = mine[0]
            d = decision.describe_deep(f, st["r"][1], 4) if st["r"][0] == "use" else (("%s{%s}" % (st["r"][1].get("variant"), ",".join(decision.describe_deep(f, o, 3) for o in st["r"][2]))) if st["r"][0] == "agg" else st["r"][0])
            cond = [fa for fa in guards.facts_at(f, prog, bi) if fa.kind in ("cmp", "boolcall", "variant", "int", "boolplace")]
            ok = re.fullmatch(r"Some\{(arg2|\w+\(arg2(,const '[^']*')?\))\}", d) is not None and not cond
            why = "it stores `%s`%s" % (d[:60], " under %d condition(s)" % len(cond) if cond else "")
        ck.ob(R, "CORS::%s" % f.name, ok, f.loc(None), "" if ok else "CORS::%s does not keep the setting it is given (%s): a configured value can be lost (`MaxAge(0)` = `do not cache preflights` would no longer be advertised)" % (f.name, why),
              how="self.%s = Some(<the parameter>) unconditionally" % f.name)
    ck.floor(R, "value-taking CORS builder methods", n, 3)


def c14d(ck, prog):
    """`every response of the application carries the policy` -- also the 404s and the default OPTIONS answers, which are
    produced by handler-less nodes: the fang must be attached to every node of the application's subtree and survive
    mounting. These are the router's attachment clauses (C04-f), re-evaluated here because CORS is the fang whose
    absence on a not-found response is observable by a browser."""
    R = "C14-d SCOPE policy on every response"
    from . import C04
    sub = type(ck)(ck.prop, ck.tier)
    sub.config = ck.config
    C04.c04f(sub, prog)
    n = 0
    for o in sub.obs:
        n += 1
        ck.ob(R, o["key"], o["ok"], o["where"], o["detail"] if o["ok"] else o["detail"] + " -- responses produced by those nodes (404 under a mount, methods the mounted application does not serve) "
              "would lack Access-Control-Allow-Origin", how=o["how"], nontrivial=o.get("nontrivial", True))
    ck.floor(R, "attachment clauses", n, 4)


def c14e(ck, prog):
    from . import C01
    C01.mount_keeps_handlers(ck, prog, "C14-e GUARD mount keeps the preflight handler")
