"""Helpers for MUSTPASS-style rules: classification of the values a function returns, and
dominance of those return sites by branch facts."""
import re

from . import guards
from .mir import Call

RESIDUAL = r"FromResidual<.*>>::from_residual$"


def ret_sites(fn):
    """every write of the return place: (bb, kind, payload); kind: variant name of an ADT aggregate
    ('Ok','Err','Some','None','Ready',...), 'residual' (the `?` early return), 'call' (result of a call), 'move', 'const'"""
    out = []
    live = fn.live_blocks()
    for bi, b in enumerate(fn.blocks):
        if b["cleanup"] or bi not in live:
            continue
        for st in b["st"]:
            if st["k"] == "=" and st["p"] == [0, []]:
                r = st["r"]
                if r[0] == "agg" and r[1].get("k") == "adt":
                    out.append((bi, r[1]["variant"], r))
                elif r[0] == "use" and r[1][0] == "k":
                    out.append((bi, "const", r[1][1]))
                elif r[0] == "use":
                    exp = _expand_move(fn, r[1], 4, set())
                    if exp:
                        out += exp
                    else:
                        out.append((bi, "move", r[1]))
                else:
                    out.append((bi, "other", r))
        t = b["t"]
        if t["k"] == "call" and t["dest"] == [0, []]:
            c = Call(fn, bi, t, False)
            if re.search(RESIDUAL, c.callee or ""):
                out.append((bi, "residual", c))
            else:
                out.append((bi, "call", c))
    return out


def _expand_move(fn, op, depth, seen):
    """`_0 = move x` where x is itself assigned whole values on several paths (e.g. the result of a spliced-in helper):
    the sites that build those values -> [(bb, kind, payload)] or [] when x is not of that form"""
    if op[0] not in ("c", "m") or op[1][1] or depth <= 0 or op[1][0] in seen or 1 <= op[1][0] <= fn.argc:
        return []
    local = op[1][0]
    seen = seen | {local}
    out = []
    defs = [d for d in fn.defs().get(local, []) if not fn.is_cleanup(d[0])]
    if not defs:
        return []
    for (dbb, si, dk, payload) in defs:
        if dk == "call":
            c = Call(fn, dbb, payload, False)
            out.append((dbb, "residual" if re.search(RESIDUAL, c.callee or "") else "call", c))
        elif dk == "assign" and not payload["p"][1]:
            r = payload["r"]
            if r[0] == "agg" and r[1].get("k") == "adt":
                out.append((dbb, r[1]["variant"], r))
            elif r[0] == "use" and r[1][0] == "k":
                out.append((dbb, "const", r[1][1]))
            elif r[0] == "use":
                sub = _expand_move(fn, r[1], depth - 1, seen)
                if not sub:
                    return []
                out += sub
            else:
                return []
        else:
            return []
    return out


def has_fact(fn, prog, bb, pred):
    for f in guards.facts_at(fn, prog, bb):
        if pred(f):
            return f
    return None


def bool_true(callee_rx, truth=True):
    rx = re.compile(callee_rx)
    return lambda f: f.kind == "boolcall" and f.truth == truth and (rx.search(f.call.callee or "") or rx.search(f.call.decl or ""))


def variant_of_call(callee_rx, variant):
    rx = re.compile(callee_rx)

    def pred(f):
        if f.kind != "variant" or f.allowed != {variant} or not f.steps or f.steps[-1][0] != "call":
            return False
        if any(pr[0] in ("dc",) for st in f.steps for pr in (st[2] if len(st) > 2 else [])):
            return False
        return rx.search(f.steps[-1][1].callee or "") is not None or rx.search(f.steps[-1][1].decl or "") is not None
    return pred


TRANSPARENT = r"(Try>::branch|::ok_or_else|::ok_or|::map_err|::as_bytes|::deref|::as_ref|::as_str|::as_slice|::unwrap|::expect|::into_bytes|::borrow|::as_mut|Into<.*>::into|::to_owned|::clone|::into_future|Pin::<Ptr>::new_unchecked|Pin::<Ptr>::new)$"


def root_call(fn, op, through=TRANSPARENT, depth=12):
    """follow an operand back through value-preserving calls (on their first argument) to the call that produced the value"""
    rx = re.compile(through)
    cur = op
    last = None
    for _ in range(depth):
        steps = fn.origin(cur)
        if not steps or steps[-1][0] != "call":
            return last if last is not None else None
        c = steps[-1][1]
        last = c
        if rx.search(c.callee or "") and c.args:
            cur = c.args[0]
            last = None
            continue
        return c
    return last


def root_steps(fn, op, through=TRANSPARENT, depth=12):
    """like root_call but returns the final origin steps (call / arg / const / multi)"""
    rx = re.compile(through)
    cur = op
    steps = None
    for _ in range(depth):
        steps = fn.origin(cur)
        if steps and steps[-1][0] == "call":
            c = steps[-1][1]
            if rx.search(c.callee or "") and c.args:
                cur = c.args[0]
                continue
        return steps
    return steps


def blocks_under_edge(fn, sw_bb, succ):
    """blocks dominated by the edge sw_bb -> succ"""
    return [b for b in fn.live_blocks() if fn.edge_dominates(sw_bb, succ, b)]


def capture_desc(prog, cf, op, depth=4):
    """For an operand inside closure `cf` that reads a captured variable (field of the closure environment `arg1`):
    the description of what the enclosing function captured there (name-independent). None if not a capture."""
    from . import decision
    st = cf.origin(op)
    if not st or st[-1][0] != "arg" or st[-1][1] != 1:
        return None
    projs = [pr for s_ in st for pr in (s_[2] if len(s_) > 2 else []) if pr[0] == "f"]
    if not projs:
        return None
    idx = projs[-1][1] if False else None
    # the first field projection applied to the environment is the capture index
    allp = []
    for s_ in reversed(st):
        for pr in (s_[2] if len(s_) > 2 else []):
            allp.append(pr)
    for pr in st[-1][2]:
        if pr[0] == "f":
            idx = pr[1]
            break
    if idx is None:
        return None
    par = prog.fns.get(cf.parent)
    if par is None:
        return None
    for bi in sorted(par.live_blocks()):
        for stt in par.blocks[bi]["st"]:
            if stt["k"] == "=" and stt["r"][0] == "agg" and stt["r"][1].get("def") == cf.key:
                ops = stt["r"][2]
                if idx < len(ops):
                    return decision.describe_deep(par, ops[idx], depth)
    return None


def reaching_defs(fn, local):
    """classic reaching definitions for one local: {block: set of def ids reaching its *end*}, {block: set reaching its entry};
    a def id is (bb, stmt index or None for a call/yield terminator). Every assignment to the whole local kills the others."""
    defs = [(d[0], d[1]) for d in fn.defs().get(local, []) if not fn.is_cleanup(d[0]) and (d[2] != "assign" or not d[3]["p"][1])]
    last_in_block = {}
    for bb, si in defs:
        key = si if si is not None else 10 ** 6
        if bb not in last_in_block or key > last_in_block[bb][0]:
            last_in_block[bb] = (key, (bb, si))
    live = sorted(fn.live_blocks())
    IN = {b: set() for b in live}
    OUT = {b: set() for b in live}
    changed = True
    while changed:
        changed = False
        for b in live:
            if fn.is_cleanup(b):
                continue
            inn = set()
            for p, _ in fn.pred(b):
                if p in OUT:
                    inn |= OUT[p]
            out = {last_in_block[b][1]} if b in last_in_block else inn
            if inn != IN[b] or out != OUT[b]:
                IN[b], OUT[b] = inn, out
                changed = True
    return IN, OUT


def leaf_values(fn, op, depth=32):
    """The values an operand can hold, followed through copies, re-assigned locals (every definition), aggregates taken apart
    again by a matching downcast/field projection (`Ready(Ok(Some(n)))` ... `@Ready.0@Ok.0@Some.0`), references and
    `Try::branch` (`?`). -> list of ('const', c) | ('place', local, projs) | ('call', Call, projs) | ('other', rvalue).
    Definitions whose variant contradicts the projection are infeasible for that read and are skipped."""
    from .mir import Call
    out = []
    seen = set()

    def variants_for_continue():
        return ("Ok", "Some")

    def go(local, projs, d):
        key = (local, repr(projs))
        if key in seen or d <= 0:
            if d <= 0:
                out.append(("place", local, projs))
            return
        seen.add(key)
        if 1 <= local <= fn.argc:
            out.append(("place", local, projs))
            return
        defs = [x for x in fn.defs().get(local, []) if not fn.is_cleanup(x[0])]
        if not defs:
            out.append(("place", local, projs))
            return
        # a variable updated from itself (`n += k`) is a leaf: it has no single value to resolve to
        if len(defs) > 1 and not projs:
            for (dbb, si, dk, payload) in defs:
                if dk == "assign" and not payload["p"][1] and payload["r"][0] == "use" and payload["r"][1][0] in ("c", "m"):
                    ds = fn.origin(payload["r"][1])
                    if ds and ds[-1][0] == "bin":
                        for o in (ds[-1][1][2], ds[-1][1][3]):
                            oo = fn.origin(o)
                            if oo and oo[-1][0] == "multi" and oo[-1][1] == local:
                                out.append(("place", local, []))
                                return
        for (dbb, si, dk, payload) in defs:
            if dk == "call":
                c = Call(fn, dbb, payload, False)
                if re.search(r"Try>::branch$", c.callee or "") and projs and projs[0][0] == "dc" and projs[0][1] == "Continue" and c.args and c.args[0][0] in ("c", "m"):
                    rest = projs[1:]
                    if rest and rest[0][0] == "f":
                        rest = rest[1:]
                    a = c.args[0][1]
                    for v in variants_for_continue():
                        go(a[0], list(a[1]) + [["dc", v, 0], ["f", 0, "", ""]] + rest, d - 1)
                    continue
                if re.search(r"Try>::branch$", c.callee or "") and projs and projs[0][0] == "dc" and projs[0][1] == "Break":
                    continue
                out.append(("call", c, projs))
                continue
            if dk != "assign" or payload["p"][1]:
                # a store through a projection of the local (field-wise initialisation): not followed
                if dk == "assign" and payload["p"][1]:
                    continue
                out.append(("place", local, projs))
                continue
            r = payload["r"]
            if r[0] == "use":
                o = r[1]
                if o[0] == "k":
                    if not projs:
                        out.append(("const", o[1]))
                    continue
                go(o[1][0], list(o[1][1]) + projs, d - 1)
            elif r[0] in ("ref",) and projs and projs[0][0] == "d":
                go(r[2][0], list(r[2][1]) + projs[1:], d - 1)
            elif r[0] in ("ref",) and r[2][1] and r[2][1][-1][0] == "d":
                # a reborrow `&*x` is the reference x itself
                go(r[2][0], list(r[2][1][:-1]) + projs, d - 1)
            elif r[0] in ("ref",) and not projs:
                # `&x`: for provenance the reference stands for the value of x
                if r[2][0] > fn.argc and (r[2][0], repr(list(r[2][1]))) not in seen:
                    go(r[2][0], list(r[2][1]), d - 1)
                else:
                    out.append(("place", r[2][0], list(r[2][1])))
            elif r[0] == "agg":
                kind = r[1]
                ops = r[2]
                pj = list(projs)
                if kind.get("k") == "adt":
                    if pj and pj[0][0] == "dc":
                        if pj[0][1] != kind.get("variant"):
                            continue      # this definition builds another variant: infeasible for this read
                        pj = pj[1:]
                    if pj and pj[0][0] == "f" and pj[0][1] < len(ops):
                        o = ops[pj[0][1]]
                        if o[0] == "k":
                            if len(pj) == 1:
                                out.append(("const", o[1]))
                            continue
                        go(o[1][0], list(o[1][1]) + pj[1:], d - 1)
                    elif not pj:
                        out.append(("other", r))
                elif kind.get("k") == "tuple" and pj and pj[0][0] == "f" and pj[0][1] < len(ops):
                    o = ops[pj[0][1]]
                    if o[0] == "k":
                        if len(pj) == 1:
                            out.append(("const", o[1]))
                        continue
                    go(o[1][0], list(o[1][1]) + pj[1:], d - 1)
                else:
                    out.append(("other", r))
            elif r[0] == "bin" and not projs:
                # arithmetic on the local itself (a counter): the local is the leaf
                if ("place", local, []) not in out:
                    out.append(("place", local, []))
            elif r[0] == "bin" and projs and projs[0][0] == "f" and projs[0][1] == 0 and "WithOverflow" in r[1]:
                # (sum, overflowed).0 of checked arithmetic
                out.append(("other", r))
            else:
                out.append(("other", r))

    if op[0] == "k":
        return [("const", op[1])]
    if op[0] not in ("c", "m"):
        return [("other", op)]
    go(op[1][0], list(op[1][1]), depth)
    return out


def consistent_def_blocks(fn, prog, bb):
    """Blocks that, beyond the dominators of `bb`, every execution reaching `bb` must have passed: when a dominating
    branch fact says a re-assigned local (e.g. the result of a spliced-in helper with several returns) holds variant V,
    only the definitions that build V are feasible; if there is exactly one such definition, its block was passed."""
    out = []
    want = {"Continue": ("Ok", "Some"), "Ok": ("Ok",), "Some": ("Some",), "Ready": ("Ready",)}
    for fa in guards.facts_at(fn, prog, bb):
        st = getattr(fa, "steps", None)
        if fa.kind != "variant" or not fa.allowed or len(fa.allowed) != 1 or not st:
            continue
        (v,) = tuple(fa.allowed)
        if v not in want:
            continue
        last = st[-1]
        op = None
        if last[0] == "call" and re.search(r"Try>::branch$", last[1].callee or "") and last[1].args:
            op = last[1].args[0]
        elif last[0] == "multi":
            op = ["c", [last[1], []]]
        if op is None or op[0] not in ("c", "m") or op[1][1]:
            continue
        # follow plain copies to the re-assigned local
        local = op[1][0]
        for _ in range(6):
            sd = fn.single_def(local)
            if sd is None:
                break
            if sd[2] == "assign" and not sd[3]["p"][1] and sd[3]["r"][0] == "use" and sd[3]["r"][1][0] in ("c", "m") and not sd[3]["r"][1][1][1]:
                local = sd[3]["r"][1][1][0]
                continue
            break
        defs = [d for d in fn.defs().get(local, []) if not fn.is_cleanup(d[0])]
        if len(defs) < 2:
            continue
        good = [d for d in defs if d[2] == "assign" and not d[3]["p"][1] and d[3]["r"][0] == "agg" and d[3]["r"][1].get("variant") in want[v]]
        other = [d for d in defs if d not in good and not (d[2] == "assign" and not d[3]["p"][1] and d[3]["r"][0] == "agg" and d[3]["r"][1].get("k") == "adt")
                 and not (d[2] == "call" and re.search(RESIDUAL, d[3].get("callee") or ""))]
        if len(good) == 1 and not other:
            out.append(good[0][0])
    return out


# ------------------------------------------------------------------------------------------------
# must-alias flow of one value: which places hold (a reference to) a given value along a path

def _np(p):
    if p[0] == "d":
        return ("d",)
    if p[0] == "f":
        return ("f", p[1])
    if p[0] == "dc":
        return ("dc", p[1])
    return (p[0], "?")


def norm_place(place):
    return (place[0], tuple(_np(p) for p in place[1]))


def _prefixed(S, P):
    """suffixes of the tracked paths that start with P"""
    return [T[1][len(P[1]):] for T in S if T[0] == P[0] and T[1][:len(P[1])] == P[1]]


def alias_step(S, st):
    """transfer of one assignment over a set of access paths that all hold the tracked value (copies, moves, `&place`,
    re-borrows `&*q`, aggregates and their destructuring); other rvalues only kill"""
    if st.get("k") != "=":
        return S
    D = norm_place(st["p"])
    r = st["r"]
    gen = set()
    if r[0] == "use" and r[1][0] in ("c", "m"):
        P = norm_place(r[1][1])
        for rest in _prefixed(S, P):
            gen.add((D[0], D[1] + rest))
    elif r[0] == "ref":
        P = norm_place(r[2])
        if P[1] and P[1][-1] == ("d",) and (P[0], P[1][:-1]) in S:
            gen.add(D)
        for rest in _prefixed(S, P):
            gen.add((D[0], D[1] + (("d",),) + rest))
    elif r[0] == "agg":
        info = r[1]
        for i, op in enumerate(r[2]):
            if op[0] not in ("c", "m"):
                continue
            P = norm_place(op[1])
            pre = (("dc", info.get("variant")), ("f", i)) if info.get("k") == "adt" and info.get("variant") is not None and info.get("enum", True) and info.get("variant") not in (None, "") and _is_enum_agg(info) else (("f", i),)
            for rest in _prefixed(S, P):
                gen.add((D[0], D[1] + pre + rest))
    elif r[0] == "cast" and len(r) > 2 and isinstance(r[2], list) and r[2] and r[2][0] in ("c", "m"):
        P = norm_place(r[2][1])
        for rest in _prefixed(S, P):
            gen.add((D[0], D[1] + rest))
    keep = {T for T in S if not (T[0] == D[0] and T[1][:len(D[1])] == D[1])}
    return frozenset(keep | gen)


def _is_enum_agg(info):
    # struct aggregates carry their only variant's name as well; Option/Result/Poll and other enums are read through a downcast
    return info.get("adt", "").rsplit("::", 1)[-1] in ("Option", "Result", "Poll", "ControlFlow") or info.get("is_enum", False)


def alias_explore(fn, start_bb, S0, on_stmt, blocked_edge=lambda bb, tb, lab: False, limit=200000, variant_names=None, V0=()):
    """Forward exploration of (block, set of access paths holding the tracked value, known enum variants of places) from
    the top of `start_bb`. on_stmt(bb, index, statement, S) is called before each assignment is applied; edges for which
    blocked_edge holds are not followed; a call's destination is killed. Variants: after `x = None` / `x = Some(..)`
    (and moves of x) a switch on x's discriminant follows only the matching edge -- an Option built on this very path
    and tested again after being handed through a helper's return does not fork the path."""
    from collections import deque
    seen = set()
    dq = deque([(start_bb, frozenset(S0), frozenset(V0))])
    n = 0
    while dq:
        n += 1
        if n > limit:
            raise RuntimeError("alias exploration exceeded %d states" % limit)
        bb, S, V = dq.popleft()
        if (bb, S, V) in seen or fn.is_cleanup(bb):
            continue
        seen.add((bb, S, V))
        Vd = dict(V)
        for si, st in enumerate(fn.blocks[bb]["st"]):
            on_stmt(bb, si, st, S)
            S = alias_step(S, st)
            if st.get("k") == "=":
                D = norm_place(st["p"])
                r = st["r"]
                newv = None
                if r[0] == "agg" and r[1].get("k") == "adt" and r[1].get("variant") and _is_enum_agg(r[1]):
                    newv = r[1]["variant"]
                elif r[0] == "use" and r[1][0] in ("c", "m"):
                    newv = Vd.get(norm_place(r[1][1]))
                for k in [k for k in Vd if k[0] == D[0] and k[1][:len(D[1])] == D[1]]:
                    del Vd[k]
                if newv is not None:
                    Vd[D] = newv
            elif st.get("k") == "setdiscr":
                D = norm_place(st["p"])
                Vd.pop(D, None)
        t = fn.blocks[bb]["t"]
        if t["k"] == "call" and t.get("dest") is not None:
            D = norm_place(t["dest"])
            S = frozenset(T for T in S if not (T[0] == D[0] and T[1][:len(D[1])] == D[1]))
            for k in [k for k in Vd if k[0] == D[0] and k[1][:len(D[1])] == D[1]]:
                del Vd[k]
        only = None
        if t["k"] == "switch" and variant_names is not None:
            info = fn.switch_info(bb)
            if info and info.get("kind") == "variant":
                known = Vd.get(norm_place(info["place"]))
                if known is not None:
                    names = variant_names(info["ty"]) or {}
                    listed = {lab: names.get(lab) for _, lab in fn.succ(bb) if lab != "otherwise"}
                    if known in listed.values():
                        only = {lab for lab, nm in listed.items() if nm == known}
                    else:
                        only = {"otherwise"}
        V2 = frozenset(Vd.items())
        for tb, lab in fn.succ(bb):
            if fn.is_cleanup(tb) or blocked_edge(bb, tb, lab):
                continue
            if only is not None and lab not in only:
                continue
            dq.append((tb, S, V2))
    return seen


def value_defs(fn, op, depth=8, _seen=None):
    """definitions a (boolean) operand can get its value from, through copies and re-assigned locals:
    [(kind, payload, bb)] with kind in const (payload: the constant), call (payload: Call), not (payload: inner operand), other"""
    from .mir import Call
    out = []
    _seen = _seen if _seen is not None else set()
    if op[0] == "k":
        return [("const", op[1], None)]
    if op[0] not in ("c", "m") or op[1][1] or depth <= 0:
        return [("other", op, None)]
    local = op[1][0]
    if local in _seen:
        return []
    _seen = _seen | {local}
    defs = [d for d in fn.defs().get(local, []) if not fn.is_cleanup(d[0]) and not (d[2] == "assign" and d[3]["p"][1])]
    if not defs:
        return [("other", op, None)]
    for dbb, si, dk, payload in defs:
        if dk == "call":
            out.append(("call", Call(fn, dbb, payload, False), dbb))
        elif dk == "assign":
            r = payload["r"]
            if r[0] == "use" and r[1][0] == "k":
                out.append(("const", r[1][1], dbb))
            elif r[0] == "use":
                out += [(k, pl, bb if bb is not None else dbb) for k, pl, bb in value_defs(fn, r[1], depth - 1, _seen)]
            elif r[0] == "un" and r[1] == "Not":
                out.append(("not", r[2], dbb))
            else:
                out.append(("other", r, dbb))
        else:
            out.append(("other", payload, dbb))
    return out


def some_edge_targets(fn, prog, call_bb, variant="Some"):
    """targets of the switch edges that establish `<result of the call in call_bb> is <variant>` (through `?`/poll wrappers)"""
    from . import guards
    out = []
    for sb in sorted(fn.live_blocks()):
        if fn.blocks[sb]["t"]["k"] != "switch" or fn.is_cleanup(sb):
            continue
        for tb, lab in fn.succ(sb):
            try:
                facts = guards.derive(fn, prog, guards.edge_facts(fn, prog, sb, {lab}))
            except Exception:
                facts = []
            if any(fa.kind == "variant" and fa.allowed == {variant} and fa.steps and fa.steps[-1][0] == "call" and fa.steps[-1][1].bb == call_bb for fa in facts):
                out.append(tb)
    return out
