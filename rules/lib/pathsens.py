"""Path sensitivity for flags tested more than once: two switches on the same single-definition
bool (or on the same enum discriminant read) cannot take different edges on one path.
Used where a path-insensitive must-pass / pairing rule would report an infeasible path."""
from collections import deque


def switch_root(fn, bb):
    """identity of the value a switch tests: the local it was computed into, followed back through
    plain copies of single-definition temporaries; None when the block is not a switch"""
    t = fn.blocks[bb]["t"]
    if t["k"] != "switch":
        return None
    op = t["discr"]
    if op[0] not in ("c", "m"):
        return None
    place = op[1]
    for _ in range(12):
        if place[1]:
            return ("place", place[0], repr(place[1]))
        sd = fn.single_def(place[0])
        if sd is None:
            return ("local", place[0])
        bi, si, dk, payload = sd
        if dk == "assign":
            r = payload["r"]
            if r[0] == "use" and r[1][0] in ("c", "m"):
                place = r[1][1]
                continue
            if r[0] == "un" and r[1] == "Not":
                # `!flag`: same root, inverted; callers compare edges through normalised()
                return ("not",) + tuple(switch_root_of_operand(fn, r[2]) or ("local", place[0]))
            if r[0] == "discr":
                return ("discr", r[1][0], repr(r[1][1]))
        return ("local", place[0])
    return ("local", place[0])


def switch_root_of_operand(fn, op):
    if op[0] not in ("c", "m"):
        return None
    place = op[1]
    for _ in range(12):
        if place[1]:
            return ("place", place[0], repr(place[1]))
        sd = fn.single_def(place[0])
        if sd is None:
            return ("local", place[0])
        bi, si, dk, payload = sd
        if dk == "assign" and payload["r"][0] == "use" and payload["r"][1][0] in ("c", "m"):
            place = payload["r"][1][1]
            continue
        return ("local", place[0])
    return ("local", place[0])


def normalised(root, label):
    """(root, label) with a leading `not` folded into the label (bool switches: 0 / otherwise)"""
    if root and root[0] == "not":
        inner = tuple(root[1:])
        if label == 0:
            return inner, "otherwise"
        if label == "otherwise":
            return inner, 0
        return inner, ("not", label)
    return root, label


def multi_roots(fn, blocks):
    """roots tested by at least two switches among `blocks`"""
    seen = {}
    for b in blocks:
        r = switch_root(fn, b)
        if r is None:
            continue
        r, _ = normalised(r, 0)
        seen.setdefault(r, set()).add(b)
    return {r for r, bs in seen.items() if len(bs) > 1}


def edges_into(fn, bb, roots=None):
    """{root: label} for the switch edges that dominate `bb` (restricted to `roots` when given)"""
    out = {}
    for s in range(len(fn.blocks)):
        r = switch_root(fn, s)
        if r is None or not fn.dominates(s, bb) or s == bb:
            continue
        for tb, lab in fn.succ(s):
            if fn.edge_dominates(s, tb, bb):
                rr, ll = normalised(r, lab)
                if roots is None or rr in roots:
                    out[rr] = ll
    return out


def compatible(e1, e2):
    return all(e2.get(r, l) == l for r, l in e1.items())


def explore(fn, start, stop, event, init, step, roots=None, limit=200000):
    """Forward exploration of (block, flag-assignment, abstract state) from `start`.
    `stop(bb)` marks exit blocks (not expanded); `event(bb)` -> token or None for the block's
    terminator; `step(state, token)` -> new state. Returns {state at exit: set of exit blocks}.
    Switch edges whose root already has a different label on the path are not followed."""
    region = set()
    dq = deque([start])
    while dq:
        b = dq.popleft()
        if b in region or fn.is_cleanup(b):
            continue
        region.add(b)
        if stop(b):
            continue
        for tb, _ in fn.succ(b):
            dq.append(tb)
    if roots is None:
        roots = multi_roots(fn, region)
    exits = {}
    seen = set()
    dq = deque([(start, frozenset(), init)])
    n = 0
    while dq:
        n += 1
        if n > limit:
            raise RuntimeError("path exploration exceeded %d states" % limit)
        bb, asg, st = dq.popleft()
        if (bb, asg, st) in seen or fn.is_cleanup(bb):
            continue
        seen.add((bb, asg, st))
        if stop(bb):
            exits.setdefault(st, set()).add(bb)
            continue
        tok = event(bb)
        st2 = step(st, tok) if tok is not None else st
        r = switch_root(fn, bb)
        for tb, lab in fn.succ(bb):
            if fn.is_cleanup(tb):
                continue
            a2 = asg
            if r is not None:
                rr, ll = normalised(r, lab)
                if rr in roots:
                    d = dict(asg)
                    if rr in d and d[rr] != ll:
                        continue
                    d[rr] = ll
                    a2 = frozenset(d.items())
            dq.append((tb, a2, st2))
    return exits


def path_avoiding_edges(fn, prog, start, target, edge_ok):
    """Is `target` reachable from `start` without taking a switch edge whose facts satisfy `edge_ok`?
    -> None when every path takes such an edge, else an example list of blocks.
    (`edge_ok(facts)` gets the derived facts of one switch edge, see guards.edge_facts.)"""
    from . import guards
    prev = {start: None}
    dq = deque([start])
    while dq:
        b = dq.popleft()
        if b == target:
            path = []
            while b is not None:
                path.append(b)
                b = prev[b]
            return list(reversed(path))
        if fn.is_cleanup(b):
            continue
        t = fn.blocks[b]["t"]
        if t["k"] == "switch":
            by_succ = {}
            for s, lab in fn.succ(b):
                by_succ.setdefault(s, set()).add(lab)
            for s, labs in by_succ.items():
                try:
                    facts = guards.derive(fn, prog, guards.edge_facts(fn, prog, b, labs))
                except Exception:
                    facts = []
                if edge_ok(facts):
                    continue
                if s not in prev:
                    prev[s] = b
                    dq.append(s)
        else:
            for s, _ in fn.succ(b):
                if s not in prev:
                    prev[s] = b
                    dq.append(s)
    return None
