"""Path sensitivity for flags tested more than once: two switches on the same single-definition
bool (or on the same enum discriminant read) cannot take different edges on one path.
Used where a path-insensitive must-pass / pairing rule would report an infeasible path."""
from collections import deque


def switch_root(fn, bb):
    """identity of the value a switch tests: the local it was computed into, followed back through
    plain copies of single-definition temporaries; None when the block is not a switch"""
    t = fn.blocks[bb]["t"]
    if t["k"] != "switch":
        return None
    op = t["discr"]
    if op[0] not in ("c", "m"):
        return None
    place = op[1]
    for _ in range(12):
        if place[1]:
            return ("place", place[0], repr(place[1]))
        sd = fn.single_def(place[0])
        if sd is None:
            return ("local", place[0])
        bi, si, dk, payload = sd
        if dk == "assign":
            r = payload["r"]
            if r[0] == "use" and r[1][0] in ("c", "m"):
                place = r[1][1]
                continue
            if r[0] == "un" and r[1] == "Not":
                # `!flag`: same root, inverted; callers compare edges through normalised()
                return ("not",) + tuple(switch_root_of_operand(fn, r[2]) or ("local", place[0]))
            if r[0] == "discr":
                return ("discr", r[1][0], repr(r[1][1]))
        return ("local", place[0])
    return ("local", place[0])


def switch_root_of_operand(fn, op):
    if op[0] not in ("c", "m"):
        return None
    place = op[1]
    for _ in range(12):
        if place[1]:
            return ("place", place[0], repr(place[1]))
        sd = fn.single_def(place[0])
        if sd is None:
            return ("local", place[0])
        bi, si, dk, payload = sd
        if dk == "assign" and payload["r"][0] == "use" and payload["r"][1][0] in ("c", "m"):
            place = payload["r"][1][1]
            continue
        return ("local", place[0])
    return ("local", place[0])


def normalised(root, label):
    """(root, label) with a leading `not` folded into the label (bool switches: 0 / otherwise)"""
    if root and root[0] == "not":
        inner = tuple(root[1:])
        if label == 0:
            return inner, "otherwise"
        if label == "otherwise":
            return inner, 0
        return inner, ("not", label)
    return root, label


def multi_roots(fn, blocks):
    """roots tested by at least two switches among `blocks`"""
    seen = {}
    for b in blocks:
        r = switch_root(fn, b)
        if r is None:
            continue
        r, _ = normalised(r, 0)
        seen.setdefault(r, set()).add(b)
    return {r for r, bs in seen.items() if len(bs) > 1}


def edges_into(fn, bb, roots=None):
    """{root: label} for the switch edges that dominate `bb` (restricted to `roots` when given)"""
    out = {}
    for s in range(len(fn.blocks)):
        r = switch_root(fn, s)
        if r is None or not fn.dominates(s, bb) or s == bb:
            continue
        for tb, lab in fn.succ(s):
            if fn.edge_dominates(s, tb, bb):
                rr, ll = normalised(r, lab)
                if roots is None or rr in roots:
                    out[rr] = ll
    return out


def compatible(e1, e2):
    return all(e2.get(r, l) == l for r, l in e1.items())


def explore(fn, start, stop, event, init, step, roots=None, limit=200000):
    """Forward exploration of (block, flag-assignment, abstract state) from `start`.
    `stop(bb)` marks exit blocks (not expanded); `event(bb)` -> token or None for the block's
    terminator; `step(state, token)` -> new state. Returns {state at exit: set of exit blocks}.
    Switch edges whose root already has a different label on the path are not followed."""
    region = set()
    dq = deque([start])
    while dq:
        b = dq.popleft()
        if b in region or fn.is_cleanup(b):
            continue
        region.add(b)
        if stop(b):
            continue
        for tb, _ in fn.succ(b):
            dq.append(tb)
    if roots is None:
        roots = multi_roots(fn, region)
    exits = {}
    seen = set()
    dq = deque([(start, frozenset(), init)])
    n = 0
    while dq:
        n += 1
        if n > limit:
            raise RuntimeError("path exploration exceeded %d states" % limit)
        bb, asg, st = dq.popleft()
        if (bb, asg, st) in seen or fn.is_cleanup(bb):
            continue
        seen.add((bb, asg, st))
        if stop(bb):
            exits.setdefault(st, set()).add(bb)
            continue
        tok = event(bb)
        st2 = step(st, tok) if tok is not None else st
        r = switch_root(fn, bb)
        for tb, lab in fn.succ(bb):
            if fn.is_cleanup(tb):
                continue
            a2 = asg
            if r is not None:
                rr, ll = normalised(r, lab)
                if rr in roots:
                    d = dict(asg)
                    if rr in d and d[rr] != ll:
                        continue
                    d[rr] = ll
                    a2 = frozenset(d.items())
            dq.append((tb, a2, st2))
    return exits


def path_avoiding_edges(fn, prog, start, target, edge_ok, constprop=False, avoid=(), raw_edge_ok=None):
    """Is `target` reachable from `start` without taking a switch edge whose facts satisfy `edge_ok`?
    -> None when every path takes such an edge, else an example list of blocks.
    (`edge_ok(facts)` gets the derived facts of one switch edge, see guards.edge_facts.)
    constprop=True: boolean locals assigned a constant on the path (`flag = true` in one arm of a `matches!`, the result
    of an inlined predicate helper) are remembered, and a later switch on such a local follows only the matching edge.
    raw_edge_ok(fn, block, successor, labels, known): the same test on the edge itself (for discriminants that are plain places)."""
    from . import guards
    s0 = (start, frozenset())
    prev = {s0: None}
    dq = deque([s0])
    while dq:
        state = dq.popleft()
        b, known = state
        if b == target:
            path = []
            while state is not None:
                path.append(state[0])
                state = prev[state]
            return list(reversed(path))
        if fn.is_cleanup(b) or b in avoid:
            continue
        kd = dict(known)
        if constprop:
            for st in fn.blocks[b]["st"]:
                if st.get("k") == "=" and not st["p"][1]:
                    r = st["r"]
                    v = None
                    if r[0] == "use" and r[1][0] == "k" and r[1][1].get("ty") == "bool":
                        v = 1 if str(r[1][1].get("v")) == "1" else 0
                    elif r[0] == "use" and r[1][0] in ("c", "m") and not r[1][1][1]:
                        v = kd.get(r[1][1][0])
                    elif r[0] == "use" and r[1][0] in ("c", "m") and r[1][1][1] and raw_edge_ok is not None:
                        # a copy of a field place (`_r = copy (attrs.serde).flag`): remembered symbolically for raw_edge_ok
                        v = ("p",) + tuple(str(pr[2]) if pr[0] == "f" else str(pr[0]) for pr in r[1][1][1])
                    if v is None:
                        kd.pop(st["p"][0], None)
                    else:
                        kd[st["p"][0]] = v
                elif st.get("k") == "=" and st["p"][0] in kd:
                    kd.pop(st["p"][0], None)
        t = fn.blocks[b]["t"]
        if t["k"] == "call" and t.get("dest") is not None:
            kd.pop(t["dest"][0], None)
        k2 = frozenset(kd.items())
        if t["k"] == "switch":
            only = None
            if constprop and t["discr"][0] in ("c", "m") and not t["discr"][1][1] and kd.get(t["discr"][1][0]) in (0, 1) and t.get("dty") == "bool":
                only = kd[t["discr"][1][0]]
            by_succ = {}
            for s, lab in fn.succ(b):
                if only is not None and ((only == 0) != (lab == 0)):
                    continue
                by_succ.setdefault(s, set()).add(lab)
            for s, labs in by_succ.items():
                try:
                    facts = guards.derive(fn, prog, guards.edge_facts(fn, prog, b, labs))
                except Exception:
                    facts = []
                if edge_ok(facts):
                    continue
                if raw_edge_ok is not None and raw_edge_ok(fn, b, s, labs, kd):
                    continue
                # the residual edge of a match that already listed every variant cannot be taken
                if any(fa.kind == "variant" and fa.allowed is not None and len(fa.allowed) == 0 for fa in facts):
                    continue
                ns = (s, k2)
                if ns not in prev:
                    prev[ns] = state
                    dq.append(ns)
        else:
            for s, _ in fn.succ(b):
                ns = (s, k2)
                if ns not in prev:
                    prev[ns] = state
                    dq.append(ns)
    return None


def arrivals(fn, prog, target, start=0, limit=300000):
    """what every self-consistent path has established about switched-on places when it reaches `target`:
    -> list (one per distinct arrival state) of {place description: variant name taken}; [] when target is unreachable"""
    return feasible_path(fn, prog, target, start, limit, _collect=True)


def feasible_path(fn, prog, target, start=0, limit=300000, _collect=False):
    """Is `target` reachable from `start` on a path that is consistent with what the path itself establishes?
    Tracked along each path: (1) the variant of enum values built on it (`x = None`, `x = Some(..)`, moves) -- a later
    switch on x's discriminant follows only that variant; (2) boolean constants assigned to locals; (3) the edge taken by a
    switch on the discriminant of a place (`match self.state`) -- a later switch on the same place, with no store to it and
    no call that receives its base in between, takes the same edge. -> an example path (list of blocks) or None.
    Sound for pruning: a path is dropped only when two of its own branch decisions contradict each other."""
    from .paths import norm_place, _is_enum_agg

    def names_of(ty):
        n = prog.variant_names(ty)
        if not n and ty.startswith("core::option::Option<"):
            n = {0: "None", 1: "Some"}
        return n or {}
    def canon(place):
        """the place with leading derefs of single-definition reference temporaries resolved (`(*r)` with r = &p  ->  p)"""
        pl = [place[0], list(place[1])]
        for _ in range(10):
            if not (pl[1] and pl[1][0][0] == "d") or 1 <= pl[0] <= fn.argc:
                break
            sd = fn.single_def(pl[0])
            if sd is None or sd[2] != "assign":
                break
            r = sd[3]["r"]
            if r[0] == "ref":
                pl = [r[2][0], list(r[2][1]) + pl[1][1:]]
            elif r[0] == "use" and r[1][0] in ("c", "m"):
                pl = [r[1][1][0], list(r[1][1][1]) + pl[1]]
            else:
                break
        return norm_place(pl)

    def base_of(op):
        """base local of what an operand (a reference) points into"""
        if op[0] not in ("c", "m"):
            return None
        return canon([op[1][0], list(op[1][1]) + [["d"]]])[0]
    s0 = (start, frozenset(), frozenset(), frozenset())
    prev = {s0: None}
    dq = deque([s0])
    n = 0
    rootinfo = {}
    collected = []
    while dq:
        n += 1
        if n > limit:
            raise RuntimeError("feasibility exploration exceeded %d states" % limit)
        state = dq.popleft()
        b, V, K, R = state
        if b == target and _collect:
            out = {}
            for root, lab in R:
                ty, desc = rootinfo.get(root, ("", "?"))
                nm = names_of(ty).get(lab, str(lab))
                out[desc] = nm
            collected.append(out)
            continue
        if b == target:
            path = []
            while state is not None:
                path.append(state[0])
                state = prev[state]
            return list(reversed(path))
        if fn.is_cleanup(b):
            continue
        Vd, Kd, Rd = dict(V), dict(K), dict(R)

        def kill(local, projs=None):
            for d in (Vd, Rd):
                for k in [k for k in d if k[0] == local]:
                    del d[k]
            if projs is None or not projs:
                Kd.pop(local, None)
        for st in fn.blocks[b]["st"]:
            if st.get("k") == "=":
                D = norm_place(st["p"])
                r = st["r"]
                newv, newk = None, None
                if r[0] == "agg" and r[1].get("k") == "adt" and r[1].get("variant") and _is_enum_agg(r[1]):
                    newv = r[1]["variant"]
                elif r[0] == "use" and r[1][0] in ("c", "m"):
                    newv = Vd.get(norm_place(r[1][1]))
                    if not r[1][1][1]:
                        newk = Kd.get(r[1][1][0])
                elif r[0] == "use" and r[1][0] == "k" and r[1][1].get("ty") == "bool":
                    newk = 1 if str(r[1][1].get("v")) == "1" else 0
                kill(D[0], D[1])
                CD = canon(st["p"])
                if CD[0] != D[0]:
                    for k in [k for k in Rd if k[0] == CD[0]]:
                        del Rd[k]
                if newv is not None:
                    Vd[D] = newv
                if newk is not None and not D[1]:
                    Kd[D[0]] = newk
            elif st.get("k") == "setdiscr":
                kill(st["p"][0], st["p"][1])
        t = fn.blocks[b]["t"]
        if t["k"] == "call":
            if t.get("dest") is not None:
                kill(t["dest"][0], t["dest"][1])
            for a in t.get("args", []):
                if a[0] in ("c", "m"):
                    # a callee that receives the base of a remembered place may change it
                    for k in [k for k in Rd if k[0] in (a[1][0], base_of(a))]:
                        del Rd[k]
                    for k in [k for k in Vd if k[0] == a[1][0] and k[1]]:
                        del Vd[k]
        only = None
        root = None
        if t["k"] == "switch":
            info = fn.switch_info(b)
            if info and info.get("kind") == "variant":
                P = norm_place(info["place"])
                names = names_of(info["ty"])
                known = Vd.get(P)
                P = canon(info["place"])
                if known is not None:
                    listed = {lab: names.get(lab) for _, lab in fn.succ(b) if lab != "otherwise"}
                    only = {lab for lab, nm in listed.items() if nm == known} if known in listed.values() else {"otherwise"}
                elif P in Rd:
                    only = {Rd[P]}
                else:
                    root = P
                    if P not in rootinfo:
                        from . import decision as _decision
                        rootinfo[P] = (info["ty"], _decision.describe_deep(fn, ["c", info["place"]], 6))
            elif t.get("dty") == "bool" and t["discr"][0] in ("c", "m") and not t["discr"][1][1] and t["discr"][1][0] in Kd:
                v = Kd[t["discr"][1][0]]
                only = {lab for _, lab in fn.succ(b) if (lab == 0) == (v == 0)}
        V2, K2 = frozenset(Vd.items()), frozenset(Kd.items())
        for tb, lab in fn.succ(b):
            if fn.is_cleanup(tb) or (only is not None and lab not in only):
                continue
            R2d = Rd
            if root is not None:
                R2d = dict(Rd)
                R2d[root] = lab
            ns = (tb, V2, K2, frozenset(R2d.items()))
            if ns not in prev:
                prev[ns] = state
                dq.append(ns)
    return collected if _collect else None
