"""BOUND: minimum and maximum of a per-block weight (e.g. number of unchecked single-element writes)
over all paths of a function whose loops range over collections of type-known length."""
import re


class Unbounded(Exception):
    pass


def natural_loops(fn):
    """{header: set(body blocks)} for back edges u->h with h dominating u (normal CFG)"""
    loops = {}
    live = fn.live_blocks()
    for u in live:
        if fn.is_cleanup(u):
            continue
        for h, _ in fn.succ(u):
            if h in live and fn.dominates(h, u):
                body = loops.setdefault(h, {h})
                stack = [u]
                while stack:
                    x = stack.pop()
                    if x in body:
                        continue
                    body.add(x)
                    for p, _ in fn.pred(x):
                        if p in live:
                            stack.append(p)
    return loops


def array_len_of_iter(fn, header_blocks):
    """for `for x in <&[T; K]>` loops: K from the type of the IntoIterator::into_iter argument feeding the loop's next()"""
    for b in header_blocks:
        t = fn.term(b)
        if t["k"] == "call" and re.search(r"Iterator>?::next$", t.get("callee") or ""):
            from .mir import Call
            c = Call(fn, b, t, False)
            st = fn.origin(c.args[0])
            # &mut iter  <- into_iter(arr)
            from .paths import root_call
            rc = root_call(fn, c.args[0], through=r"$^")
            if rc is not None and rc.name == "into_iter":
                ty = " ".join(rc.targs)
                m = re.search(r"\[[^;\]]+; (\d+)\]", ty)
                if m:
                    return int(m.group(1))
                aty = fn.place_ty(rc.args[0][1]) if rc.args and rc.args[0][0] in ("c", "m") else ""
                m = re.search(r"\[[^;\]]+; (\d+)\]", aty)
                if m:
                    return int(m.group(1))
    return None


def weight_range(fn, weight, loop_bound=None):
    """(min, max) of the summed block weights over all entry->return paths.
    Loops must not be nested and must have a bound given by loop_bound(fn, header, body) (default: array length)."""
    loops = natural_loops(fn)
    for h, body in loops.items():
        for h2, body2 in loops.items():
            if h != h2 and h in body2 and h2 in body:
                raise Unbounded("irreducible/nested loops at bb%d/bb%d" % (h, h2))
            if h != h2 and h2 in body:
                raise Unbounded("nested loop bb%d inside bb%d" % (h2, h))
    inloop = {}
    for h, body in loops.items():
        for b in body:
            inloop[b] = h
    memo = {}

    def body_range(h):
        """weight of one iteration: paths header -> back-edge source, inside the body"""
        body = loops[h]
        m = {}

        def rec(b, seen):
            if b in m:
                return m[b]
            lo, hi = None, None
            w = weight(b)
            outs = []
            for s, _ in fn.succ(b):
                if s == h:
                    outs.append((0, 0))
                elif s in body and s not in seen:
                    outs.append(rec(s, seen | {b}))
            if not outs:
                # leaves the loop from here (break / exit test): not a full iteration
                m[b] = None
                return None
            outs = [o for o in outs if o is not None]
            if not outs:
                m[b] = None
                return None
            r = (w + min(o[0] for o in outs), w + max(o[1] for o in outs))
            m[b] = r
            return r
        r = rec(h, frozenset())
        return r or (0, 0)

    def after(b, visiting):
        """range from block b (inclusive) to return"""
        if b in memo:
            return memo[b]
        if b in visiting:
            raise Unbounded("unexpected cycle at bb%d" % b)
        t = fn.term(b)
        if b in loops:
            k = (loop_bound or (lambda f, h, body: array_len_of_iter(f, body)))(fn, b, loops[b])
            if k is None:
                raise Unbounded("loop at bb%d has no type-known bound" % b)
            it = body_range(b)
            # exits of the loop: successors of body blocks outside the body
            exits = {s for x in loops[b] for s, _ in fn.succ(x) if s not in loops[b]}
            rs = [after(e, visiting | {b}) for e in exits]
            rs = [r for r in rs if r is not None]
            if not rs:
                memo[b] = None
                return None
            # the header's own weight counts k+1 times (the final failing test); headers carry no writes in practice
            r = (k * it[0] + min(x[0] for x in rs), k * it[1] + max(x[1] for x in rs))
            memo[b] = r
            return r
        if t["k"] == "return":
            memo[b] = (weight(b), weight(b))
            return memo[b]
        succ = [s for s, _ in fn.succ(b)]
        if not succ:
            memo[b] = None  # diverges (panic): not a completed path
            return None
        rs = [after(s, visiting | {b}) for s in succ]
        rs = [r for r in rs if r is not None]
        if not rs:
            memo[b] = None
            return None
        w = weight(b)
        memo[b] = (w + min(r[0] for r in rs), w + max(r[1] for r in rs))
        return memo[b]

    r = after(0, frozenset())
    if r is None:
        raise Unbounded("no path reaches a return")
    return r
