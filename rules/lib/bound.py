"""BOUND: minimum and maximum of a per-block weight (e.g. number of unchecked single-element writes)
over all paths of a function whose loops range over collections of type-known length."""
import re


class Unbounded(Exception):
    pass


def natural_loops(fn):
    """{header: set(body blocks)} for back edges u->h with h dominating u (normal CFG)"""
    loops = {}
    live = fn.live_blocks()
    for u in live:
        if fn.is_cleanup(u):
            continue
        for h, _ in fn.succ(u):
            if h in live and fn.dominates(h, u):
                body = loops.setdefault(h, {h})
                stack = [u]
                while stack:
                    x = stack.pop()
                    if x in body:
                        continue
                    body.add(x)
                    for p, _ in fn.pred(x):
                        if p in live:
                            stack.append(p)
    return loops


def array_len_of_iter(fn, header_blocks):
    """for `for x in <&[T; K]>` loops: K from the type of the IntoIterator::into_iter argument feeding the loop's next()"""
    for b in header_blocks:
        t = fn.term(b)
        if t["k"] == "call" and re.search(r"Iterator>?::next$", t.get("callee") or ""):
            from .mir import Call
            c = Call(fn, b, t, False)
            st = fn.origin(c.args[0])
            # &mut iter  <- into_iter(arr)
            from .paths import root_call
            rc = root_call(fn, c.args[0], through=r"$^")
            if rc is not None and rc.name == "into_iter":
                ty = " ".join(rc.targs)
                m = re.search(r"\[[^;\]]+; (\d+)\]", ty)
                if m:
                    return int(m.group(1))
                aty = fn.place_ty(rc.args[0][1]) if rc.args and rc.args[0][0] in ("c", "m") else ""
                m = re.search(r"\[[^;\]]+; (\d+)\]", aty)
                if m:
                    return int(m.group(1))
                # a slice that is an unsized array (`&[u8; 3] as &[u8]`, a byte-string literal handed to a `&[u8]` parameter)
                n = _unsized_array_len(fn, rc.args[0]) if rc.args else None
                if n is not None:
                    return n
    return None


def weight_range(fn, weight, loop_bound=None):
    """(min, max) of the summed block weights over all entry->return paths.
    Loops must not be nested and must have a bound given by loop_bound(fn, header, body) (default: array length)."""
    loops = natural_loops(fn)
    for h, body in loops.items():
        for h2, body2 in loops.items():
            if h != h2 and h in body2 and h2 in body:
                raise Unbounded("irreducible/nested loops at bb%d/bb%d" % (h, h2))
            if h != h2 and h2 in body:
                raise Unbounded("nested loop bb%d inside bb%d" % (h2, h))
    inloop = {}
    for h, body in loops.items():
        for b in body:
            inloop[b] = h
    memo = {}

    def body_range(h):
        """weight of one iteration: paths header -> back-edge source, inside the body"""
        body = loops[h]
        m = {}

        def rec(b, seen):
            if b in m:
                return m[b]
            lo, hi = None, None
            w = weight(b)
            outs = []
            for s, _ in fn.succ(b):
                if s == h:
                    outs.append((0, 0))
                elif s in body and s not in seen:
                    outs.append(rec(s, seen | {b}))
            if not outs:
                # leaves the loop from here (break / exit test): not a full iteration
                m[b] = None
                return None
            outs = [o for o in outs if o is not None]
            if not outs:
                m[b] = None
                return None
            r = (w + min(o[0] for o in outs), w + max(o[1] for o in outs))
            m[b] = r
            return r
        r = rec(h, frozenset())
        return r or (0, 0)

    def after(b, visiting):
        """range from block b (inclusive) to return"""
        if b in memo:
            return memo[b]
        if b in visiting:
            raise Unbounded("unexpected cycle at bb%d" % b)
        t = fn.term(b)
        if b in loops:
            k = (loop_bound or (lambda f, h, body: array_len_of_iter(f, body)))(fn, b, loops[b])
            if k is None:
                raise Unbounded("loop at bb%d has no type-known bound" % b)
            klo, khi = k if isinstance(k, tuple) else (k, k)
            it = body_range(b)
            # exits of the loop: successors of body blocks outside the body
            exits = {s for x in loops[b] for s, _ in fn.succ(x) if s not in loops[b]}
            rs = [after(e, visiting | {b}) for e in exits]
            rs = [r for r in rs if r is not None]
            if not rs:
                memo[b] = None
                return None
            # the header's own weight counts k+1 times (the final failing test); headers carry no writes in practice
            r = (klo * it[0] + min(x[0] for x in rs), khi * it[1] + max(x[1] for x in rs))
            memo[b] = r
            return r
        if t["k"] == "return":
            memo[b] = (weight(b), weight(b))
            return memo[b]
        succ = [s for s, _ in fn.succ(b)]
        if not succ:
            memo[b] = None  # diverges (panic): not a completed path
            return None
        rs = [after(s, visiting | {b}) for s in succ]
        rs = [r for r in rs if r is not None]
        if not rs:
            memo[b] = None
            return None
        w = weight(b)
        memo[b] = (w + min(r[0] for r in rs), w + max(r[1] for r in rs))
        return memo[b]

    r = after(0, frozenset())
    if r is None:
        raise Unbounded("no path reaches a return")
    return r


def _counter_of(fn, op):
    """the local a comparison operand stands for, through copies and integer casts"""
    for _ in range(6):
        if op[0] not in ("c", "m") or op[1][1]:
            return None
        l = op[1][0]
        sd = fn.single_def(l)
        if sd is None:
            return l
        if sd[2] != "assign":
            return l
        r = sd[3]["r"]
        if r[0] == "use" and r[1][0] in ("c", "m"):
            op = r[1]
            continue
        if r[0] == "cast" and isinstance(r[2], list) and r[2][0] in ("c", "m"):
            op = r[2]
            continue
        return l
    return None


def _const_of(fn, op):
    from . import guards
    if op[0] == "k":
        return guards.const_int(op[1])
    st = fn.origin(op)
    if st and st[-1][0] == "const":
        return guards.const_int(st[-1][1])
    return None


def _step_defs(fn, c, body):
    """definitions of local c inside `body`: [(bb, 'inc'|'dec'|'other')] (c = (c +/- 1).0)"""
    out = []
    for (dbb, si, dk, payload) in fn.defs().get(c, []):
        if dbb not in body or fn.is_cleanup(dbb):
            continue
        kind = "other"
        if dk == "assign" and not payload["p"][1] and payload["r"][0] == "bin":
            # overflow checks off: `c = Add(c, const 1)` directly, without the checked pair
            b = payload["r"]
            if _counter_of(fn, b[2]) == c and _const_of(fn, b[3]) == 1:
                kind = "inc" if b[1].startswith("Add") else "dec" if b[1].startswith("Sub") else "other"
        elif dk == "assign" and not payload["p"][1] and payload["r"][0] == "use" and payload["r"][1][0] in ("c", "m"):
            src = payload["r"][1][1]
            sd = fn.single_def(src[0])
            if sd is not None and sd[2] == "assign" and sd[3]["r"][0] == "bin":
                b = sd[3]["r"]
                if _counter_of(fn, b[2]) == c and _const_of(fn, b[3]) == 1:
                    kind = "inc" if b[1].startswith("Add") else "dec" if b[1].startswith("Sub") else "other"
        out.append((dbb, kind))
    return out


def _exit_tests(fn, body):
    """(block, op, counter local, constant, label that stays in the loop) for the switches that can leave the loop"""
    out = []
    for x in sorted(body):
        t = fn.term(x)
        if t["k"] != "switch" or t.get("dty") != "bool":
            continue
        stays = [lab for s, lab in fn.succ(x) if s in body]
        leaves = [lab for s, lab in fn.succ(x) if s not in body]
        if not leaves or not stays:
            continue
        st = fn.origin(t["discr"])
        if not (st and st[-1][0] == "bin"):
            continue
        b = st[-1][1]
        c, k = _counter_of(fn, b[2]), _const_of(fn, b[3])
        if c is not None and k is not None:
            out.append((x, b[1], c, k, stays[0]))
    return out


def counter_loop_bound(fn, h, body, _depth=2):
    """(0, K) for a loop driven by a counter: `while c >= 1 { ..; c -= 1 }` runs at most (value of c at entry) times, and
    `while c < M && .. { c += 1 }` at most M times (c unsigned, counted up from a non-negative start). The value at entry
    of a counting-down loop is bounded by the constants c is initialised with and by the M of the counting-up loops that
    increment it. -> None when the loop is not of this shape."""
    loops = natural_loops(fn)
    for x, op, c, k, stay in _exit_tests(fn, body):
        steps = _step_defs(fn, c, body)
        if len(steps) != 1:
            continue
        kind = steps[0][1]
        stays_true = stay != 0
        if kind == "dec" and ((op == "Ge" and k >= 1 and stays_true) or (op == "Gt" and k >= 0 and stays_true) or (op == "Ne" and k == 0 and stays_true)):
            # value of c when the loop is entered
            ub = 0
            okb = True
            for (dbb, si, dk, payload) in fn.defs().get(c, []):
                if dbb in body or fn.is_cleanup(dbb):
                    continue
                if dk == "assign" and payload["r"][0] == "use" and payload["r"][1][0] == "k":
                    v = _const_of(fn, payload["r"][1])
                    if v is None or v < 0:
                        okb = False
                    else:
                        ub = max(ub, v)
                    continue
                inner = [hh for hh, bb in loops.items() if dbb in bb and hh != h]
                got = None
                for hh in inner:
                    for x2, op2, c2, k2, stay2 in _exit_tests(fn, loops[hh]):
                        st2 = _step_defs(fn, c, loops[hh])
                        if c2 == c and op2 == "Lt" and stay2 != 0 and len(st2) == 1 and st2[0][1] == "inc" and fn.dominates(x2, st2[0][0]):
                            got = k2
                if got is None:
                    okb = False
                else:
                    ub = max(ub, got)
            if okb:
                return (0, ub)
        if kind == "inc" and op == "Lt" and stays_true and fn.dominates(x, steps[0][0]):
            return (0, k)
    return None


def _unsized_array_len(fn, op, depth=10):
    """length of the array behind a slice operand, when every step back from it is a copy or an Unsize coercion"""
    for _ in range(depth):
        if op[0] == "k":
            m = re.search(r"\[[^;\]]+; (\d+)\]", op[1].get("ty") or "")
            return int(m.group(1)) if m else None
        if op[0] not in ("c", "m"):
            return None
        pl = op[1]
        ty = fn.place_ty(pl)
        m = re.search(r"^&(?:'\w+ )?(?:mut )?\[[^;\]]+; (\d+)\]$", (ty or "").strip())
        if m:
            return int(m.group(1))
        if pl[1]:
            # `*x` of a reference to a reference to an array
            if pl[1] == [["d"]]:
                inner = fn.place_ty([pl[0], []]) or ""
                m = re.search(r"\[[^;\]]+; (\d+)\]", inner)
                if m and "&" in inner:
                    return int(m.group(1))
            return None
        sd = fn.single_def(pl[0])
        if sd is None or sd[2] != "assign":
            return None
        r = sd[3]["r"]
        if r[0] == "use":
            op = r[1]
        elif r[0] == "cast" and isinstance(r[2], list):
            op = r[2]
        elif r[0] == "ref" and r[2][1] and r[2][1][-1] == ["d"]:
            op = ["c", [r[2][0], r[2][1][:-1]]]
        else:
            return None
    return None
