"""REACH: call-graph reachability from a root set and enumeration of panic / unsafe sinks
in the reached functions, each of which must be discharged by a dominance-checked guard."""
import re
from collections import deque

from .mir import Call, ty_head

# std callees that panic for some argument values (by their documented contract)
MAY_PANIC = [
    (r"^core::option::Option::<T>::unwrap$", "Option::unwrap"),
    (r"^core::option::Option::<T>::expect$", "Option::expect"),
    (r"^core::result::Result::<T, E>::unwrap$", "Result::unwrap"),
    (r"^core::result::Result::<T, E>::expect$", "Result::expect"),
    (r"^core::result::Result::<T, E>::unwrap_err$", "Result::unwrap_err"),
    (r"^core::result::Result::<T, E>::expect_err$", "Result::expect_err"),
    (r"^core::option::unwrap_failed$|^core::option::expect_failed$|^core::result::unwrap_failed$", "unwrap_failed"),
    (r"^core::panicking::", "panic"),
    (r"^std::rt::begin_panic|^std::panicking::", "panic"),
    (r"^core::slice::index::<impl core::ops::(index::)?Index<I> for \[T\]>::index$", "slice index"),
    (r"^core::slice::index::<impl core::ops::(index::)?IndexMut<I> for \[T\]>::index_mut$", "slice index_mut"),
    (r"^core::str::traits::<impl core::ops::(index::)?Index<I> for str>::index$", "str index"),
    (r"^core::str::traits::<impl core::ops::(index::)?IndexMut<I> for str>::index_mut$", "str index_mut"),
    (r"<impl core::ops::(index::)?Index<I> for alloc::vec::Vec<T, A>>::index$", "Vec index"),
    (r"<impl core::ops::(index::)?IndexMut<I> for alloc::vec::Vec<T, A>>::index_mut$", "Vec index_mut"),
    (r"<impl core::ops::(index::)?Index<I> for alloc::string::String>::index$", "String index"),
    (r"<impl core::ops::Index<[^>]*> for alloc::collections::(btree|hash)", "map index"),
    (r"<impl core::ops::Index<&Q> for std::collections::HashMap", "map index"),
    (r"^core::slice::<impl \[T\]>::split_at$|^core::slice::<impl \[T\]>::split_at_mut$|^core::str::<impl str>::split_at$", "split_at"),
    (r"^core::slice::<impl \[T\]>::copy_from_slice$|^core::slice::<impl \[T\]>::clone_from_slice$", "copy_from_slice"),
    (r"^core::slice::<impl \[T\]>::(chunks|chunks_exact|windows|rchunks)$", "chunks(0)"),
    (r"^core::slice::<impl \[T\]>::(swap|rotate_left|rotate_right|copy_within)$", "slice swap/rotate"),
    (r"^core::cell::RefCell::<T>::borrow(_mut)?$", "RefCell borrow"),
    (r"^alloc::vec::Vec::<T, A>::(remove|insert|swap_remove|split_off|drain|truncate_front)$", "Vec remove/insert/drain"),
    (r"^alloc::string::String::(remove|insert|insert_str|split_off|drain|replace_range)$", "String remove/insert"),
    (r"^alloc::collections::vec_deque::VecDeque::<T, A>::(remove_unchecked|swap)$", "VecDeque"),
    (r"^core::iter::traits::iterator::Iterator::step_by$", "step_by(0)"),
    (r"^core::num::<impl [ui]\d+>::(pow|div_euclid|rem_euclid|abs|next_power_of_two|ilog|ilog2|ilog10)$|^core::num::<impl [ui]size>::(pow|div_euclid|rem_euclid|abs|next_power_of_two|ilog|ilog2|ilog10)$", "int op"),
    (r"^core::char::methods::<impl char>::(from_digit|to_digit)$", "char digit radix"),
    (r"^core::str::<impl str>::(repeat)$", "repeat"),
    (r"^std::time::SystemTime::(duration_since)$", None),  # returns Result; not a panic
    (r"^core::time::Duration::(from_secs_f32|from_secs_f64|mul_f32|mul_f64|div_f32|div_f64)$", "Duration float"),
    (r"<impl core::ops::(Add|Sub|Mul|Div)<[^>]*> for (core::time::Duration|std::time::Instant|std::time::SystemTime)>::(add|sub|mul|div)$", "time arithmetic"),
    (r"<impl core::ops::(AddAssign|SubAssign)<[^>]*> for (core::time::Duration|std::time::Instant|std::time::SystemTime)>", "time arithmetic"),
    (r"^core::array::<impl core::ops::(index::)?Index<I> for \[T; N\]>::index$|^core::array::<impl core::ops::(index::)?IndexMut<I> for \[T; N\]>::index_mut$", "array index"),
    (r"^std::thread::(spawn|Builder)", None),
    (r"^std::process::(exit|abort)$", "process exit"),
    (r"^alloc::alloc::handle_alloc_error$", "alloc error"),
    (r"^core::slice::<impl \[T\]>::(first_chunk|last_chunk|as_chunks)$", None),
    (r"^alloc::vec::Vec::<T, A>::(with_capacity|reserve|reserve_exact)$|^alloc::string::String::(with_capacity|reserve)$", None),  # capacity overflow: allocation failure class, excluded with OOM
]
MAY_PANIC = [(re.compile(p), n) for p, n in MAY_PANIC]

STD_CRATES = ("core", "alloc", "std")

# panic-family macros: a call into core::panicking from one of these is an *explicit* panic site
PANIC_MACROS = ("panic", "assert", "assert_eq", "assert_ne", "debug_assert", "debug_assert_eq", "debug_assert_ne",
                "unreachable", "todo", "unimplemented")


class Sink:
    __slots__ = ("fn", "bb", "kind", "what", "sp", "mx", "payload", "path")

    def __init__(self, fn, bb, kind, what, sp, mx, payload=None):
        self.fn = fn
        self.bb = bb
        self.kind = kind  # 'assert' | 'panic-call' | 'unsafe-call' | 'raw-deref' | 'transmute' | 'extern'
        self.what = what
        self.sp = sp
        self.mx = mx or []
        self.payload = payload
        self.path = None

    @property
    def where(self):
        return self.fn.loc(self.sp)

    def key(self, n=None):
        k = "%s :: %s:%s" % (self.fn.key, self.kind, self.what)
        if n:
            k += "#%d" % n
        return k

    def __repr__(self):
        return "<sink %s %s in %s @%s>" % (self.kind, self.what, self.fn.key, self.where)


def may_panic_name(callee):
    for rx, n in MAY_PANIC:
        if rx.search(callee):
            return n
    return None


def raw_deref_places(fn):
    """(bb, span, mx, place) for every place expression that dereferences a raw pointer"""
    out = []

    def scan_place(p, bb, sp, mx):
        ty = fn.locals[p[0]]
        for i, pr in enumerate(p[1]):
            if pr[0] == "d":
                t = ty.strip()
                if t.startswith("*const ") or t.startswith("*mut "):
                    out.append((bb, sp, mx, p))
                    return
                ty = fn.place_ty([p[0], p[1][: i + 1]])
            elif pr[0] == "f":
                ty = pr[3]
            else:
                ty = fn.place_ty([p[0], p[1][: i + 1]])

    def scan_op(op, bb, sp, mx):
        if op and op[0] in ("c", "m"):
            scan_place(op[1], bb, sp, mx)

    def scan_rv(r, bb, sp, mx):
        k = r[0]
        if k in ("use", "un"):
            scan_op(r[1] if k == "use" else r[2], bb, sp, mx)
        elif k in ("ref", "rawptr"):
            scan_place(r[2], bb, sp, mx)
        elif k in ("cfd", "discr"):
            scan_place(r[1], bb, sp, mx)
        elif k == "cast":
            scan_op(r[2], bb, sp, mx)
        elif k == "bin":
            scan_op(r[2], bb, sp, mx)
            scan_op(r[3], bb, sp, mx)
        elif k == "agg":
            for o in r[2]:
                scan_op(o, bb, sp, mx)
        elif k == "repeat":
            scan_op(r[1], bb, sp, mx)

    for bi, b in enumerate(fn.blocks):
        if b["cleanup"]:
            continue
        for st in b["st"]:
            if st["k"] == "=":
                scan_place(st["p"], bi, st.get("sp"), st.get("mx"))
                scan_rv(st["r"], bi, st.get("sp"), st.get("mx"))
        t = b["t"]
        if t["k"] == "call":
            for a in t["args"]:
                scan_op(a, bi, t.get("sp"), t.get("mx"))
            scan_place(t["dest"], bi, t.get("sp"), t.get("mx"))
        elif t["k"] == "switch":
            scan_op(t["discr"], bi, t.get("sp"), t.get("mx"))
        elif t["k"] == "drop":
            pass
    return out


def sinks_of(fn, extern_table, include_unsafe=True):
    """All panic / unsafe sinks syntactically present in the live, non-cleanup part of `fn`."""
    out = []
    live = fn.live_blocks()
    for bi, b in enumerate(fn.blocks):
        if b["cleanup"] or bi not in live:
            continue
        t = b["t"]
        if t["k"] == "assert":
            m = t["msg"]
            if m.startswith("Resumed"):
                continue
            out.append(Sink(fn, bi, "assert", m, t.get("sp"), t.get("mx"), t))
        elif t["k"] in ("call", "tailcall"):
            c = Call(fn, bi, t, False)
            if c.callee is None:
                # call through a function pointer / closure object value
                out.append(Sink(fn, bi, "indirect", "fn-pointer call", t.get("sp"), t.get("mx"), c))
                continue
            n = may_panic_name(c.callee)
            if n:
                out.append(Sink(fn, bi, "panic-call", n, t.get("sp"), t.get("mx"), c))
            if include_unsafe and c.cunsafe:
                out.append(Sink(fn, bi, "unsafe-call", short(c.callee), t.get("sp"), t.get("mx"), c))
        elif t["k"] == "asm":
            out.append(Sink(fn, bi, "asm", "inline asm", t.get("sp"), t.get("mx"), t))
    if include_unsafe:
        seen = set()
        for bb, sp, mx, p in raw_deref_places(fn):
            if bb not in live:
                continue
            k = (bb, sp)
            if k in seen:
                continue
            seen.add(k)
            out.append(Sink(fn, bb, "raw-deref", "deref of %s" % fn.locals[p[0]], sp, mx, p))
        for bi, b in enumerate(fn.blocks):
            if b["cleanup"] or bi not in live:
                continue
            for st in b["st"]:
                if st["k"] == "=" and st["r"][0] == "cast" and st["r"][1] == "Transmute":
                    out.append(Sink(fn, bi, "transmute", "transmute to %s" % st["r"][3], st.get("sp"), st.get("mx"), st))
    return out


def short(path):
    """compact name of a def path for keys: drop generic noise"""
    p = re.sub(r"<impl [^>]*>", lambda m: m.group(0), path)
    return p


class Reach:
    """Worklist over resolved call edges. Closures nested in a reached function are reached.
    Trait-object and generic-receiver calls are expanded to every local impl of the trait method
    (class-hierarchy analysis) unless the trait is on the `boundary` list (A2: user-supplied code)."""

    def __init__(self, prog, roots, boundary=(), stop=()):
        self.prog = prog
        self.boundary = [re.compile(b) for b in boundary]
        self.stop = [re.compile(s) for s in stop]
        self.parent = {}
        self.reached = {}
        self.extern = {}  # callee -> first call site
        self.boundary_calls = {}
        dq = deque()
        for r in roots:
            if r.key not in self.reached:
                self.reached[r.key] = r
                self.parent[r.key] = None
                dq.append(r)
        ti = prog.trait_impls()
        while dq:
            f = dq.popleft()
            nxt = []
            for ch in prog.children(f.key):
                nxt.append((ch, "closure"))
            for c in f.calls():
                callee = c.callee
                if callee is None:
                    continue
                if any(s.search(callee) for s in self.stop):
                    continue
                tgt = prog.fns.get(callee)
                if tgt is not None and (c.resolved or not c.ctrait):
                    nxt.append((tgt, c))
                    continue
                if tgt is not None and c.ctrait and not c.resolved:
                    # default method body of a local trait called on a generic receiver
                    nxt.append((tgt, c))
                # unresolved trait method (generic receiver or dyn): all local impls
                decl = c.decl or callee
                if (not c.resolved or c.virtual) and c.ctrait:
                    if any(b.search(decl) for b in self.boundary):
                        self.boundary_calls.setdefault(decl, c)
                        continue
                    impls = ti.get(decl, [])
                    if impls:
                        for ik in impls:
                            g = prog.fns.get(ik)
                            if g is not None:
                                nxt.append((g, c))
                        continue
                if tgt is None:
                    self.extern.setdefault(callee, c)
            for g, via in nxt:
                if g.key not in self.reached:
                    self.reached[g.key] = g
                    self.parent[g.key] = (f.key, via)
                    dq.append(g)

    def path_to(self, key):
        out = []
        k = key
        while k is not None:
            out.append(k)
            p = self.parent.get(k)
            k = p[0] if p else None
        return list(reversed(out))
