"""DECISION: boolean / variant decision trees of loop-free functions, and canonical
descriptions of values (deep provenance) used to compare them with an expected table."""
import re

from .guards import const_int


def describe_deep(fn, op_or_place, depth=4):
    """canonical string of where a value comes from: `as_ref(arg1.username)`, `arg2`, `const "x"`"""
    steps = fn.origin(op_or_place)
    if not steps:
        return "?"
    proj = ""
    for s in steps:
        one = ""
        for pr in (s[2] if len(s) > 2 else []):
            if pr[0] == "f":
                one += "." + (pr[2] or str(pr[1]))
            elif pr[0] == "dc":
                one += "@" + pr[1]
        proj = one + proj
    last = steps[-1]
    k = last[0]
    if k == "call":
        c = last[1]
        if depth <= 0:
            return c.name + "(..)" + proj
        args = ",".join(describe_deep(fn, a, depth - 1) for a in c.args)
        return "%s(%s)%s" % (c.name, args, proj)
    if k == "arg":
        return "arg%d%s" % (last[1], proj)
    if k == "const":
        c = last[1]
        if "s" in c:
            return "const %r%s" % (c["s"], proj)
        if "fn" in c:
            return "fn:" + c["fn"].rsplit("::", 1)[-1]
        if "static" in c:
            return "static:" + c["static"].rsplit("::", 1)[-1]
        if "ch" in c:
            return "const %r" % c["ch"]
        if c.get("v") is None and "def" in c:
            return "const:%s%s" % (c["def"].rsplit("::", 1)[-1], proj)
        return "const %s%s" % (c.get("v"), proj)
    if k == "multi":
        # user variable: use its name if it has one
        for name, places in fn.vars.items():
            for p in places:
                if p[0] == last[1] and not p[1]:
                    return "var:%s%s" % (name, proj)
        return "var_%d%s" % (last[1], proj)
    if k == "agg":
        a = last[1]
        kind = a[1]
        nm = kind.get("variant") or kind.get("k")
        if depth <= 0:
            return "%s{..}%s" % (nm, proj)
        return "%s{%s}%s" % (nm, ",".join(describe_deep(fn, o, depth - 1) for o in a[2]), proj)
    if k == "bin":
        r = last[1]
        return "%s(%s,%s)%s" % (r[1], describe_deep(fn, r[2], depth - 1), describe_deep(fn, r[3], depth - 1), proj)
    if k == "un":
        r = last[1]
        return "%s(%s)%s" % (r[1], describe_deep(fn, r[2], depth - 1), proj)
    if k == "discr":
        return "discr(%s)" % describe_deep(fn, last[1], depth - 1)
    return k + proj


class TooComplex(Exception):
    pass


def bool_expr(fn, prog=None, max_nodes=400):
    """The boolean a loop-free function returns, as a nested tuple:
    ('and', a, b) | ('or', a, b) | ('not', a) | ('ite', c, a, b) | ('leaf', text) | ('const', bool)"""
    count = [0]

    def value_of_ret(bb_path_assigns):
        return bb_path_assigns

    def cond_expr(steps):
        last = steps[-1]
        if last[0] == "call":
            return ("leaf", describe_deep(fn, ["c", [last[1].dest[0], []]]) if False else leaf_of_call(last[1]))
        if last[0] == "bin":
            r = last[1]
            if r[1] in ("BitAnd", "BitOr") and all(o[0] in ("c", "m") and fn.place_ty(o[1]) == "bool" for o in (r[2], r[3])):
                return ("and" if r[1] == "BitAnd" else "or", cond_expr(fn.origin(r[2])), cond_expr(fn.origin(r[3])))
            return ("leaf", "%s(%s,%s)" % (r[1], describe_deep(fn, r[2]), describe_deep(fn, r[3])))
        if last[0] == "un" and last[1][1] == "Not":
            return ("not", cond_expr(fn.origin(last[1][2])))
        if last[0] == "const":
            return ("const", const_int(last[1]) != 0)
        if last[0] == "arg":
            return ("leaf", "arg%d" % last[1])
        return ("leaf", "?" + last[0])

    def leaf_of_call(c):
        return "%s(%s)" % (c.name, ",".join(describe_deep(fn, a) for a in c.args))

    def walk(bb, ret, visiting):
        count[0] += 1
        if count[0] > max_nodes:
            raise TooComplex()
        if bb in visiting:
            raise TooComplex("loop")
        blk = fn.blocks[bb]
        for st in blk["st"]:
            if st["k"] == "=" and st["p"] == [0, []]:
                ret = ("rv", st["r"])
        t = blk["t"]
        k = t["k"]
        if k == "return":
            if ret is None:
                return ("leaf", "?unset")
            if ret[0] == "rv":
                r = ret[1]
                if r[0] == "use":
                    return cond_expr(fn.origin(r[1]))
                return cond_expr([(r[0], r)])
            if ret[0] == "call":
                return ("leaf", leaf_of_call(ret[1]))
        if k == "call":
            from .mir import Call
            c = Call(fn, bb, t, False)
            if t["dest"] == [0, []]:
                ret = ("call", c)
            if t.get("target") is None:
                return ("leaf", "diverges")
            return walk(t["target"], ret, visiting | {bb})
        if k == "switch":
            info = fn.switch_info(bb)
            if info["kind"] != "bool":
                raise TooComplex("non-bool switch")
            c = cond_expr(info["steps"])
            tb = fb = None
            listed = {int(v): tb_ for v, tb_ in t["targets"]}
            if 0 in listed:
                fb = listed[0]
                tb = listed.get(1, t["otherwise"])
            else:
                tb = listed.get(1)
                fb = t["otherwise"]
            a = walk(tb, ret, visiting | {bb})
            b = walk(fb, ret, visiting | {bb})
            return simplify(("ite", c, a, b))
        succ = fn.succ(bb)
        if len(succ) == 1:
            return walk(succ[0][0], ret, visiting | {bb})
        if not succ:
            return ("leaf", "diverges")
        raise TooComplex(k)

    return walk(0, None, frozenset())


def simplify(e):
    if e[0] == "ite":
        _, c, a, b = e
        if a == ("const", True) and b == ("const", False):
            return c
        if a == ("const", False) and b == ("const", True):
            return ("not", c)
        if b == ("const", False):
            return ("and", c, a)
        if a == ("const", True):
            return ("or", c, b)
        if a == ("const", False):
            return ("and", ("not", c), b)
        if b == ("const", True):
            return ("or", ("not", c), a)
    return e


def show(e):
    if e[0] in ("and", "or"):
        return "(%s %s %s)" % (show(e[1]), e[0], show(e[2]))
    if e[0] == "not":
        return "!%s" % show(e[1])
    if e[0] == "ite":
        return "ite(%s, %s, %s)" % (show(e[1]), show(e[2]), show(e[3]))
    if e[0] == "const":
        return str(e[1]).lower()
    return e[1]


def conjuncts(e):
    if e[0] == "and":
        return conjuncts(e[1]) + conjuncts(e[2])
    return [e]


def const_table(fn, prog, max_paths=200):
    """For a loop-free function that matches on enum values and returns constants:
    list of (conditions, value) per path; conditions = list of (described place, variant-or-int label);
    value = the constant object assigned to the return place (or a description). Assignments are tracked
    per path, so a temporary written in every arm and returned after the join resolves to that arm's value."""
    rows = []
    count = [0]

    def resolve(r, env, depth=0):
        """rvalue -> constant dict | {'desc':..}"""
        if depth > 8:
            return {"desc": "?deep"}
        k = r[0]
        if k == "callret":
            return {"desc": "%s(%s)" % (r[1].name, ",".join(describe_deep(fn, a, 2) for a in r[1].args)), "call": r[1]}
        op = None
        if k == "use":
            op = r[1]
        elif k == "cast":
            op = r[2]
        elif k == "ref":
            op = ["c", r[2]]
        elif k == "cfd":
            op = ["c", r[1]]
        if op is not None:
            if op[0] == "k":
                return op[1]
            if op[0] in ("c", "m"):
                l = op[1][0]
                if l in env:
                    return resolve(env[l], env, depth + 1)
                st = fn.origin(op)
                if st and st[-1][0] == "const":
                    return st[-1][1]
                return {"desc": describe_deep(fn, op)}
        if k == "agg":
            parts = []
            for o in r[2]:
                v = resolve(["use", o], env, depth + 1)
                parts.append(v.get("s", v.get("v", v.get("desc", "?"))) if isinstance(v, dict) else str(v))
            return {"desc": "%s{%s}" % (r[1].get("variant") or r[1].get("k"), ",".join(str(x) for x in parts)), "agg": r}
        return {"desc": str(k)}

    def walk(bb, conds, env, visiting):
        count[0] += 1
        if count[0] > max_paths * 20 or bb in visiting:
            raise TooComplex("loop or too many paths")
        blk = fn.blocks[bb]
        env = dict(env)
        for st in blk["st"]:
            if st["k"] == "=" and not st["p"][1]:
                env[st["p"][0]] = st["r"]
        t = blk["t"]
        k = t["k"]
        if k == "return":
            rows.append((conds, resolve(env[0], env) if 0 in env else None))
            return
        if k == "switch":
            info = fn.switch_info(bb)
            listed = [int(v) for v, _ in t["targets"]]
            if info["kind"] == "variant":
                names = prog.variant_names(info["ty"])
                subj = describe_deep(fn, info["place"])
                for v, tb in t["targets"]:
                    walk(tb, conds + [(subj, names.get(int(v), int(v)))], env, visiting | {bb})
                rest = [names[x] for x in names if x not in listed]
                if rest or not names:
                    walk(t["otherwise"], conds + [(subj, tuple(rest) if len(rest) != 1 else rest[0])], env, visiting | {bb})
            else:
                subj = describe_deep(fn, t["discr"])
                for v, tb in t["targets"]:
                    walk(tb, conds + [(subj, int(v))], env, visiting | {bb})
                walk(t["otherwise"], conds + [(subj, "otherwise")], env, visiting | {bb})
            return
        if k == "call":
            if not t["dest"][1]:
                from .mir import Call
                env[t["dest"][0]] = ["callret", Call(fn, bb, t, False)]
            if t.get("target") is None:
                return
            walk(t["target"], conds, env, visiting | {bb})
            return
        succ = fn.succ(bb)
        if len(succ) == 1:
            walk(succ[0][0], conds, env, visiting | {bb})
        elif succ:
            raise TooComplex(k)

    walk(0, [], {}, frozenset())
    return rows


def variant_const_map(fn, prog):
    """{variant: constant string/int} for `match self.x { V1 => c1, ... }` functions"""
    out = {}
    for conds, val in const_table(fn, prog):
        if len(conds) != 1 or val is None:
            raise TooComplex("not a single-level match returning constants")
        v = conds[0][1]
        c = val.get("call")
        if c is not None and c.name in ("as_bytes", "as_str", "as_ref") and c.args:
            ca = fn.const_args(c)[0]
            if ca is not None:
                val = ca
        out[v] = val.get("s", val.get("v", val.get("desc")))
    return out


def add_terms(fn, op, depth=8):
    """summands of a chain of (checked) additions, each as (described text, origin steps)"""
    steps = fn.origin(op)
    if not steps:
        return []
    last = steps[-1]
    if depth > 0 and last[0] == "bin" and last[1][1] in ("Add", "AddWithOverflow", "AddUnchecked"):
        return add_terms(fn, last[1][2], depth - 1) + add_terms(fn, last[1][3], depth - 1)
    return [(describe_deep(fn, op, 4), steps)]


def rvalue_agg(fn, r):
    """the aggregate an rvalue denotes, directly or through single-definition temporaries -> agg rvalue or None"""
    if r[0] == "agg":
        return r
    if r[0] == "use":
        st = fn.origin(r[1])
        if st and st[-1][0] == "agg":
            return st[-1][1]
    return None


def field_stores(fn, field):
    """(bb, stmt, agg-or-None) for assignments to a place whose last projection is the named field"""
    out = []
    for bi in sorted(fn.live_blocks()):
        b = fn.blocks[bi]
        if b["cleanup"]:
            continue
        for st in b["st"]:
            if st["k"] == "=" and st["p"][1] and st["p"][1][-1][0] == "f" and st["p"][1][-1][2] == field:
                out.append((bi, st, rvalue_agg(fn, st["r"])))
    return out


def bytes_match_table(fn, prog, max_paths=4000):
    """For `match bytes { b"lit" => X, .. }` functions (lowered to a length test plus per-byte switches):
    list of (literal string, value description) for every fully matched literal."""
    out = []
    for conds, val in const_table(fn, prog, max_paths=max_paths):
        bs = []
        good = True
        for subj, lab in conds:
            if isinstance(subj, str) and re.match(r"(Eq|Ne|Le|Lt|Ge|Gt)\(", subj):
                continue
            if isinstance(lab, int):
                bs.append(lab)
            elif lab == "otherwise":
                good = False
        if good and bs and all(0 <= b < 256 for b in bs):
            try:
                lit = bytes(bs).decode()
            except UnicodeDecodeError:
                continue
            out.append((lit, (val or {}).get("desc", str(val))))
    return out


def split_top(text, sep=","):
    """split at separators that are not nested in (), {} or []"""
    out, depth, cur = [], 0, ""
    for ch in text:
        if ch in "({[":
            depth += 1
        elif ch in ")}]":
            depth -= 1
        if ch == sep and depth == 0:
            out.append(cur)
            cur = ""
        else:
            cur += ch
    out.append(cur)
    return out


def table_column(desc):
    """`next(into_iter(array{tuple{a,b,c},tuple{..}}))@Some.0.K` (an element of a literal table being iterated, as produced by
    describe_deep) -> (rows as lists of field descriptions, K); rows of a plain `array{x,y}` are one-field rows with K = 0.
    None when the description is not of that form."""
    m = re.match(r"^next\((?:into_iter|iter_mut|iter)\(array\{(.*)\}\)\)@Some\.0(?:\.(\d+))?$", desc)
    if not m:
        return None
    rows = []
    for el in split_top(m.group(1)):
        t = re.match(r"^tuple\{(.*)\}$", el)
        rows.append(split_top(t.group(1)) if t else [el])
    col = int(m.group(2)) if m.group(2) is not None else 0
    if any(col >= len(r) for r in rows):
        return None
    return rows, col
