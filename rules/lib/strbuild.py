"""How a String value was put together: the sequence of pieces (literals and described values) behind
`s = a; s.push('.'); s.push_str(&b)`, `format!("{a}.{b}")`, `[a, b].join(".")` and `[a, b].concat()` -- so that rules about
*what text is produced* do not depend on which of these spellings produced it."""
import re

from . import decision, paths


def format_literals(template):
    """pieces of a `format_args!` byte template ([0xC0.. = next argument | n, n bytes of text]*, 0): text or None per argument"""
    out, i = [], 0
    while i < len(template):
        b = template[i]
        if b == 0:
            break
        if b >= 0x80:
            out.append(None)
            i += 1
            continue
        out.append(bytes(template[i + 1:i + 1 + b]).decode("utf-8", "replace"))
        i += 1 + b
    return out


def array_elements(f, op):
    """operands of the array literal an operand (a reference to it, possibly unsized to a slice) denotes, or None"""
    for _ in range(8):
        if op[0] not in ("c", "m"):
            return None
        pl = op[1]
        if pl[1] and not all(pr[0] == "d" for pr in pl[1]):
            return None
        sd = f.single_def(pl[0])
        if sd is None or sd[2] != "assign":
            return None
        r = sd[3]["r"]
        if r[0] == "agg" and r[1].get("k") == "array":
            return list(r[2])
        if r[0] == "use":
            op = r[1]
        elif r[0] == "cast" and isinstance(r[2], list):
            op = r[2]
        elif r[0] == "ref":
            op = ["c", r[2]]
        else:
            return None
    return None


THRU = paths.TRANSPARENT + r"|DerefMut>::deref_mut$|Deref>::deref$|::as_str$|::as_mut_str$|core::hint::must_use$|::as_bytes$"


def _lit_of(f, op):
    st = f.origin(op) if op[0] in ("c", "m") else ([("const", op[1])] if op[0] == "k" else None)
    if st and st[-1][0] == "const":
        c = st[-1][1]
        return c.get("s") if c.get("s") is not None else c.get("ch")
    return None


def pieces(f, op, before_bb=None, depth=3):
    """[("lit", text) | ("val", description, root call or None)] for the String an operand denotes; None when not understood.
    before_bb: only extensions (push / push_str) that dominate this block count (the value as it is *there*)."""
    lit = _lit_of(f, op)
    if lit is not None:
        return [("lit", lit)]
    root = paths.root_call(f, op, through=THRU) if op[0] in ("c", "m") else None
    if root is None or depth <= 0:
        return [("val", decision.describe_deep(f, op, 5), None)]
    if root.name == "format" and root.args:
        an = paths.root_call(f, root.args[0], through=THRU)
        if an is None or not re.search(r"fmt::Arguments::<'a>::new", an.callee or ""):
            return None
        tpl = (f.const_args(an)[0] or {}).get("b")
        arr = array_elements(f, an.args[1]) if len(an.args) > 1 else []
        if tpl is None or arr is None:
            return None
        out, i = [], 0
        for p_ in format_literals(tpl):
            if p_ is not None:
                out.append(("lit", p_))
                continue
            if i >= len(arr):
                return None
            ac = paths.root_call(f, arr[i], through=THRU)
            i += 1
            if ac is None or not re.search(r"fmt::rt::Argument::<'_>::new_display$", ac.callee or "") or not ac.args:
                return None
            sub = pieces(f, ac.args[0], before_bb, depth - 1)
            if sub is None:
                return None
            out += sub
        return out
    if root.name in ("join", "concat") and root.args:
        arr = array_elements(f, root.args[0])
        if arr is None:
            return None
        sep = _lit_of(f, root.args[1]) if root.name == "join" and len(root.args) > 1 else ""
        if sep is None:
            return None
        out = []
        for k, o in enumerate(arr):
            if k and sep:
                out.append(("lit", sep))
            sub = pieces(f, o, before_bb, depth - 1)
            if sub is None:
                return None
            out += sub
        return out
    # a value started by a call and then extended in place
    out = [("val", decision.describe_deep(f, ["c", root.dest], 5) if getattr(root, "dest", None) else root.name, root)]
    ext = [c for c in f.calls_to(r"String::(push|push_str)$") if c.args and paths.root_call(f, c.args[0], through=THRU) is not None and paths.root_call(f, c.args[0], through=THRU).bb == root.bb
           and (before_bb is None or f.dominates(c.bb, before_bb))]
    ext.sort(key=lambda c: len(f.dom_chain(c.bb)))
    for c in ext:
        sub = pieces(f, c.args[1], before_bb, depth - 1)
        if sub is None:
            return None
        out += sub
    return out


def merged(ps):
    """adjacent literals joined"""
    out = []
    for p_ in ps or []:
        if p_[0] == "lit" and out and out[-1][0] == "lit":
            out[-1] = ("lit", out[-1][1] + p_[1])
        else:
            out.append(p_)
    return out
