"""In-memory view of the mirfacts output: functions with their built-MIR CFG, dominators,
post-dominators, call sites, def sites, a whole-program call graph, ADT/impl/const tables."""
import re
from collections import defaultdict, deque

from . import build

# discriminant value -> variant name for the std enums rules talk about
STD_VARIANTS = {
    "Option": {0: "None", 1: "Some"},
    "Result": {0: "Ok", 1: "Err"},
    "Poll": {0: "Ready", 1: "Pending"},
    "ControlFlow": {0: "Continue", 1: "Break"},
    "Ordering": {255: "Less", 0: "Equal", 1: "Greater"},
    "Cow": {0: "Borrowed", 1: "Owned"},
}


def ty_head(ty):
    """'core::option::Option<&str>' -> 'Option' ; strips refs."""
    t = ty.strip()
    while t.startswith("&"):
        t = t[1:].lstrip()
        if t.startswith("'"):
            t = t.split(" ", 1)[1] if " " in t else t
        if t.startswith("mut "):
            t = t[4:]
    t = t.split("<", 1)[0]
    return t.rsplit("::", 1)[-1]


def ty_path(ty):
    t = ty.strip()
    while t.startswith("&"):
        t = t[1:].lstrip()
        if t.startswith("'"):
            t = t.split(" ", 1)[1] if " " in t else t
        if t.startswith("mut "):
            t = t[4:]
    return t.split("<", 1)[0]


class Call:
    __slots__ = ("fn", "bb", "t", "callee", "decl", "full", "args", "dest", "target", "sp", "mx", "isp",
                 "cunsafe", "targs", "local", "ccrate", "resolved", "virtual", "ctrait", "cleanup")

    def __init__(self, fn, bb, t, cleanup):
        self.fn = fn
        self.bb = bb
        self.t = t
        self.callee = t.get("callee")
        self.decl = t.get("decl")
        self.full = t.get("full")
        self.args = t.get("args", [])
        self.dest = t.get("dest")
        self.target = t.get("target")
        self.sp = t.get("sp")
        self.mx = t.get("mx", [])
        self.isp = t.get("isp")
        self.cunsafe = t.get("cunsafe", False)
        self.targs = t.get("targs", [])
        self.local = t.get("local", False)
        self.ccrate = t.get("ccrate")
        self.resolved = t.get("resolved", False)
        self.virtual = t.get("virtual", False)
        self.ctrait = t.get("ctrait")
        self.cleanup = cleanup

    @property
    def name(self):
        """last path segment of the resolved callee"""
        c = self.callee or ""
        return c.rsplit("::", 1)[-1]

    @property
    def line(self):
        return self.fn.loc(self.sp)

    def in_macro(self, *names):
        return any(m in names for m in self.mx)

    def __repr__(self):
        return "<call %s in %s bb%d @%s>" % (self.callee, self.fn.key, self.bb, self.sp)


def place_local(p):
    return p[0]


def place_is_local(p):
    return len(p[1]) == 0


def op_place(op):
    """operand -> place or None"""
    if op[0] in ("c", "m"):
        return op[1]
    return None


def op_const(op):
    if op[0] == "k":
        return op[1]
    return None


def op_local(op):
    p = op_place(op)
    return p[0] if p is not None else None


class Fn:
    def __init__(self, rec):
        self.rec = rec
        self.key = rec["key"]
        self.crate = rec["crate"]
        self.file = rec["file"]
        self.line = rec["line"]
        self.endline = rec.get("endline", rec["line"])
        self.kind = rec["kind"]
        self.blocks = rec["blocks"]
        self.locals = rec["locals"]
        self.argc = rec["argc"]
        self.name = rec.get("name", "")
        self.unsafe = rec.get("unsafe", False)
        self.impl = rec.get("impl")
        self.self_ty = rec.get("self_ty")
        self.trait = rec.get("trait")
        self.trait_item = rec.get("trait_item")
        self.root = rec.get("root")
        self.parent = rec.get("parent")
        self.coroutine = rec.get("coroutine")
        self.pub = rec.get("pub", False)
        self._calls = None
        self._succ = None
        self._pred = None
        self._dom = None
        self._pdom = None
        self._defs = None
        self._uses = None
        self._reach = {}
        self.vars = {}
        for k, p in rec.get("vars", {}).items():
            self.vars.setdefault(k.split("#")[0], []).append(p)

    def __repr__(self):
        return "<fn %s>" % self.key

    def loc(self, sp):
        """span string -> 'file:line'"""
        if sp is None:
            return "%s:%d" % (self.file, self.line)
        parts = sp.split(":")
        if len(parts) == 2:
            return "%s:%s" % (self.file, parts[0])
        if parts[1] == "1" and parts[0] != self.file and parts[0].endswith("lib.rs"):
            # a dummy / crate-root span (compiler-generated block): point at the function instead
            return "%s:%d" % (self.file, self.line)
        return "%s:%s" % (parts[0], parts[1])

    # ---- CFG ------------------------------------------------------------
    def term(self, bb):
        return self.blocks[bb]["t"]

    def is_cleanup(self, bb):
        return self.blocks[bb]["cleanup"]

    def _build_cfg(self):
        succ = []
        for b in self.blocks:
            t = b["t"]
            k = t["k"]
            s = []
            if k in ("goto", "drop", "assert", "false_edge", "false_unwind", "yield"):
                s.append((t["target"], None))
            elif k == "switch":
                for v, tb in t["targets"]:
                    s.append((tb, int(v)))
                s.append((t["otherwise"], "otherwise"))
            elif k == "call":
                if t.get("target") is not None:
                    s.append((t["target"], None))
            elif k == "asm":
                for tb in t.get("targets", []):
                    s.append((tb, None))
            succ.append(s)
        self._succ = succ
        pred = [[] for _ in self.blocks]
        for i, s in enumerate(succ):
            for tb, lab in s:
                pred[tb].append((i, lab))
        self._pred = pred

    def succ(self, bb):
        if self._succ is None:
            self._build_cfg()
        return self._succ[bb]

    def pred(self, bb):
        if self._succ is None:
            self._build_cfg()
        return self._pred[bb]

    def unwind_succ(self, bb):
        t = self.term(bb)
        u = t.get("unwind")
        out = []
        if isinstance(u, int):
            out.append(u)
        if t["k"] == "yield" and t.get("drop") is not None:
            out.append(t["drop"])
        if t["k"] == "false_edge":
            pass
        return out

    def reachable_from(self, bb, avoid=()):
        """blocks reachable from bb over normal edges (bb included), never entering `avoid`"""
        key = (bb, tuple(sorted(avoid)))
        if key in self._reach:
            return self._reach[key]
        seen = set()
        if bb in avoid:
            self._reach[key] = seen
            return seen
        dq = deque([bb])
        seen.add(bb)
        while dq:
            x = dq.popleft()
            for y, _ in self.succ(x):
                if y not in seen and y not in avoid:
                    seen.add(y)
                    dq.append(y)
        self._reach[key] = seen
        return seen

    def live_blocks(self):
        return self.reachable_from(0)

    def _dominators(self, entry, succ_of, nodes):
        # Cooper-Harvey-Kennedy
        order = []
        seen = set()
        stack = [(entry, iter(succ_of(entry)))]
        seen.add(entry)
        while stack:
            n, it = stack[-1]
            adv = False
            for m in it:
                if m not in seen:
                    seen.add(m)
                    stack.append((m, iter(succ_of(m))))
                    adv = True
                    break
            if not adv:
                order.append(n)
                stack.pop()
        rpo = list(reversed(order))
        idx = {n: i for i, n in enumerate(rpo)}
        preds = defaultdict(list)
        for n in rpo:
            for m in succ_of(n):
                if m in idx:
                    preds[m].append(n)
        idom = {entry: entry}
        changed = True
        while changed:
            changed = False
            for n in rpo[1:]:
                new = None
                for p in preds[n]:
                    if p in idom:
                        if new is None:
                            new = p
                        else:
                            a, b = p, new
                            while a != b:
                                while idx[a] > idx[b]:
                                    a = idom[a]
                                while idx[b] > idx[a]:
                                    b = idom[b]
                            new = a
                if new is not None and idom.get(n) != new:
                    idom[n] = new
                    changed = True
        return idom

    def idom(self):
        if self._dom is None:
            self._dom = self._dominators(0, lambda n: [t for t, _ in self.succ(n)], None)
        return self._dom

    def dominates(self, a, b):
        """block a dominates block b (normal CFG from entry). Unreachable b: vacuously True."""
        idom = self.idom()
        if b not in idom:
            return True
        x = b
        while True:
            if x == a:
                return True
            p = idom[x]
            if p == x:
                return False
            x = p

    def rpo(self):
        """{block: index in a reverse post-order of the CFG from the entry}: a program order that survives renumbering
        (inlined blocks are appended behind the caller's)"""
        if getattr(self, "_rpo", None) is None:
            order, seen = [], set()
            stack = [(0, iter([s for s, _ in self.succ(0)]))]
            seen.add(0)
            while stack:
                n, it = stack[-1]
                adv = False
                for m in it:
                    if m not in seen:
                        seen.add(m)
                        stack.append((m, iter([s for s, _ in self.succ(m)])))
                        adv = True
                        break
                if not adv:
                    order.append(n)
                    stack.pop()
            self._rpo = {b: i for i, b in enumerate(reversed(order))}
        return self._rpo

    def dom_chain(self, b):
        """b, idom(b), ... , entry"""
        idom = self.idom()
        out = []
        if b not in idom:
            return out
        x = b
        while True:
            out.append(x)
            p = idom[x]
            if p == x:
                break
            x = p
        return out

    def exits(self):
        """blocks that end the function normally: return / coroutine return"""
        return [i for i, b in enumerate(self.blocks) if b["t"]["k"] == "return" and not b["cleanup"]]

    def ipdom(self):
        """post-dominators w.r.t. a virtual exit joining all `return` blocks (diverging paths ignored)"""
        if self._pdom is None:
            EXIT = -1
            live = self.live_blocks()
            rets = [b for b in self.exits() if b in live]

            def succ_of(n):
                if n == EXIT:
                    return rets
                return [p for p, _ in self.pred(n) if p in live]

            self._pdom = self._dominators(EXIT, succ_of, None)
        return self._pdom

    def postdominates(self, a, b):
        """every normal path from b to a return passes a"""
        ip = self.ipdom()
        if b not in ip:
            return True  # b cannot reach a return
        x = b
        while True:
            if x == a:
                return True
            p = ip[x]
            if p == x or p == -1:
                return a == p
            x = p

    def edge_dominates(self, src, dst, b):
        """edge src->dst dominates b: every path entry->b takes that edge.
        Holds iff dst dominates b and every predecessor of dst other than src is itself dominated by dst
        (back edges) -- the usual critical-edge-free approximation, exact when dst has one forward pred."""
        if not self.dominates(dst, b):
            return False
        for p, _ in self.pred(dst):
            if p == src:
                continue
            if p not in self.idom():
                continue  # unreachable
            if not self.dominates(dst, p):
                return False
        return True

    # ---- statements -----------------------------------------------------
    def stmts(self, bb):
        return self.blocks[bb]["st"]

    def calls(self, include_cleanup=False):
        if self._calls is None:
            cs = []
            for i, b in enumerate(self.blocks):
                t = b["t"]
                if t["k"] in ("call", "tailcall"):
                    cs.append(Call(self, i, t, b["cleanup"]))
            self._calls = cs
        if include_cleanup:
            return self._calls
        live = self.live_blocks()
        return [c for c in self._calls if not c.cleanup and c.bb in live]

    def calls_to(self, pat, include_cleanup=False):
        """call sites whose resolved callee or declared callee matches the regex"""
        rx = re.compile(pat) if isinstance(pat, str) else pat
        return [c for c in self.calls(include_cleanup) if (c.callee and rx.search(c.callee)) or (c.decl and rx.search(c.decl)) or (c.full and rx.search(c.full))]

    def defs(self):
        """local -> list of (bb, idx, kind, payload); kind in {'assign','call','yield','setdiscr'}; whole-local or projected"""
        if self._defs is None:
            d = defaultdict(list)
            for bi, b in enumerate(self.blocks):
                for si, st in enumerate(b["st"]):
                    if st["k"] == "=":
                        d[st["p"][0]].append((bi, si, "assign", st))
                    elif st["k"] == "setdiscr":
                        d[st["p"][0]].append((bi, si, "setdiscr", st))
                t = b["t"]
                if t["k"] == "call":
                    d[t["dest"][0]].append((bi, None, "call", t))
                elif t["k"] == "yield":
                    d[t["resume_arg"][0]].append((bi, None, "yield", t))
            self._defs = d
        return self._defs

    def mut_borrowed(self):
        """locals of which a `&mut` (or `*mut`) reference is taken somewhere: their fields can change without an assignment
        that names them, so a field read must not be resolved to the component the local was built with"""
        mb = self.__dict__.get("_mutb")
        if mb is None:
            mb = set()
            for b in self.blocks:
                for st in b["st"]:
                    if st.get("k") == "=" and st["r"][0] in ("ref", "rawptr") and len(st["r"]) > 2 and st["r"][1] in ("mut", "Mut", "mutable") and not any(pr[0] == "d" for pr in st["r"][2][1]):
                        mb.add(st["r"][2][0])
            self.__dict__["_mutb"] = mb
        return mb

    def single_def(self, local):
        # a store through the pointer held by the local (`(*p).f = v`) does not redefine the local
        ds = [x for x in self.defs().get(local, []) if not self.is_cleanup(x[0])
              and not (x[2] in ("assign", "setdiscr") and x[3]["p"][1] and x[3]["p"][1][0][0] == "d")]
        if len(ds) == 1:
            return ds[0]
        return None

    def call_at(self, bb):
        for c in self.calls(include_cleanup=True):
            if c.bb == bb:
                return c
        return None

    def origin(self, op_or_place, depth=12):
        """Trace a place/operand back through single-definition temporaries.
        Returns a list of steps [(kind, payload)], last step is the origin:
          ('call', Call) | ('arg', local) | ('const', constobj) | ('agg', rvalue) | ('bin', rvalue) |
          ('multi', local) | ('other', rvalue) | ('discr', place) | ('yield', term)
        Intermediate steps: ('via', (rvalue_kind, place))"""
        steps = []
        if isinstance(op_or_place, list) and op_or_place and op_or_place[0] in ("c", "m", "k", "rc"):
            op = op_or_place
            if op[0] == "k":
                return [("const", op[1])]
            if op[0] == "rc":
                return [("other", op)]
            place = op[1]
        else:
            place = op_or_place
        for _ in range(depth):
            l = place[0]
            if 1 <= l <= self.argc:
                steps.append(("arg", l, place[1]))
                return steps
            sd = self.single_def(l)
            if sd is None:
                steps.append(("multi", l, place[1]))
                return steps
            bb, si, kind, payload = sd
            if kind == "call":
                steps.append(("call", Call(self, bb, payload, False), place[1]))
                return steps
            if kind == "yield":
                steps.append(("yield", payload, place[1]))
                return steps
            if kind == "setdiscr":
                steps.append(("other", payload, place[1]))
                return steps
            st = payload
            if st["p"][1]:
                # assignment to a projection of the local: treat as multi
                steps.append(("multi", l, place[1]))
                return steps
            r = st["r"]
            rk = r[0]
            if rk == "use":
                op = r[1]
                if op[0] == "k":
                    steps.append(("const", op[1], place[1]))
                    return steps
                if op[0] == "rc":
                    steps.append(("other", r, place[1]))
                    return steps
                steps.append(("via", ("use", op[1]), []))
                place = [op[1][0], list(op[1][1]) + list(place[1])]
                continue
            if rk in ("ref", "rawptr"):
                steps.append(("via", (rk, r[2]), place[1]))
                place = r[2]
                continue
            if rk == "cfd":
                steps.append(("via", ("cfd", r[1]), place[1]))
                place = r[1]
                continue
            if rk == "cast":
                op = r[2]
                if op[0] == "k":
                    steps.append(("const", op[1], place[1]))
                    return steps
                if op[0] in ("c", "m"):
                    steps.append(("via", ("cast:" + r[1], op[1]), place[1]))
                    place = op[1]
                    continue
                steps.append(("other", r, place[1]))
                return steps
            if rk == "agg":
                # a field read of a freshly built tuple/struct: continue with that component
                projs = place[1]
                i = 0
                if projs and projs[0][0] == "dc":
                    i = 1
                if len(projs) > i and projs[i][0] == "f" and r[1].get("k") in ("tuple", "adt", "closure", "coroutine") and projs[i][1] < len(r[2]) \
                        and not (r[1].get("k") == "adt" and len(r[1].get("fields", [])) != len(r[2])) and l not in self.mut_borrowed():
                    op = r[2][projs[i][1]]
                    rest = projs[i + 1:]
                    if op[0] == "k":
                        steps.append(("const", op[1], rest))
                        return steps
                    if op[0] in ("c", "m"):
                        steps.append(("via", ("aggfield", op[1]), projs[: i + 1]))
                        place = [op[1][0], list(op[1][1]) + list(rest)]
                        continue
                steps.append(("agg", r, place[1]))
                return steps
            if rk == "bin":
                steps.append(("bin", r, place[1]))
                return steps
            if rk == "un":
                steps.append(("un", r, place[1]))
                return steps
            if rk == "discr":
                steps.append(("discr", r[1], place[1]))
                return steps
            steps.append(("other", r, place[1]))
            return steps
        steps.append(("deep", place[0], place[1]))
        return steps

    def origin_call(self, op_or_place):
        s = self.origin(op_or_place)
        if s and s[-1][0] == "call":
            return s[-1][1]
        return None

    def const_args(self, call):
        """constants passed (directly or through single-def temporaries) as arguments, by position"""
        out = []
        for a in call.args:
            s = self.origin(a)
            if s and s[-1][0] == "const":
                out.append(s[-1][1])
            else:
                out.append(None)
        return out

    def switch_info(self, bb):
        """For a switch terminator: what is being tested.
        -> dict(kind='variant', place, ty, names{val:name}) | dict(kind='bool', origin steps) | dict(kind='int', ...)"""
        t = self.term(bb)
        if t["k"] != "switch":
            return None
        steps = self.origin(t["discr"])
        last = steps[-1]
        if last[0] == "discr":
            place = last[1]
            ty = self.place_ty(place)
            return {"kind": "variant", "place": place, "ty": ty, "steps": steps}
        if t["dty"] == "bool":
            return {"kind": "bool", "steps": steps}
        return {"kind": "int", "steps": steps, "ty": t["dty"]}

    def place_ty(self, place):
        """type string of a place, as far as the facts allow (local type, or last field type)"""
        ty = self.locals[place[0]]
        for pr in place[1]:
            if pr[0] == "f":
                ty = pr[3]
            elif pr[0] == "d":
                t = ty.strip()
                if t.startswith("&"):
                    t = t[1:].lstrip()
                    if t.startswith("'"):
                        t = t.split(" ", 1)[1] if " " in t else t
                    if t.startswith("mut "):
                        t = t[4:]
                    ty = t
                elif t.startswith("*const ") or t.startswith("*mut "):
                    ty = t.split(" ", 1)[1]
                elif ty_head(t) in ("Box", "Pin"):
                    inner = t.split("<", 1)[1].rsplit(">", 1)[0] if "<" in t else t
                    ty = inner
        return ty


class Program:
    def __init__(self, config, thash=None, repo=None):
        self.config = config
        recs = build.load_records(config, thash, repo or build.REPO)
        self.fns = {}
        self.adts = {}
        self.impls = []
        self.consts = {}
        self.meta = {}
        self.stolen = set()
        for r in recs:
            k = r["k"]
            if k == "fn":
                self.fns[r["key"]] = Fn(r)
            elif k == "adt":
                self.adts[r["key"]] = r
            elif k == "impl":
                self.impls.append(r)
            elif k == "const":
                self.consts[r["key"]] = r
            elif k == "meta":
                self.meta[r["crate"]] = r
            elif k == "stolen":
                self.stolen.add(r["key"])
        self._children = None
        self._callers = None
        self._trait_impls = None
        self._shims = None

    def shims(self):
        """name -> Fn of engine/shims (reference bodies of std combinators; never part of `fns`)"""
        if self._shims is None:
            self._shims = {}
            for r in build.shim_records():
                if r.get("k") == "fn" and r.get("kind") == "Fn":
                    r = dict(r, file="(verif)/engine/shims/" + r.get("file", "src/lib.rs"))
                    self._shims[r["name"]] = Fn(r)
        return self._shims

    def fn(self, key):
        f = self.fns.get(key)
        if f is None:
            raise AnchorLost("function not found: %s" % key)
        return f

    def find(self, pat, crate=None):
        rx = re.compile(pat)
        return [f for k, f in self.fns.items() if rx.search(k) and (crate is None or f.crate == crate)]

    def one(self, pat, crate=None):
        fs = self.find(pat, crate)
        if len(fs) != 1:
            raise AnchorLost("expected exactly one function matching /%s/, found %d: %s" % (pat, len(fs), [f.key for f in fs][:6]))
        return fs[0]

    def methods(self, self_ty, name, trait=None, crate=None):
        """functions by (self type regex, method name regex[, trait regex]); robust to moving the impl block"""
        rs, rn = re.compile(self_ty), re.compile(name)
        rt = re.compile(trait) if trait else None
        out = []
        for f in self.fns.values():
            if f.kind != "AssocFn" or not f.self_ty:
                continue
            if not rs.search(f.self_ty) or not rn.fullmatch(f.name):
                continue
            if trait is None and f.trait:
                continue
            if rt is not None and not (f.trait and rt.search(f.trait)):
                continue
            if crate and f.crate != crate:
                continue
            out.append(f)
        return out

    def method(self, self_ty, name, trait=None):
        ms = self.methods(self_ty, name, trait)
        if len(ms) != 1:
            raise AnchorLost("expected one method %s::%s%s, found %d" % (self_ty, name, " (trait %s)" % trait if trait else "", len(ms)))
        return ms[0]

    def children(self, key):
        """closures / coroutine bodies directly nested in `key`"""
        if self._children is None:
            ch = defaultdict(list)
            for f in self.fns.values():
                if f.parent:
                    ch[f.parent].append(f)
            self._children = ch
        return self._children.get(key, [])

    def descendants(self, key):
        out = []
        st = [key]
        while st:
            k = st.pop()
            for c in self.children(k):
                out.append(c)
                st.append(c.key)
        return out

    def body_and_closures(self, key):
        return [self.fn(key)] + self.descendants(key)

    def coroutine_body(self, key):
        """the coroutine body of an `async fn` (its {closure#0})"""
        for c in self.children(key):
            if c.coroutine:
                return c
        raise AnchorLost("no coroutine body under %s" % key)

    def trait_impls(self):
        """trait item def path -> list of implementing fn keys (local crates)"""
        if self._trait_impls is None:
            m = defaultdict(list)
            for im in self.impls:
                for name, path, ti in im["items"]:
                    if ti:
                        m[ti].append(path)
            self._trait_impls = m
        return self._trait_impls

    def inlined(self, fn, depth=2, accept=None):
        """`fn` with its local synchronous helpers spliced in (rules/lib/inline.py); cached"""
        from . import inline as _inline
        cache = self.__dict__.setdefault("_inlined", {})
        if isinstance(accept, str):
            k = (fn.key, len(fn.blocks), tuple(fn.rec.get("inlined") or ()), depth, accept)
            if k not in cache:
                cache[k] = _inline.inline(self, fn, depth, _inline.containing(self, accept))
            return cache[k]
        # (a callable filter has no stable identity -- `id()` of a temporary lambda is reused -- so such views are not cached)
        return _inline.inline(self, fn, depth, accept)

    def flattened(self, fn, anchor_rx, depth=2, combinators=False):
        """fn with (1) local helpers containing the anchor calls spliced in and (2) calls of closure literals handed to
        such helpers resolved -- the view rules use when the statements they read may have been moved into a
        (higher-order) helper; with combinators=True also (3) std's closure-taking combinators (Option::map,
        Iterator::find_map, ..) replaced by the reference bodies of engine/shims, so that the closure they are handed
        becomes an ordinary call that (2) resolves; cached"""
        from . import inline as _inline
        cache = self.__dict__.setdefault("_flat", {})
        k = (fn.key, len(fn.blocks), tuple(fn.rec.get("inlined") or ()), anchor_rx, depth, combinators)
        if k not in cache:
            acc = _inline.containing(self, anchor_rx, closures=combinators)
            g = _inline.inline(self, fn, depth, acc)
            for _ in range(3 if combinators else 1):
                before = g
                if combinators:
                    g = _inline.expand_combinators(self, g)
                g = _inline.inline_closure_calls(self, g)
                if g is not fn:
                    # helpers called from the spliced closure bodies
                    g = _inline.inline(self, g, 1, acc)
                if g is before:
                    break
            cache[k] = g
        return cache[k]

    def awaited_inlined(self, fn, depth=1, containing=None):
        """a coroutine body with the bodies of the local async fns it awaits spliced in (rules/lib/inline.py); cached.
        containing=<regex>: only helpers whose own body contains a call matching it (the helpers into which the
        statements a rule looks for may have been moved -- not the callees the rule anchors on)"""
        from . import inline as _inline
        cache = self.__dict__.setdefault("_ainlined", {})
        k = (fn.key, len(fn.blocks), tuple(fn.rec.get("inlined") or ()), depth, containing)
        if k not in cache:
            acc = None
            if containing is not None:
                rx = re.compile(containing)
                acc = lambda caller, body: any(rx.search(c.callee or "") or rx.search(c.decl or "") for c in body.calls())
            cache[k] = _inline.inline_async(self, fn, depth, acc)
        return cache[k]

    def callers(self):
        if self._callers is None:
            m = defaultdict(list)
            for f in self.fns.values():
                for c in f.calls(include_cleanup=True):
                    if c.callee:
                        m[c.callee].append(c)
            self._callers = m
        return self._callers

    def const(self, pat):
        rx = re.compile(pat)
        hits = [c for k, c in self.consts.items() if rx.search(k)]
        if len(hits) != 1:
            raise AnchorLost("expected one const matching /%s/, found %d" % (pat, len(hits)))
        return hits[0]

    def adt(self, pat):
        rx = re.compile(pat)
        hits = [c for k, c in self.adts.items() if rx.search(k)]
        if len(hits) != 1:
            raise AnchorLost("expected one ADT matching /%s/, found %d" % (pat, len(hits)))
        return hits[0]

    def variant_names(self, ty):
        """discriminant value -> variant name for a type string"""
        head = ty_head(ty)
        if head in STD_VARIANTS and not ty_path(ty).startswith(("ohkami",)):
            return STD_VARIANTS[head]
        path = ty_path(ty)
        a = self.adts.get(path)
        if a is None:
            # generic ADTs are keyed without args
            for k, v in self.adts.items():
                if k == path or k.split("<")[0] == path:
                    a = v
                    break
        if a is not None:
            return {int(v.get("discr", i)): v["name"] for i, v in enumerate(a["variants"])}
        if head in STD_VARIANTS:
            return STD_VARIANTS[head]
        return {}


class AnchorLost(Exception):
    """A rule could not find the construct it is about: the check fails closed."""
