"""Interval abstract interpretation of integer locals over the built MIR of one function.

Abstract value of an integer place: an inclusive interval [lo, hi] (unbounded Python ints). Three relational facts are kept
next to the intervals, because decimal-digit code depends on them:
  * copies: `_t = copy n` makes _t an alias of n until either is assigned again (branch refinements on _t refine n);
  * q = n / C  and  m = C * q  are remembered symbolically, so that  n - m  is known to be  n mod C  (< C);
  * a bool local holding a comparison is remembered, and the two edges of a switch on it refine the operands.
Every symbolic fact about a place is dropped when that place is assigned.

Checked arithmetic (`AddWithOverflow` + assert) is evaluated on the path where the assert passed (result within the type's
range); unchecked arithmetic whose exact result may leave the type's range goes to the full range of the type (wrap-around).
Locals whose address is taken mutably are always the full range of their type. Calls: `{integer}::pow` of exact arguments is
evaluated; every other call result is the full range of its type.

Loops: the analysis is a worklist over (block, partition key). The partition key is the tuple of the exact values of the
function's *loop counters* (locals stepped by +/-1 inside a natural loop): states with different counter values are kept
apart (trace partitioning), so a loop driven by such a counter is in effect unrolled and `10^counter` folds to a constant in
each partition. States with the same key are joined (interval hull; symbolic facts kept when equal); after WIDEN_AFTER
joins at the same (block, key) every interval that is still growing is widened to the range of its type, which ends every
ascending chain. More than MAX_PARTS partitions at one block is `Unsupported` (the caller decides what that means).
Nothing is executed."""
import re
from collections import deque

RANGES = {"bool": (0, 1), "u8": (0, 2 ** 8 - 1), "u16": (0, 2 ** 16 - 1), "u32": (0, 2 ** 32 - 1), "u64": (0, 2 ** 64 - 1), "usize": (0, 2 ** 64 - 1),
          "u128": (0, 2 ** 128 - 1), "i8": (-2 ** 7, 2 ** 7 - 1), "i16": (-2 ** 15, 2 ** 15 - 1), "i32": (-2 ** 31, 2 ** 31 - 1), "i64": (-2 ** 63, 2 ** 63 - 1),
          "isize": (-2 ** 63, 2 ** 63 - 1), "i128": (-2 ** 127, 2 ** 127 - 1), "char": (0, 0x10FFFF)}
CMP = {"Lt", "Le", "Gt", "Ge", "Eq", "Ne"}
NEG = {"Lt": "Ge", "Le": "Gt", "Gt": "Le", "Ge": "Lt", "Eq": "Ne", "Ne": "Eq"}
WIDEN_AFTER = 48
MAX_PARTS = 96


class Unsupported(Exception):
    pass


class State:
    __slots__ = ("vals", "sym", "cmp")

    def __init__(self):
        self.vals, self.sym, self.cmp = {}, {}, {}

    def copy(self):
        s = State()
        s.vals, s.sym, s.cmp = dict(self.vals), dict(self.sym), dict(self.cmp)
        return s

    def same(self, o):
        return self.vals == o.vals and self.sym == o.sym and self.cmp == o.cmp


def join(a, b):
    out = State()
    for k in a.vals.keys() & b.vals.keys():
        out.vals[k] = (min(a.vals[k][0], b.vals[k][0]), max(a.vals[k][1], b.vals[k][1]))
    for k in a.sym.keys() & b.sym.keys():
        if a.sym[k] == b.sym[k]:
            out.sym[k] = a.sym[k]
    for k in a.cmp.keys() & b.cmp.keys():
        if a.cmp[k] == b.cmp[k]:
            out.cmp[k] = a.cmp[k]
    return out


def _refs(sym_or_cmp):
    """the place keys a symbolic fact talks about"""
    if sym_or_cmp[0] in ("copy", "div", "muldiv"):
        return (sym_or_cmp[1],)
    return (sym_or_cmp[1], sym_or_cmp[3])          # cmp: (op, ra, ia, rb, ib)


class Intervals:
    def __init__(self, fn, partition=None):
        self.fn = fn
        self.escaped = set()
        for bi in fn.live_blocks():
            for st in fn.blocks[bi]["st"]:
                if st["k"] == "=" and st["r"][0] == "ref" and st["r"][1] == "mut" and not st["r"][2][1]:
                    self.escaped.add(st["r"][2][0])
        self.partition = sorted(partition) if partition is not None else sorted(self._loop_counters())
        self.states = {}        # (bb, key) -> State at block entry
        self.after = {}         # bb -> [State after the statements of bb]
        self._run()

    # -- helpers ---------------------------------------------------------------------------------------------------
    def _loop_counters(self):
        from . import bound
        fn = self.fn
        out = set()
        try:
            loops = bound.natural_loops(fn)
        except Exception:
            return out
        for h, body in loops.items():
            for local, ty in enumerate(fn.locals):
                if ty not in RANGES or local in self.escaped:
                    continue
                try:
                    steps = bound._step_defs(fn, local, body)
                except Exception:
                    steps = []
                if steps and all(k in ("inc", "dec") for _, k in steps):
                    out.add(local)
        return out

    def ty_range(self, ty):
        return RANGES.get(ty)

    def key_of(self, place):
        local, projs = place
        if not projs:
            return local
        if len(projs) == 1 and projs[0][0] == "f":
            return (local, projs[0][1])
        return None

    def place_range(self, place):
        try:
            return self.ty_range(self.fn.place_ty(place))
        except Exception:
            return None

    def root(self, st, key):
        n = 0
        while n < 8:
            s = st.sym.get(key)
            if s and s[0] == "copy":
                key = s[1]
                n += 1
            else:
                break
        return key

    def eval(self, st, op):
        """-> (interval or None, key or None)"""
        if op[0] == "k":
            c = op[1]
            try:
                v = int(c.get("v"))
            except (TypeError, ValueError):
                return self.ty_range(c.get("ty")), None
            return (v, v), None
        if op[0] in ("c", "m"):
            key = self.key_of(op[1])
            base = key[0] if isinstance(key, tuple) else key
            if key is None or base in self.escaped:
                return self.place_range(op[1]), None
            iv = st.vals.get(key)
            if iv is None:
                iv = self.place_range(op[1])
            return iv, key
        return None, None

    def _assign(self, st, key, iv, ty_rng):
        # every symbolic fact about `key` (its own, and those of other places that mention it) ends here
        st.sym.pop(key, None)
        st.cmp.pop(key, None)
        for d in (st.sym, st.cmp):
            for k in [k for k, v in d.items() if key in _refs(v)]:
                del d[k]
        if iv is None:
            iv = ty_rng
        if iv is None:
            st.vals.pop(key, None)
        else:
            st.vals[key] = iv

    def _stmt(self, st, s):
        if s["k"] != "=":
            return
        dst = s["p"]
        key = self.key_of(dst)
        if key is None:
            base = dst[0]
            for k in [k for k in st.vals if k == base or (isinstance(k, tuple) and k[0] == base)]:
                self._assign(st, k, None, None)
            return
        r = s["r"]
        rng = self.place_range(dst)
        kind = r[0]
        if kind == "use":
            iv, sk = self.eval(st, r[1])
            rk = self.root(st, sk) if sk is not None else None
            carried = st.cmp.get(sk) if sk is not None else None
            self._assign(st, key, iv, rng)
            if rk is not None and rk != key:
                st.sym[key] = ("copy", rk)
            if carried is not None and key not in _refs(carried):
                st.cmp[key] = carried
        elif kind == "bin":
            op, a, b = r[1], r[2], r[3]
            (ia, ka), (ib, kb) = self.eval(st, a), self.eval(st, b)
            checked = op.endswith("WithOverflow")
            base = op[:-len("WithOverflow")] if checked else op
            ra = self.root(st, ka) if ka is not None else None
            rb = self.root(st, kb) if kb is not None else None
            if base in CMP:
                folded = (0, 1)
                if ia is not None and ib is not None:
                    lt, gt = ia[1] < ib[0], ia[0] > ib[1]
                    le, ge = ia[1] <= ib[0], ia[0] >= ib[1]
                    eq = ia[0] == ia[1] == ib[0] == ib[1]
                    t = {"Lt": True if lt else False if ge else None, "Le": True if le else False if gt else None,
                         "Gt": True if gt else False if le else None, "Ge": True if ge else False if lt else None,
                         "Eq": True if eq else False if (lt or gt) else None, "Ne": True if (lt or gt) else False if eq else None}[base]
                    if t is not None:
                        folded = (1, 1) if t else (0, 0)
                self._assign(st, key, folded, rng)
                if key not in (ra, rb):
                    st.cmp[key] = (base, ra, ia, rb, ib)
                return
            dkey = (key, 0) if checked and not isinstance(key, tuple) else key
            drng = self.ty_range(self._opty(a, b))
            res, sym = None, None
            if ia is not None and ib is not None:
                if base == "Add":
                    res = (ia[0] + ib[0], ia[1] + ib[1])
                elif base == "Sub":
                    res = (ia[0] - ib[1], ia[1] - ib[0])
                    # n - C * (n / C)  ==  n mod C
                    sb = st.sym.get(rb) if rb is not None else None
                    if sb and sb[0] == "muldiv" and ra == sb[1]:
                        res = (0, min(sb[2] - 1, ia[1]))
                elif base == "Mul":
                    c = [x * y for x in ia for y in ib]
                    res = (min(c), max(c))
                    for (iv1, r2) in ((ia, rb), (ib, ra)):
                        if iv1[0] == iv1[1] and r2 is not None:
                            s2 = st.sym.get(r2)
                            if s2 and s2[0] == "div" and s2[2] == iv1[0]:
                                sym = ("muldiv", s2[1], s2[2])
                elif base == "Div" and ib[0] > 0 and ia[0] >= 0:
                    res = (ia[0] // ib[1], ia[1] // ib[0])
                    if ib[0] == ib[1] and ra is not None:
                        sym = ("div", ra, ib[0])
                elif base == "Rem" and ib[0] > 0 and ia[0] >= 0:
                    res = (0, min(ia[1], ib[1] - 1))
                elif base == "BitAnd" and ia[0] >= 0 and ib[0] >= 0:
                    res = (0, min(ia[1], ib[1]))
                elif base == "Shr" and ia[0] >= 0 and ib[0] >= 0 and ib[1] < 200:
                    res = (ia[0] >> ib[1], ia[1] >> ib[0])
            if res is not None and drng is not None:
                if res[0] < drng[0] or res[1] > drng[1]:
                    res = (max(res[0], drng[0]), min(res[1], drng[1])) if checked and res[0] <= drng[1] and res[1] >= drng[0] else drng
            self._assign(st, dkey, res, drng)
            if checked and not isinstance(key, tuple):
                self._assign(st, (key, 1), (0, 1), (0, 1))
            base_d = dkey[0] if isinstance(dkey, tuple) else dkey
            if sym is not None and sym[1] != dkey and sym[1] != base_d:
                st.sym[dkey] = sym
        elif kind == "cast":
            iv, sk = self.eval(st, r[2])
            trg = self.ty_range(r[3])
            if iv is not None and trg is not None and trg[0] <= iv[0] and iv[1] <= trg[1]:
                self._assign(st, key, iv, trg)
            else:
                self._assign(st, key, trg, trg)
        elif kind == "agg" and isinstance(r[1], dict) and r[1].get("k") == "tuple":
            vals = [self.eval(st, o)[0] for o in r[2]]
            self._assign(st, key, None, None)
            for i, iv in enumerate(vals):
                self._assign(st, (key, i), iv, None)
        else:
            self._assign(st, key, None, rng)

    def _opty(self, a, b):
        for o in (a, b):
            if o[0] == "k":
                return o[1].get("ty")
            if o[0] in ("c", "m"):
                try:
                    return self.fn.place_ty(o[1])
                except Exception:
                    pass
        return None

    def _refine(self, st, cmp, truth):
        op, ra, ia, rb, ib = cmp
        if not truth:
            op = NEG[op]
        cur_a = st.vals.get(ra, ia) if ra is not None else ia
        cur_b = st.vals.get(rb, ib) if rb is not None else ib
        if cur_a is None or cur_b is None:
            return True
        a, b = list(cur_a), list(cur_b)
        if op == "Lt":
            a[1] = min(a[1], b[1] - 1); b[0] = max(b[0], a[0] + 1)
        elif op == "Le":
            a[1] = min(a[1], b[1]); b[0] = max(b[0], a[0])
        elif op == "Gt":
            a[0] = max(a[0], b[0] + 1); b[1] = min(b[1], a[1] - 1)
        elif op == "Ge":
            a[0] = max(a[0], b[0]); b[1] = min(b[1], a[1])
        elif op == "Eq":
            lo, hi = max(a[0], b[0]), min(a[1], b[1])
            a, b = [lo, hi], [lo, hi]
        elif op == "Ne":
            if b[0] == b[1]:
                if a[0] == b[0]:
                    a[0] += 1
                if a[1] == b[0]:
                    a[1] -= 1
            if a[0] == a[1]:
                if b[0] == a[0]:
                    b[0] += 1
                if b[1] == a[0]:
                    b[1] -= 1
        if a[0] > a[1] or b[0] > b[1]:
            return False        # infeasible edge
        for r_, v in ((ra, a), (rb, b)):
            if r_ is not None and (r_ if not isinstance(r_, tuple) else r_[0]) not in self.escaped:
                st.vals[r_] = (v[0], v[1])
                # aliases of the refined place see the refinement too
                for k, s in st.sym.items():
                    if s[0] == "copy" and s[1] == r_ and k in st.vals:
                        st.vals[k] = (max(st.vals[k][0], v[0]), min(st.vals[k][1], v[1])) if max(st.vals[k][0], v[0]) <= min(st.vals[k][1], v[1]) else st.vals[k]
        return True

    def _key(self, st):
        return tuple((k, st.vals[k][0]) for k in self.partition if k in st.vals and st.vals[k][0] == st.vals[k][1])

    def _run(self):
        return self._run_from(State())

    def _run_from(self, entry):
        """the analysis from a given entry state (a parameter confined to a sub-range)"""
        fn = self.fn
        visits = {}
        parts = {}
        dq = deque()

        def arrive(bb, st):
            if fn.is_cleanup(bb):
                return
            k = (bb, self._key(st))
            old = self.states.get(k)
            if old is None:
                parts[bb] = parts.get(bb, 0) + 1
                if parts[bb] > MAX_PARTS:
                    raise Unsupported("more than %d partitions at bb%d" % (MAX_PARTS, bb))
                self.states[k] = st
                dq.append(k)
                return
            j = join(old, st)
            if j.same(old):
                return
            visits[k] = visits.get(k, 0) + 1
            if visits[k] > WIDEN_AFTER:
                for key, iv in list(j.vals.items()):
                    if old.vals.get(key) != iv:
                        base = key[0] if isinstance(key, tuple) else key
                        try:
                            rng = self.ty_range(fn.locals[base]) if not isinstance(key, tuple) else None
                        except Exception:
                            rng = None
                        if rng is None:
                            j.vals.pop(key, None)
                        else:
                            j.vals[key] = rng
                if visits[k] > 4 * WIDEN_AFTER:
                    raise Unsupported("no fixpoint at bb%d" % bb)
            self.states[k] = j
            if k not in dq:
                dq.append(k)

        arrive(0, entry)
        steps = 0
        while dq:
            steps += 1
            if steps > 400000:
                raise Unsupported("analysis budget exceeded")
            k = dq.popleft()
            b = k[0]
            st = self.states[k].copy()
            for s in fn.blocks[b]["st"]:
                self._stmt(st, s)
            self.after.setdefault(b, {})[k[1]] = st
            t = fn.blocks[b]["t"]
            kind = t["k"]
            if kind == "call":
                dest = t.get("dest")
                ns = st
                if dest is not None:
                    key = self.key_of(dest)
                    res = None
                    if re.search(r"core::num::<impl [ui](8|16|32|64|128|size)>::pow$", t.get("callee") or "") and len(t["args"]) == 2:
                        (ia, _), (ib, _) = self.eval(st, t["args"][0]), self.eval(st, t["args"][1])
                        if ia and ib and ia[0] == ia[1] and ib[0] == ib[1] and 0 <= ib[0] < 200:
                            v = ia[0] ** ib[0]
                            rr = self.place_range(dest)
                            if rr and rr[0] <= v <= rr[1]:
                                res = (v, v)
                    if key is not None:
                        ns = st.copy()
                        self._assign(ns, key, res, self.place_range(dest))
                if t.get("target") is not None:
                    arrive(t["target"], ns)
            elif kind == "switch":
                d = t["discr"]
                dk = self.key_of(d[1]) if d[0] in ("c", "m") else None
                cmp = st.cmp.get(dk) if dk is not None else None
                groups = {}
                for s_, lab in fn.succ(b):
                    groups.setdefault(s_, []).append(lab)
                for s_, labs in groups.items():
                    if fn.is_cleanup(s_):
                        continue
                    ns = st.copy()
                    feasible = True
                    if t.get("dty") == "bool" and len(labs) == 1:
                        truth = not (labs[0] == 0)
                        cur = ns.vals.get(dk) if dk is not None else None
                        if cur is not None and cur[0] == cur[1] and (cur[0] != 0) != truth:
                            feasible = False
                        elif cmp is not None:
                            feasible = self._refine(ns, cmp, truth)
                    elif dk is not None and len(labs) == 1 and labs[0] != "otherwise" and t.get("dty") in RANGES:
                        rk = self.root(ns, dk)
                        cur = ns.vals.get(rk)
                        if cur is not None and not (cur[0] <= labs[0] <= cur[1]):
                            feasible = False
                        else:
                            ns.vals[rk] = (labs[0], labs[0])
                            ns.vals[dk] = (labs[0], labs[0])
                    if feasible:
                        arrive(s_, ns)
            else:
                for s_, _ in fn.succ(b):
                    arrive(s_, st)

    # -- queries ---------------------------------------------------------------------------------------------------
    def reachable(self, bb):
        return bb in self.after

    def _hull(self, ivs):
        ivs = list(ivs)
        if not ivs or any(iv is None for iv in ivs):
            return None
        return (min(iv[0] for iv in ivs), max(iv[1] for iv in ivs))

    def at_terminator(self, bb, op):
        """interval of operand `op` after the statements of bb (hull over the partitions); None = unknown/unreachable"""
        sts = self.after.get(bb)
        if not sts:
            return None
        return self._hull(self.eval(st, op)[0] for st in sts.values())

    def field_at_terminator(self, bb, local, idx):
        sts = self.after.get(bb)
        if not sts:
            return None
        return self._hull(st.vals.get((local, idx)) for st in sts.values())
