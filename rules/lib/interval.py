"""Interval abstract interpretation of integer locals over the built MIR of a loop-free function.

Forward dataflow over the non-cleanup CFG in topological order (a back edge is `Unsupported`: the caller fails closed).
Abstract value of an integer place: an inclusive interval [lo, hi] (unbounded Python ints). Three relational facts are kept
next to the intervals, because decimal-digit code depends on them:
  * copies: `_t = copy n` makes _t an alias of n until n is assigned again (branch refinements on _t refine n);
  * q = n / C  and  m = C * q  are remembered symbolically, so that  n - m  is known to be  n mod C  (< C);
  * a bool local holding a comparison is remembered, and the two edges of a switch on it refine the operands.
Checked arithmetic (`AddWithOverflow` + assert) is evaluated on the path where the assert passed (result within the type's
range); unchecked arithmetic whose exact result may leave the type's range goes to the full range of the type (wrap-around).
Locals whose address is taken mutably are always the full range of their type. Calls: `{integer}::pow` of exact arguments is
evaluated; every other call result is the full range of its type. Nothing is executed."""
import re

RANGES = {"bool": (0, 1), "u8": (0, 2 ** 8 - 1), "u16": (0, 2 ** 16 - 1), "u32": (0, 2 ** 32 - 1), "u64": (0, 2 ** 64 - 1), "usize": (0, 2 ** 64 - 1),
          "u128": (0, 2 ** 128 - 1), "i8": (-2 ** 7, 2 ** 7 - 1), "i16": (-2 ** 15, 2 ** 15 - 1), "i32": (-2 ** 31, 2 ** 31 - 1), "i64": (-2 ** 63, 2 ** 63 - 1),
          "isize": (-2 ** 63, 2 ** 63 - 1), "i128": (-2 ** 127, 2 ** 127 - 1), "char": (0, 0x10FFFF)}
CMP = {"Lt", "Le", "Gt", "Ge", "Eq", "Ne"}
NEG = {"Lt": "Ge", "Le": "Gt", "Gt": "Le", "Ge": "Lt", "Eq": "Ne", "Ne": "Eq"}


class Unsupported(Exception):
    pass


class State:
    __slots__ = ("vals", "sym", "ver", "cmp")

    def __init__(self):
        self.vals, self.sym, self.ver, self.cmp = {}, {}, {}, {}

    def copy(self):
        s = State()
        s.vals, s.sym, s.ver, s.cmp = dict(self.vals), dict(self.sym), dict(self.ver), dict(self.cmp)
        return s


def join(states, tag):
    out = State()
    keys = set()
    for s in states:
        keys |= set(s.vals)
    for k in keys:
        if all(k in s.vals for s in states):
            out.vals[k] = (min(s.vals[k][0] for s in states), max(s.vals[k][1] for s in states))
    vk = set()
    for s in states:
        vk |= set(s.ver)
    for k in vk:
        vs = {s.ver.get(k, 0) for s in states}
        out.ver[k] = vs.pop() if len(vs) == 1 else ("j", tag, k)
    for k in set().union(*[set(s.sym) for s in states]):
        v = {s.sym.get(k) for s in states}
        if len(v) == 1 and None not in v:
            out.sym[k] = v.pop()
    for k in set().union(*[set(s.cmp) for s in states]):
        v = {s.cmp.get(k) for s in states}
        if len(v) == 1 and None not in v:
            out.cmp[k] = v.pop()
    return out


class Intervals:
    def __init__(self, fn):
        self.fn = fn
        self.escaped = set()
        for bi in fn.live_blocks():
            for st in fn.blocks[bi]["st"]:
                if st["k"] == "=" and st["r"][0] == "ref" and st["r"][1] == "mut" and not st["r"][2][1]:
                    self.escaped.add(st["r"][2][0])
                if st["k"] == "=" and st["r"][0] in ("addr", "rawptr", "address_of"):
                    self.escaped.add(st["r"][-1][0] if isinstance(st["r"][-1], list) else None)
        self.order = self._topo()
        self.inn = {}
        self.out_edges = {}
        self._counter = 0
        self._run()

    # -- helpers ---------------------------------------------------------------------------------------------------
    def _topo(self):
        fn = self.fn
        live = [b for b in fn.live_blocks() if not fn.is_cleanup(b)]
        liveset = set(live)
        color, order = {}, []
        stack = [(0, iter([s for s, _ in fn.succ(0) if s in liveset]))]
        color[0] = 1
        while stack:
            b, it = stack[-1]
            adv = False
            for s in it:
                if color.get(s) == 1:
                    raise Unsupported("loop (back edge bb%d -> bb%d)" % (b, s))
                if s not in color:
                    color[s] = 1
                    stack.append((s, iter([x for x, _ in fn.succ(s) if x in liveset])))
                    adv = True
                    break
            if not adv:
                color[b] = 2
                order.append(b)
                stack.pop()
        return list(reversed(order))

    def ty_range(self, ty):
        return RANGES.get(ty)

    def key_of(self, place):
        local, projs = place
        if not projs:
            return local
        if len(projs) == 1 and projs[0][0] == "f":
            return (local, projs[0][1])
        return None

    def place_range(self, place):
        try:
            return self.ty_range(self.fn.place_ty(place))
        except Exception:
            return None

    def root(self, st, key):
        n = 0
        while n < 8:
            s = st.sym.get(key)
            if s and s[0] == "copy" and st.ver.get(s[1], 0) == s[2]:
                key = s[1]
                n += 1
            else:
                break
        return key

    def eval(self, st, op):
        """-> (interval or None, key or None)"""
        if op[0] == "k":
            c = op[1]
            try:
                v = int(c.get("v"))
            except (TypeError, ValueError):
                return self.ty_range(c.get("ty")), None
            return (v, v), None
        if op[0] in ("c", "m"):
            key = self.key_of(op[1])
            base = key[0] if isinstance(key, tuple) else key
            if key is None or base in self.escaped:
                return self.place_range(op[1]), None
            iv = st.vals.get(key)
            if iv is None:
                iv = self.place_range(op[1])
            return iv, key
        return None, None

    def _assign(self, st, key, iv, ty_rng):
        self._counter += 1
        st.ver[key] = self._counter
        st.sym.pop(key, None)
        st.cmp.pop(key, None)
        if iv is None:
            iv = ty_rng
        if iv is None:
            st.vals.pop(key, None)
        else:
            st.vals[key] = iv

    def _stmt(self, st, s):
        if s["k"] != "=":
            return
        dst = s["p"]
        key = self.key_of(dst)
        if key is None:
            # a store through a projection we do not track: forget the base local
            base = dst[0]
            for k in [k for k in st.vals if k == base or (isinstance(k, tuple) and k[0] == base)]:
                self._assign(st, k, None, None)
            return
        r = s["r"]
        rng = self.place_range(dst)
        kind = r[0]
        if kind == "use":
            iv, sk = self.eval(st, r[1])
            self._assign(st, key, iv, rng)
            if sk is not None:
                rk = self.root(st, sk)
                st.sym[key] = ("copy", rk, st.ver.get(rk, 0))
                if sk in st.cmp:
                    st.cmp[key] = st.cmp[sk]
        elif kind == "bin":
            op, a, b = r[1], r[2], r[3]
            (ia, ka), (ib, kb) = self.eval(st, a), self.eval(st, b)
            checked = op.endswith("WithOverflow")
            base = op[:-len("WithOverflow")] if checked else op
            if base in CMP:
                ra = self.root(st, ka) if ka is not None else None
                rb = self.root(st, kb) if kb is not None else None
                self._assign(st, key, (0, 1), rng)
                st.cmp[key] = (base, ra, st.ver.get(ra, 0) if ra is not None else None, ia, rb, st.ver.get(rb, 0) if rb is not None else None, ib)
                return
            dkey = (key, 0) if checked and not isinstance(key, tuple) else key
            drng = self.ty_range(self._opty(a, b))
            res, sym = None, None
            if ia is not None and ib is not None:
                if base == "Add":
                    res = (ia[0] + ib[0], ia[1] + ib[1])
                elif base == "Sub":
                    res = (ia[0] - ib[1], ia[1] - ib[0])
                    # n - C * (n / C)  ==  n mod C
                    sb = st.sym.get(self.root(st, kb)) if kb is not None else None
                    ra = self.root(st, ka) if ka is not None else None
                    if sb and sb[0] == "muldiv" and ra == sb[1] and st.ver.get(ra, 0) == sb[2]:
                        res = (0, min(sb[3] - 1, ia[1]))
                elif base == "Mul":
                    c = [x[0] * y[0] for x in ((ia[0],), (ia[1],)) for y in ((ib[0],), (ib[1],))]
                    res = (min(c), max(c))
                    for (iv1, k1, iv2, k2) in ((ia, ka, ib, kb), (ib, kb, ia, ka)):
                        if iv1[0] == iv1[1] and k2 is not None:
                            s2 = st.sym.get(self.root(st, k2)) or st.sym.get(k2)
                            if s2 and s2[0] == "div" and s2[3] == iv1[0] and st.ver.get(s2[1], 0) == s2[2]:
                                sym = ("muldiv", s2[1], s2[2], s2[3])
                elif base == "Div" and ib[0] > 0 and ia[0] >= 0:
                    res = (ia[0] // ib[1], ia[1] // ib[0])
                    if ib[0] == ib[1] and ka is not None:
                        ra = self.root(st, ka)
                        sym = ("div", ra, st.ver.get(ra, 0), ib[0])
                elif base == "Rem" and ib[0] > 0 and ia[0] >= 0:
                    res = (0, min(ia[1], ib[1] - 1))
                elif base == "BitAnd" and ia[0] >= 0 and ib[0] >= 0:
                    res = (0, min(ia[1], ib[1]))
                elif base == "Shr" and ia[0] >= 0 and ib[0] >= 0 and ib[1] < 200:
                    res = (ia[0] >> ib[1], ia[1] >> ib[0])
            if res is not None and drng is not None:
                if res[0] < drng[0] or res[1] > drng[1]:
                    res = (max(res[0], drng[0]), min(res[1], drng[1])) if checked and res[0] <= drng[1] and res[1] >= drng[0] else drng
            self._assign(st, dkey, res, drng)
            if checked and not isinstance(key, tuple):
                self._assign(st, (key, 1), (0, 1), (0, 1))
            if sym is not None:
                st.sym[dkey] = sym
        elif kind == "cast":
            iv, sk = self.eval(st, r[2])
            trg = self.ty_range(r[3])
            if iv is not None and trg is not None and trg[0] <= iv[0] and iv[1] <= trg[1]:
                self._assign(st, key, iv, trg)
                if sk is not None:
                    rk = self.root(st, sk)
                    s0 = st.sym.get(rk)
                    if s0 and s0[0] in ("div",):
                        pass
            else:
                self._assign(st, key, trg, trg)
        elif kind == "agg" and isinstance(r[1], dict) and r[1].get("k") == "tuple":
            self._assign(st, key, None, None)
            for i, o in enumerate(r[2]):
                iv, _ = self.eval(st, o)
                self._assign(st, (key, i), iv, None)
        else:
            self._assign(st, key, None, rng)

    def _opty(self, a, b):
        for o in (a, b):
            if o[0] == "k":
                return o[1].get("ty")
            if o[0] in ("c", "m"):
                try:
                    return self.fn.place_ty(o[1])
                except Exception:
                    pass
        return None

    def _refine(self, st, cmp, truth):
        op, ra, va, ia, rb, vb, ib = cmp
        if not truth:
            op = NEG[op]
        cur_a = st.vals.get(ra, ia) if (ra is not None and st.ver.get(ra, 0) == va) else ia
        cur_b = st.vals.get(rb, ib) if (rb is not None and st.ver.get(rb, 0) == vb) else ib
        if cur_a is None or cur_b is None:
            return True
        a, b = list(cur_a), list(cur_b)
        if op == "Lt":
            a[1] = min(a[1], b[1] - 1); b[0] = max(b[0], a[0] + 1)
        elif op == "Le":
            a[1] = min(a[1], b[1]); b[0] = max(b[0], a[0])
        elif op == "Gt":
            a[0] = max(a[0], b[0] + 1); b[1] = min(b[1], a[1] - 1)
        elif op == "Ge":
            a[0] = max(a[0], b[0]); b[1] = min(b[1], a[1])
        elif op == "Eq":
            lo, hi = max(a[0], b[0]), min(a[1], b[1])
            a, b = [lo, hi], [lo, hi]
        elif op == "Ne":
            if b[0] == b[1]:
                if a[0] == b[0]:
                    a[0] += 1
                if a[1] == b[0]:
                    a[1] -= 1
        if a[0] > a[1] or b[0] > b[1]:
            return False        # infeasible edge
        if ra is not None and st.ver.get(ra, 0) == va and (ra if not isinstance(ra, tuple) else ra[0]) not in self.escaped:
            st.vals[ra] = (a[0], a[1])
        if rb is not None and st.ver.get(rb, 0) == vb and (rb if not isinstance(rb, tuple) else rb[0]) not in self.escaped:
            st.vals[rb] = (b[0], b[1])
        return True

    def _run(self):
        fn = self.fn
        preds = {}
        entry = State()
        self.inn[0] = entry
        pending = {0: [entry]}
        for b in self.order:
            ins = pending.get(b)
            if not ins:
                continue
            st = ins[0].copy() if len(ins) == 1 else join(ins, b)
            self.inn[b] = st.copy()
            for s in fn.blocks[b]["st"]:
                self._stmt(st, s)
            t = fn.blocks[b]["t"]
            self.out_edges[b] = st
            k = t["k"]
            if k == "call":
                dest = t.get("dest")
                if dest is not None:
                    key = self.key_of(dest)
                    res = None
                    if re.search(r"core::num::<impl [ui](8|16|32|64|128|size)>::pow$", t.get("callee") or "") and len(t["args"]) == 2:
                        (ia, _), (ib, _) = self.eval(st, t["args"][0]), self.eval(st, t["args"][1])
                        if ia and ib and ia[0] == ia[1] and ib[0] == ib[1] and 0 <= ib[0] < 200:
                            v = ia[0] ** ib[0]
                            rr = self.place_range(dest)
                            if rr and rr[0] <= v <= rr[1]:
                                res = (v, v)
                    if key is not None:
                        st = st.copy()
                        self._assign(st, key, res, self.place_range(dest))
                if t.get("target") is not None:
                    pending.setdefault(t["target"], []).append(st)
            elif k == "switch":
                d = t["discr"]
                dk = self.key_of(d[1]) if d[0] in ("c", "m") else None
                cmp = st.cmp.get(dk) if dk is not None else None
                groups = {}
                for s_, lab in fn.succ(b):
                    groups.setdefault(s_, []).append(lab)
                vals = [int(v) for v, _ in t["targets"]]
                for s_, labs in groups.items():
                    if fn.is_cleanup(s_):
                        continue
                    ns = st.copy()
                    feasible = True
                    if t.get("dty") == "bool" and cmp is not None and len(labs) == 1:
                        truth = not (labs[0] == 0)
                        feasible = self._refine(ns, cmp, truth)
                    elif dk is not None and len(labs) == 1 and labs[0] != "otherwise" and t.get("dty") in RANGES:
                        rk = self.root(ns, dk)
                        cur = ns.vals.get(rk)
                        if cur is not None and not (cur[0] <= labs[0] <= cur[1]):
                            feasible = False
                        else:
                            ns.vals[rk] = (labs[0], labs[0])
                            ns.vals[dk] = (labs[0], labs[0])
                    if feasible:
                        pending.setdefault(s_, []).append(ns)
            else:
                for s_, _ in fn.succ(b):
                    if not fn.is_cleanup(s_):
                        pending.setdefault(s_, []).append(st)

    # -- queries ---------------------------------------------------------------------------------------------------
    def reachable(self, bb):
        return bb in self.out_edges

    def at_terminator(self, bb, op):
        """interval of operand `op` after the statements of bb (before its terminator); None = unknown/unreachable"""
        st = self.out_edges.get(bb)
        if st is None:
            return None
        # out_edges holds the state after the statements (a call's destination is assigned on a copy)
        return self.eval(st, op)[0]

    def field_at_terminator(self, bb, local, idx):
        st = self.out_edges.get(bb)
        if st is None:
            return None
        return st.vals.get((local, idx))
