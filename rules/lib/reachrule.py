"""Generic REACH / UNSAFE-GUARD rule: from a root set, every reached panic sink and unsafe
operation must be discharged by an automatic structural pattern or by an audit entry whose
guard signature is re-verified on the current tree."""
import re
from collections import defaultdict

from . import guards, reach
from ..audit.extern import EXTERN
from ..audit.common import COMMON

EXTERN_RX = [(re.compile(p), c, r) for p, c, r in EXTERN]

POSITION_RX = r"::(position|rposition)$"


def classify_extern(callee):
    crate = callee.lstrip("<&").split("::", 1)[0]
    for rx, cls, reason in EXTERN_RX:
        if rx.search(callee):
            return cls, reason
    head = callee
    # `<T as Trait>::m` forms: decide by the trait's crate
    m = re.match(r"^<.* as ([a-z_0-9]+)::", callee)
    if m:
        crate = m.group(1)
    if crate in reach.STD_CRATES:
        return "total", "std callee not on the may-panic list"
    return None, None


FORMAT_MACROS = ("format_args", "format", "write", "writeln", "print", "println", "eprint", "eprintln", "panic", "assert", "assert_eq", "assert_ne",
                 "debug_assert", "debug_assert_eq", "unreachable", "todo", "unimplemented", "format_args_nl", "const_format_args")


def index_within(prog, fn, bb, idx_op, depth=1):
    """is the value of idx_op known to be <= the length of the slice it indexes? -> (ok, how)
    position()/find() payload under Some, a length, `position(..).unwrap_or(len)`, a dominating `idx <= len` comparison, or a
    parameter for which every call site of this (non-public) function passes such a value."""
    st = fn.origin(idx_op)
    if not st:
        return False, ""
    if guards.origin_matches(fn, st, {"call": POSITION_RX + r"|^core::str::<impl str>::(find|rfind)$", "payload": "Some"}):
        return True, "the index is the payload of position()/find() (index < len)"
    if guards.is_len_origin(fn, st):
        return True, "the index is a length"
    last = st[-1]
    if last[0] == "call" and last[1].name in ("unwrap_or",) and len(last[1].args) == 2:
        a = fn.origin(last[1].args[0])
        b = fn.origin(last[1].args[1])
        if a and a[-1][0] == "call" and re.search(POSITION_RX, a[-1][1].callee or "") and guards.is_len_origin(fn, b):
            return True, "the index is position(..).unwrap_or(len)"
    if last[0] == "const" and guards.const_int(last[1]) == 0:
        return True, "the index is 0"
    od = guards.describe_origin(fn, st)
    for f in guards.facts_at(fn, prog, bb):
        if f.kind != "cmp":
            continue
        for a, b, op in ((f.lhs, f.rhs, f.op), (f.rhs, f.lhs, guards.FLIP[f.op])):
            if op in ("Le", "Lt") and guards.describe_origin(fn, a) == od and guards.is_len_origin(fn, b) and od not in ("?", "call:len"):
                return True, "dominated by `index <= len`"
    if last[0] == "arg" and depth > 0 and all(x[0] in ("via", "arg") for x in st) and not last[2]:
        k = last[1]
        callers = prog.callers().get(fn.key, [])
        if callers and not fn.pub:
            hows = []
            for c in callers:
                if k - 1 >= len(c.args):
                    return False, ""
                ok, how = index_within(prog, c.fn, c.bb, c.args[k - 1], depth - 1)
                if not ok:
                    return False, "call site %s passes an index that is not known to be within the slice" % c.fn.loc(c.sp)
                hows.append(how)
            return True, "parameter %d: every one of the %d call site(s) passes an index within the slice (%s)" % (k, len(callers), hows[0])
    return False, ""


def strict_index(prog, fn, bb, idx_op, depth=1):
    """is the value known to be < the length of the slice it indexes (a position()/find() payload), possibly handed down
    through parameters of non-public functions? -> (ok, how)"""
    st = fn.origin(idx_op)
    if not st:
        return False, ""
    if guards.origin_matches(fn, st, {"call": POSITION_RX + r"|^core::str::<impl str>::(find|rfind)$", "payload": "Some"}):
        return True, "the index is the payload of position()/find() (index < len)"
    last = st[-1]
    if last[0] == "arg" and depth > 0 and all(x[0] in ("via", "arg") for x in st) and not last[2]:
        k = last[1]
        callers = prog.callers().get(fn.key, [])
        if callers and not fn.pub:
            for c in callers:
                if k - 1 >= len(c.args):
                    return False, ""
                ok, how = strict_index(prog, c.fn, c.bb, c.args[k - 1], depth - 1)
                if not ok:
                    return False, ""
            return True, "parameter %d: every one of the %d call site(s) passes a position()/find() payload" % (k, len(callers))
    return False, ""


def auto_discharge(prog, sink):
    """structural patterns that need no audit entry -> (ok, how)"""
    fn = sink.fn
    if sink.kind == "panic-call" and sink.what in ("split_at", "split_at_mut") and len(sink.payload.args) > 1:
        ok, how = index_within(prog, fn, sink.bb, sink.payload.args[1], depth=2)
        if ok:
            return True, "split_at: " + how
    if sink.kind == "assert" and sink.what == "BoundsCheck":
        iop = guards.sink_operand(sink, "index")
        st_ = fn.origin(iop) if iop is not None else None
        # `s[i]` with i the payload of position()/find() on s (index < len), also through a parameter
        if st_ and (guards.origin_matches(fn, st_, {"call": POSITION_RX + r"|^core::str::<impl str>::(find|rfind)$", "payload": "Some"}) or (st_[-1][0] == "arg" and not st_[-1][2])):
            ok, how = strict_index(prog, fn, sink.bb, iop, depth=2)
            if ok:
                return True, "index: " + how
        elif iop is not None and iop[0] in ("c", "m"):
            # the index bound in several match arms and handed on in a tuple: every value it can hold is such a payload, and
            # the slice indexed is the one that was searched
            from . import paths as _paths, decision as _decision
            lv = _paths.leaf_values(fn, iop)
            spec = {"call": POSITION_RX + r"|^core::str::<impl str>::(find|rfind)$", "payload": "Some"}
            if lv and all(l[0] == "call" and guards.origin_matches(fn, [("call", l[1], l[2])], spec) for l in lv):
                return True, "index: every value it can hold is the payload of position()/find() (index < len), %d definition(s)" % len(lv)
    if sink.kind == "panic-call" and sink.what in ("slice index", "str index") and len(sink.payload.args) > 1:
        # `s[..i]` / `s[i + 1..]` with i the payload of `s.find(<one-byte char>)` / `position(..)` on the same s: i < len, and for
        # a str the found character is one byte wide (an ASCII char literal), so i and i + 1 are character boundaries
        from . import decision as _dec0
        rng0 = fn.origin(sink.payload.args[1])
        if rng0 and rng0[-1][0] == "agg" and rng0[-1][1][1].get("adt", "").rsplit("::", 1)[-1] in ("RangeFrom", "RangeTo") and len(rng0[-1][1][2]) == 1:
            b0 = rng0[-1][1][2][0]
            d0 = _dec0.describe_deep(fn, b0, 6)
            whole0 = _dec0.describe_deep(fn, sink.payload.args[0], 6)
            m0 = re.match(r"^(?:Add(?:WithOverflow)?\()?(find|rfind|position|rposition)\((.*?),(const '(.)'|closure\{\})\)@Some\.0(?:,const 1\)(?:\.0)?)?$", d0)
            if m0:
                plus_one = d0.startswith("Add")
                searched = m0.group(2)
                ch = m0.group(4)
                same = searched == whole0 or searched in (whole0, "deref(%s)" % whole0) or whole0 in ("deref(%s)" % searched,)
                ascii_ok = sink.what == "slice index" or (ch is not None and ord(ch) < 128)
                facts_some = True
                if same and ascii_ok and (not plus_one or rng0[-1][1][1].get("adt", "").endswith("RangeFrom") or sink.what == "slice index"):
                    return True, "the bound is the payload of %s(%s) on the indexed value%s: within it and, for a str, on a character boundary" % (m0.group(1), ch or "..", " plus the one byte of the found character" if plus_one else "")
        # `s[piece.len()..]` / `s[..piece.len()]` where `piece` is a piece of `s` itself: the first item of a split of s, or
        # (by unwrap_or / the empty-input case) s as a whole -- a piece is never longer than what it was cut from
        from . import paths as _paths
        from . import decision as _decision
        rng = fn.origin(sink.payload.args[1])
        if rng and rng[-1][0] == "agg" and rng[-1][1][1].get("adt", "").rsplit("::", 1)[-1] in ("RangeFrom", "RangeTo") and len(rng[-1][1][2]) == 1:
            bound = rng[-1][1][2][0]
            bst = fn.origin(bound) if bound[0] in ("c", "m") else None
            if bst and bst[-1][0] == "call" and bst[-1][1].name == "len" and bst[-1][1].args:
                whole = _decision.describe_deep(fn, sink.payload.args[0], 6)
                leaves = _paths.leaf_values(fn, bst[-1][1].args[0])
                okl = bool(leaves)
                for lf in leaves:
                    if lf[0] == "call" and lf[1].name == "next" and lf[1].args:
                        it = _paths.root_call(fn, lf[1].args[0], through=_paths.TRANSPARENT + r"|Iterator>?::by_ref$")
                        if it is not None and re.search(r"<impl (\[T\]|str)>::(split|splitn|split_terminator|split_inclusive|rsplit|rsplitn|lines|split_whitespace)$", it.callee or "") and _decision.describe_deep(fn, it.args[0], 6) == whole:
                            continue
                        okl = False
                    elif lf[0] == "call" and lf[1].name == "unwrap_or" and len(lf[1].args) > 1 and _decision.describe_deep(fn, lf[1].args[1], 6) == whole:
                        # unwrap_or(next(split(s)), s): both alternatives are pieces of s
                        inner = _paths.root_call(fn, lf[1].args[0], through=r"$^")
                        it = _paths.root_call(fn, inner.args[0], through=_paths.TRANSPARENT + r"|Iterator>?::by_ref$") if inner is not None and inner.name == "next" and inner.args else None
                        if it is not None and re.search(r"<impl (\[T\]|str)>::(split|splitn|split_terminator|split_inclusive|rsplit|rsplitn|lines|split_whitespace)$", it.callee or "") and _decision.describe_deep(fn, it.args[0], 6) == whole:
                            continue
                        okl = False
                    elif lf[0] == "place" and _decision.describe_deep(fn, ["c", [lf[1], lf[2]]], 6) == whole:
                        continue
                    else:
                        okl = False
                if okl and whole not in ("?", ""):
                    return True, "range bound is the length of a piece of the indexed slice itself (first item of its split, or the slice as a whole)"
    if sink.kind == "panic-call" and sink.what == "copy_from_slice" and len(sink.payload.args) > 1:
        # dst.copy_from_slice(src) with dst = x.split_at(_mut)(src.len()).0 (or x[..src.len()]): equal lengths by construction
        from . import decision as _decision
        dst = fn.origin(sink.payload.args[0])
        srcd = _decision.describe_deep(fn, sink.payload.args[1], 6)
        if dst and dst[-1][0] == "call" and dst[-1][1].name in ("split_at_mut", "split_at") and len(dst[-1][1].args) > 1 and any(pr[0] == "f" and pr[1] == 0 for pr in (dst[-1][2] if len(dst[-1]) > 2 else [])):
            n = _decision.describe_deep(fn, dst[-1][1].args[1], 6)
            if srcd not in ("?", "") and n == "len(%s)" % srcd:
                return True, "the destination is the first `src.len()` elements of its buffer (split_at(src.len()).0): the lengths agree by construction"
    # compiler-generated unsafe constructor calls inside format_args!
    if sink.kind == "unsafe-call" and re.search(r"^core::fmt::(Arguments::<'a>::new|rt::Argument::<'_>::new|rt::)", sink.what) and sink.mx:
        return True, "compiler-generated by format_args! (arguments constructed from the literal pieces)"
    if sink.kind == "unsafe-call" and any(m == "desugar:Await" for m in sink.mx) and re.search(r"^core::(pin::Pin::<Ptr>::new_unchecked|future::get_context)$", sink.what):
        return True, "compiler-generated by `.await` (pins the future stored in the coroutine frame)"
    if sink.kind in ("unsafe-call", "raw-deref", "transmute", "assert") and fn.unsafe:
        return True, "inside `unsafe fn %s`: the obligation is its documented precondition, checked at each call site" % fn.name
    m = re.match(r"Overflow\((Add|Sub|Mul)\)$", sink.what) if sink.kind == "assert" else None
    if m:
        # arithmetic on two literals (`4 * 1024`): evaluate it
        ops = [guards.sink_operand(sink, w) for w in ("lhs", "rhs")]
        vals = []
        tys = set()
        for o in ops:
            st = fn.origin(o) if o is not None else None
            vals.append(guards.const_int(st[-1][1]) if st and st[-1][0] == "const" else None)
            if st and st[-1][0] == "const":
                tys.add(st[-1][1].get("ty"))
        RANGE = {"u8": (0, 2 ** 8), "u16": (0, 2 ** 16), "u32": (0, 2 ** 32), "u64": (0, 2 ** 64), "usize": (0, 2 ** 32), "i8": (-2 ** 7, 2 ** 7), "i16": (-2 ** 15, 2 ** 15),
                 "i32": (-2 ** 31, 2 ** 31), "i64": (-2 ** 63, 2 ** 63), "isize": (-2 ** 31, 2 ** 31)}
        if None not in vals and len(tys) == 1 and tuple(tys)[0] in RANGE:
            lo, hi = RANGE[tuple(tys)[0]]
            r = {"Add": vals[0] + vals[1], "Sub": vals[0] - vals[1], "Mul": vals[0] * vals[1]}[m.group(1)]
            if lo <= r < hi:
                return True, "both operands are literals: %d %s %d = %d fits %s" % (vals[0], m.group(1), vals[1], r, tuple(tys)[0])
    if m and m.group(1) == "Sub":
        # `x - k` (k a literal) under a dominating `x >= k` (or `x > k'`, k' >= k - 1; or a match arm `k..=..` on x)
        ops = [guards.sink_operand(sink, w) for w in ("lhs", "rhs")]
        sts = [fn.origin(o) if o is not None else None for o in ops]
        if sts[0] and sts[1] and sts[1][-1][0] == "const":
            k = guards.const_int(sts[1][-1][1])
            xd = guards.describe_origin(fn, sts[0])
            for f in guards.facts_at(fn, prog, sink.bb):
                if f.kind == "boolcall" and f.truth and k is not None and f.call.args:
                    lo = {"is_ascii_digit": 48, "is_ascii_uppercase": 65, "is_ascii_lowercase": 97, "is_ascii_alphabetic": 65, "is_ascii_hexdigit": 48, "is_ascii_alphanumeric": 48, "is_ascii_graphic": 33}.get(f.call.name)
                    if lo is not None and k <= lo and guards.describe_origin(fn, fn.origin(f.call.args[0])) == xd and xd != "?":
                        return True, "`x - %d` under `x.%s()` (x >= %d)" % (k, f.call.name, lo)
                if f.kind != "cmp" or k is None:
                    continue
                for a, b, op in ((f.lhs, f.rhs, f.op), (f.rhs, f.lhs, guards.FLIP[f.op])):
                    c = guards.const_int(b[-1][1]) if b and b[-1][0] == "const" else None
                    if c is not None and guards.describe_origin(fn, a) == xd and xd not in ("?",) and ((op == "Ge" and c >= k) or (op == "Gt" and c >= k - 1)):
                        return True, "`x - %d` under the dominating test `x %s %d`" % (k, ">=" if op == "Ge" else ">", c)
    if m and m.group(1) == "Add":
        # index + small literal, the index being the payload of find()/position(): index < len <= isize::MAX
        ops = [guards.sink_operand(sink, w) for w in ("lhs", "rhs")]
        sts = [fn.origin(o) if o is not None else None for o in ops]
        for a, b in ((sts[0], sts[1]), (sts[1], sts[0])):
            from . import paths as _paths
            root = _paths.root_call(fn, ops[0] if a is sts[0] else ops[1]) if a else None
            via_q = root is not None and re.search(POSITION_RX + r"|^core::str::<impl str>::(find|rfind)$", root.callee or "") is not None
            if a and b and b[-1][0] == "const" and (guards.const_int(b[-1][1]) or 0) <= 16 and (via_q or guards.origin_matches(fn, a, {"call": POSITION_RX + r"|^core::str::<impl str>::(find|rfind)$", "payload": "Some"})):
                return True, "index returned by find()/position() plus %s cannot overflow (index < len <= isize::MAX)" % guards.const_int(b[-1][1])
    if sink.kind == "panic-call" and sink.what == "chunks(0)" and len(sink.payload.args) > 1:
        st = fn.origin(sink.payload.args[1])
        v = guards.const_int(st[-1][1]) if st and st[-1][0] == "const" else None
        if v is None and st and st[-1][0] == "call" and st[-1][1].name == "len" and st[-1][1].args:
            # the length of a (named) byte-string constant
            a = fn.origin(st[-1][1].args[0])
            if a and a[-1][0] == "const" and (a[-1][1].get("b") or a[-1][1].get("s")):
                v = len(a[-1][1].get("b") or a[-1][1].get("s"))
        if v is not None and v > 0:
            return True, "the window/chunk size is the literal %d" % v
    if sink.kind == "assert" and sink.what == "BoundsCheck":
        ok, how = guards.verify(prog, fn, sink.bb, sink, {"kind": "operand", "which": "index", "from": {"call": POSITION_RX, "payload": "Some"}})
        if ok:
            return True, "index is the payload of position() under its `Some` edge: " + how
    if sink.kind == "panic-call" and sink.what in ("slice index", "str index", "Vec index") and len(sink.payload.args) > 1:
        # `&s[..e]` / `&s[a..]` / `&s[a..e]` with every bound dominated by `bound <= s.len()`
        st = fn.origin(sink.payload.args[1])
        if st and st[-1][0] == "agg" and re.search(r"ops::range::Range(To|From)?$", st[-1][1][1].get("adt", "")):
            bounds = [o for o in st[-1][1][2]]
            facts = guards.facts_at(fn, prog, sink.bb)
            good = 0
            for o in bounds:
                od = guards.describe_origin(fn, fn.origin(o))
                oc = guards.const_int(fn.origin(o)[-1][1]) if fn.origin(o) and fn.origin(o)[-1][0] == "const" else None
                hit = oc == 0
                for f in facts:
                    if f.kind != "cmp":
                        continue
                    for a, b, op in ((f.lhs, f.rhs, f.op), (f.rhs, f.lhs, guards.FLIP[f.op])):
                        if op in ("Le", "Lt") and guards.describe_origin(fn, a) == od and guards.is_len_origin(fn, b) and od not in ("?", "call:len"):
                            hit = True
                if hit:
                    good += 1
            # (for a str, `bound <= len` is not enough: the bound must also be a character boundary -- only 0 and the length
            # itself are known to be one; a byte offset into percent-decoded text can split a multi-byte character)
            if sink.what == "str index":
                for o in bounds:
                    oc = guards.const_int(fn.origin(o)[-1][1]) if fn.origin(o) and fn.origin(o)[-1][0] == "const" else None
                    if oc != 0 and not guards.is_len_origin(fn, fn.origin(o)):
                        good = -1
            if bounds and good == len(bounds):
                return True, "every bound of the range was compared `<= len` on a dominating edge"
    if sink.kind == "assert" and sink.what == "BoundsCheck":
        # `for (i, x) in a.iter().enumerate() { b[i] }` under an established `a.len() == b.len()`
        ok, how = guards.verify(prog, fn, sink.bb, sink, {"kind": "operand", "which": "index", "from": {"call": r"Enumerate<.*Iterator>::next$", "payload": "Some"}})
        if ok:
            for f in guards.facts_at(fn, prog, sink.bb):
                if f.kind == "cmp" and f.op == "Eq" and guards.is_len_origin(fn, f.lhs) and guards.is_len_origin(fn, f.rhs):
                    return True, "index is an enumerate() counter and the two lengths were compared equal: " + how
    return False, ""


class ReachRule:
    def __init__(self, ck, prog, rule, roots, boundary=(), stop=(), audit=(), unsafe=True, ignore_sink=None, panic=True):
        self.ck = ck
        self.prog = prog
        self.rule = rule
        self.audit = audit
        self.unsafe = unsafe
        self.panic = panic
        self.ignore_sink = ignore_sink
        self.R = reach.Reach(prog, roots, boundary=boundary, stop=stop)
        self.used_audit = set()

    def discharge_by_inlining(self, s):
        """A call of a local `unsafe fn` whose precondition no audit entry states: evaluate the callee's own obligations where
        it is called -- the callee (and the caller's small local helpers) spliced into the caller, each obligation of the
        callee's body then discharged by the automatic patterns, by the *caller's* audit entries, or because no
        self-consistent path of the combined body reaches it (pathsens.feasible_path)."""
        from . import inline as _inline, pathsens
        prog, f = self.prog, s.fn
        callee = prog.fns[s.payload.callee]
        small = lambda caller, cal: cal.key == callee.key or (cal.crate == caller.crate and not cal.unsafe and len(cal.blocks) <= 24)
        view = _inline.inline(prog, f, 1, small)
        if view is f or callee.key not in (view.rec.get("inlined") or []):
            return False, ""
        nb = len(f.blocks)
        inner = [x for x in reach.sinks_of(view, None, include_unsafe=True) if x.bb >= nb and (view.blocks[x.bb]["t"].get("sp") or "")]
        # only the callee's blocks: spans of spliced statements carry the callee's file/lines; keep every sink that is not the caller's
        own = {(x.kind, x.what, x.where) for x in reach.sinks_of(f, None, include_unsafe=True)}
        inner = [x for x in inner if (x.kind, x.what, x.where) not in own]
        hows = []
        for x in inner:
            ok, how = auto_discharge(prog, x) if not (x.kind == "unsafe-call" and x.what == s.what) else (False, "")
            if not ok:
                for a in list(self.audit) + COMMON:
                    if not re.search(a["fn"], f.key) or not re.search(a["sink"], x.kind + ":" + x.what):
                        continue
                    for g in a["guards"]:
                        gok, ghow = guards.verify(prog, view, x.bb, x, g)
                        if gok:
                            ok, how = True, "audit[%s]: %s" % (a.get("reason", ""), ghow)
                            break
                    if ok:
                        break
            if not ok:
                try:
                    ex = pathsens.feasible_path(view, prog, x.bb)
                except RuntimeError:
                    ex = [0]
                if ex is None:
                    ok, how = True, "no self-consistent path reaches it (the branch that leads there contradicts an earlier test of the same value)"
            if not ok:
                return False, "with `%s` inlined, its %s `%s` is not discharged in this caller" % (callee.name, x.kind, x.what)
            hows.append("%s `%s`: %s" % (x.kind, x.what.rsplit("::", 1)[-1], how))
        return True, "precondition of `%s` evaluated at this call site (callee inlined, %d obligation(s)): %s" % (callee.name, len(inner), "; ".join(hows[:3]))

    def run(self):
        ck, prog, rule = self.ck, self.prog, self.rule
        R = self.R
        nsinks = 0
        ck.add_stat("functions_reached", 0)
        # external callees must be summarised
        for callee, c in sorted(R.extern.items()):
            cls, reason = classify_extern(callee)
            if cls is None:
                ck.ob(rule + " EXTERN", "extern:" + callee, False, c.line,
                      "external callee `%s` is reached (from %s) and has no summary in rules/audit/extern.py" % (callee, c.fn.key))
            elif cls == "panics":
                # treated as a sink at each call site below
                pass
        ordinals = defaultdict(int)
        allsinks = []
        for key in sorted(R.reached):
            f = R.reached[key]
            ss = reach.sinks_of(f, None, include_unsafe=self.unsafe)
            # extern callees of class `panics`
            for c in f.calls():
                if c.callee and c.callee not in prog.fns:
                    cls, reason = classify_extern(c.callee)
                    if cls == "panics":
                        ss.append(reach.Sink(f, c.bb, "panic-call", reach.short(c.callee), c.sp, c.mx, c))
            ss.sort(key=lambda s: (int(s.where.rsplit(":", 1)[1]) if s.where.rsplit(":", 1)[1].isdigit() else 0, s.bb, s.kind, s.what))
            for s in ss:
                if not self.panic and s.kind in ("assert", "panic-call"):
                    continue
                if self.ignore_sink and self.ignore_sink(s):
                    continue
                ordinals[(f.key, s.kind, s.what)] += 1
                allsinks.append((s, ordinals[(f.key, s.kind, s.what)]))
        for s, n in allsinks:
            nsinks += 1
            f = s.fn
            key = s.key(n if n > 1 or sum(1 for t, _ in allsinks if t.fn is f and t.kind == s.kind and t.what == s.what) > 1 else None)
            ok, how = auto_discharge(prog, s)
            if not ok:
                tried = []
                for i, a in enumerate(list(self.audit) + COMMON):
                    if not re.search(a["fn"], f.key):
                        continue
                    if not re.search(a["sink"], s.kind + ":" + s.what):
                        continue
                    for g in a["guards"]:
                        gok, ghow = guards.verify(prog, f, s.bb, s, g)
                        if gok:
                            ok, how = True, "audit[%s]: %s" % (a.get("reason", ""), ghow)
                            self.used_audit.add(i)
                            if g.get("kind") == "reason":
                                ck.add_stat("discharged_by_trusted_reason_only", 1)
                            break
                        tried.append(ghow)
                    if ok:
                        break
                if not ok and s.kind == "unsafe-call" and s.payload is not None and getattr(s.payload, "callee", None) in prog.fns and prog.fns[s.payload.callee].unsafe:
                    iok, ihow = self.discharge_by_inlining(s)
                    if iok:
                        ok, how = True, ihow
                    elif ihow:
                        tried.append(ihow)
                if not ok:
                    how = "; ".join(tried) if tried else "no automatic pattern and no audit entry applies"
            path = R.path_to(f.key)
            short_path = " -> ".join(p.rsplit("::", 2)[-1] if len(p) < 60 else "…" + p[-50:] for p in path[-4:])
            detail = how if ok else "%s `%s` reached from root %s (%s); not discharged: %s" % (s.kind, s.what, path[0], short_path, how)
            ck.ob(rule, key, ok, s.where, detail if not ok else "", how=how if ok else "", extra={"call_path": path} if not ok else None)
        ck.add_stat("functions_reached", len(R.reached))
        ck.add_stat("sinks_reached", nsinks)
        ck.add_stat("extern_callees_summarised", len(R.extern))
        ck.add_stat("boundary_callbacks_A2", len(R.boundary_calls))
        return allsinks
