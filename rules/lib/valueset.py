"""Value-set dataflow for one byte-valued variable (powerset-of-0..255 domain).
A classifier such as `match b { 0..=31 | b';' | 128.. => reject, _ => () }` is lowered to a tree of integer
switches and range comparisons on the same byte. Propagating the set of byte values that can take each edge
gives, for every block, exactly the bytes that reach it -- without running anything: it is a forward dataflow
analysis whose transfer functions are the comparisons against literals found in the MIR."""
from collections import deque

from . import guards

ALL = frozenset(range(256))

CMP = {
    "Lt": lambda x, c: x < c, "Le": lambda x, c: x <= c, "Gt": lambda x, c: x > c, "Ge": lambda x, c: x >= c,
    "Eq": lambda x, c: x == c, "Ne": lambda x, c: x != c,
}


def _const_of(fn, op):
    st = fn.origin(op)
    if st and st[-1][0] == "const":
        return guards.const_int(st[-1][1])
    return None


def edge_sets(fn, bb, inset, is_byte):
    """{successor: subset of inset} for the edges leaving bb"""
    t = fn.blocks[bb]["t"]
    out = {}
    if t["k"] != "switch":
        for s, _ in fn.succ(bb):
            out[s] = out.get(s, frozenset()) | inset
        return out
    discr = t["discr"]
    listed = [(int(v), tb) for v, tb in t["targets"]]
    if is_byte(fn, discr):
        rest = set(inset)
        for v, tb in listed:
            hit = frozenset([v]) & inset
            out[tb] = out.get(tb, frozenset()) | hit
            rest.discard(v)
        out[t["otherwise"]] = out.get(t["otherwise"], frozenset()) | frozenset(rest)
        return out
    st = fn.origin(discr)
    last = st[-1] if st else None
    if last is not None and last[0] == "bin" and last[1][1] in CMP:
        op, a, b = last[1][1], last[1][2], last[1][3]
        pred = None
        if is_byte(fn, a) and _const_of(fn, b) is not None:
            c = _const_of(fn, b)
            pred = lambda x, op=op, c=c: CMP[op](x, c)
        elif is_byte(fn, b) and _const_of(fn, a) is not None:
            c = _const_of(fn, a)
            pred = lambda x, op=op, c=c: CMP[op](c, x)
        if pred is not None:
            tset = frozenset(x for x in inset if pred(x))
            fset = inset - tset
            for v, tb in listed:
                out[tb] = out.get(tb, frozenset()) | (tset if v != 0 else fset)
            ow = t["otherwise"]
            # bool switch: listed is [0] (otherwise = true) or [1] (otherwise = false) or both
            have = {v for v, _ in listed}
            if have == {0}:
                out[ow] = out.get(ow, frozenset()) | tset
            elif have == {1}:
                out[ow] = out.get(ow, frozenset()) | fset
            return out
    for s, _ in fn.succ(bb):
        out[s] = out.get(s, frozenset()) | inset
    return out


def reach_sets(fn, start, is_byte, stop=lambda bb: False, inset=ALL):
    """{block: bytes with which control can reach it from `start`}; blocks for which stop(bb) holds are not expanded"""
    sets = {start: frozenset(inset)}
    dq = deque([start])
    n = 0
    while dq:
        n += 1
        if n > 100000:
            raise RuntimeError("value-set analysis did not converge")
        b = dq.popleft()
        if fn.is_cleanup(b) or stop(b):
            continue
        for s, sub in edge_sets(fn, b, sets[b], is_byte).items():
            if fn.is_cleanup(s):
                continue
            old = sets.get(s)
            new = (old or frozenset()) | sub
            if old is None or new != old:
                sets[s] = new
                dq.append(s)
    return sets


def show(s):
    """compact text of a byte set: 0x21,0x23-0x2b,..."""
    xs = sorted(s)
    out = []
    i = 0
    while i < len(xs):
        j = i
        while j + 1 < len(xs) and xs[j + 1] == xs[j] + 1:
            j += 1
        out.append("0x%02x" % xs[i] if i == j else "0x%02x-0x%02x" % (xs[i], xs[j]))
        i = j + 1
    return ",".join(out) or "(none)"


def predicate_sets(fn, is_byte, inset=ALL):
    """For a loop-free function (or closure body, helpers spliced in) that classifies one byte and returns bool:
    -> (bytes for which it returns true, bytes for which it returns false, bytes whose result this analysis cannot read).
    Forward dataflow over (block, boolean locals assigned a constant on the way) -> byte set: the comparison tree splits the
    byte set as in reach_sets, `_x = const true/false` and copies of such locals are remembered, a switch on such a local
    follows the matching edge only, and at a return the value of the return place decides the bucket."""
    start = (0, frozenset())
    sets = {start: frozenset(inset)}
    dq = deque([start])
    true_s, false_s, unk = frozenset(), frozenset(), frozenset()
    n = 0
    while dq:
        n += 1
        if n > 200000:
            raise RuntimeError("predicate analysis did not converge")
        state = dq.popleft()
        b, known = state
        cur = sets[state]
        if fn.is_cleanup(b) or not cur:
            continue
        kd = dict(known)
        for st in fn.blocks[b]["st"]:
            if st.get("k") != "=":
                continue
            if st["p"][1]:
                continue
            r, v = st["r"], None
            if r[0] == "use" and r[1][0] == "k" and r[1][1].get("ty") == "bool":
                v = 1 if str(r[1][1].get("v")) == "1" else 0
            elif r[0] == "use" and r[1][0] in ("c", "m") and not r[1][1][1]:
                v = kd.get(r[1][1][0])
            if v is None:
                kd.pop(st["p"][0], None)
            else:
                kd[st["p"][0]] = v
        t = fn.blocks[b]["t"]
        if t["k"] == "return":
            if kd.get(0) == 1:
                true_s |= cur
            elif kd.get(0) == 0:
                false_s |= cur
            else:
                unk |= cur
            continue
        if t["k"] == "call" and t.get("dest") is not None and not t["dest"][1]:
            kd.pop(t["dest"][0], None)
        k2 = frozenset(kd.items())
        if t["k"] == "switch" and t["discr"][0] in ("c", "m") and not t["discr"][1][1] and t["discr"][1][0] in kd and t.get("dty") == "bool":
            val = kd[t["discr"][1][0]]
            nxt = {}
            for s_, lab in fn.succ(b):
                if (lab == 0) == (val == 0):
                    nxt[s_] = cur
        else:
            nxt = edge_sets(fn, b, cur, is_byte)
        for s_, sub in nxt.items():
            if fn.is_cleanup(s_) or not sub:
                continue
            ns = (s_, k2)
            old = sets.get(ns)
            new = (old or frozenset()) | sub
            if old is None or new != old:
                sets[ns] = new
                dq.append(ns)
    return true_s, false_s, unk
