"""Value-set dataflow for one byte-valued variable (powerset-of-0..255 domain).
A classifier such as `match b { 0..=31 | b';' | 128.. => reject, _ => () }` is lowered to a tree of integer
switches and range comparisons on the same byte. Propagating the set of byte values that can take each edge
gives, for every block, exactly the bytes that reach it -- without running anything: it is a forward dataflow
analysis whose transfer functions are the comparisons against literals found in the MIR."""
from collections import deque

from . import guards

ALL = frozenset(range(256))

CMP = {
    "Lt": lambda x, c: x < c, "Le": lambda x, c: x <= c, "Gt": lambda x, c: x > c, "Ge": lambda x, c: x >= c,
    "Eq": lambda x, c: x == c, "Ne": lambda x, c: x != c,
}


def _const_of(fn, op):
    st = fn.origin(op)
    if st and st[-1][0] == "const":
        return guards.const_int(st[-1][1])
    return None


def edge_sets(fn, bb, inset, is_byte):
    """{successor: subset of inset} for the edges leaving bb"""
    t = fn.blocks[bb]["t"]
    out = {}
    if t["k"] != "switch":
        for s, _ in fn.succ(bb):
            out[s] = out.get(s, frozenset()) | inset
        return out
    discr = t["discr"]
    listed = [(int(v), tb) for v, tb in t["targets"]]
    if is_byte(fn, discr):
        rest = set(inset)
        for v, tb in listed:
            hit = frozenset([v]) & inset
            out[tb] = out.get(tb, frozenset()) | hit
            rest.discard(v)
        out[t["otherwise"]] = out.get(t["otherwise"], frozenset()) | frozenset(rest)
        return out
    st = fn.origin(discr)
    last = st[-1] if st else None
    if last is not None and last[0] == "bin" and last[1][1] in CMP:
        op, a, b = last[1][1], last[1][2], last[1][3]
        pred = None
        if is_byte(fn, a) and _const_of(fn, b) is not None:
            c = _const_of(fn, b)
            pred = lambda x, op=op, c=c: CMP[op](x, c)
        elif is_byte(fn, b) and _const_of(fn, a) is not None:
            c = _const_of(fn, a)
            pred = lambda x, op=op, c=c: CMP[op](c, x)
        if pred is not None:
            tset = frozenset(x for x in inset if pred(x))
            fset = inset - tset
            for v, tb in listed:
                out[tb] = out.get(tb, frozenset()) | (tset if v != 0 else fset)
            ow = t["otherwise"]
            # bool switch: listed is [0] (otherwise = true) or [1] (otherwise = false) or both
            have = {v for v, _ in listed}
            if have == {0}:
                out[ow] = out.get(ow, frozenset()) | tset
            elif have == {1}:
                out[ow] = out.get(ow, frozenset()) | fset
            return out
    for s, _ in fn.succ(bb):
        out[s] = out.get(s, frozenset()) | inset
    return out


def reach_sets(fn, start, is_byte, stop=lambda bb: False, inset=ALL):
    """{block: bytes with which control can reach it from `start`}; blocks for which stop(bb) holds are not expanded"""
    sets = {start: frozenset(inset)}
    dq = deque([start])
    n = 0
    while dq:
        n += 1
        if n > 100000:
            raise RuntimeError("value-set analysis did not converge")
        b = dq.popleft()
        if fn.is_cleanup(b) or stop(b):
            continue
        for s, sub in edge_sets(fn, b, sets[b], is_byte).items():
            if fn.is_cleanup(s):
                continue
            old = sets.get(s)
            new = (old or frozenset()) | sub
            if old is None or new != old:
                sets[s] = new
                dq.append(s)
    return sets


def show(s):
    """compact text of a byte set: 0x21,0x23-0x2b,..."""
    xs = sorted(s)
    out = []
    i = 0
    while i < len(xs):
        j = i
        while j + 1 < len(xs) and xs[j + 1] == xs[j] + 1:
            j += 1
        out.append("0x%02x" % xs[i] if i == j else "0x%02x-0x%02x" % (xs[i], xs[j]))
        i = j + 1
    return ",".join(out) or "(none)"
