"""Branch facts that hold at a program point (from dominating switch edges) and guard
specifications that are re-verified against them on every run."""
import re

from .mir import Call, op_const, op_place, ty_head

CMP_OPS = {"Lt", "Le", "Gt", "Ge", "Eq", "Ne"}
FLIP = {"Lt": "Gt", "Le": "Ge", "Gt": "Lt", "Ge": "Le", "Eq": "Eq", "Ne": "Ne"}
NEG = {"Lt": "Ge", "Le": "Gt", "Gt": "Le", "Ge": "Lt", "Eq": "Ne", "Ne": "Eq"}


def const_int(c):
    if c is None:
        return None
    v = c.get("sv", c.get("v"))
    if v is None:
        return None
    try:
        return int(v)
    except ValueError:
        return None


def describe_origin(fn, steps):
    """short human-readable origin: 'call:position' / 'arg1.input' / 'const 2'"""
    if not steps:
        return "?"
    last = steps[-1]
    k = last[0]
    proj = ""
    for s in steps:
        one = ""
        for pr in (s[2] if len(s) > 2 else []):
            if pr[0] == "f":
                one += "." + (pr[2] or str(pr[1]))
            elif pr[0] == "dc":
                one += " as " + pr[1]
        proj = one + proj
    if k == "call":
        return "call:%s%s" % (last[1].name, proj)
    if k == "arg":
        return "arg%d%s" % (last[1], proj)
    if k == "const":
        c = last[1]
        if "s" in c:
            return "const %r" % c["s"]
        return "const %s" % c.get("v")
    if k == "multi":
        return "var_%d%s" % (last[1], proj)
    return k + proj


class Fact:
    """Something known to be true on every path reaching a block."""

    def __init__(self, kind, sw_bb, **kw):
        self.kind = kind
        self.sw_bb = sw_bb
        self.__dict__.update(kw)

    def __repr__(self):
        d = {k: v for k, v in self.__dict__.items() if k not in ("steps", "lhs", "rhs", "fn")}
        return "<fact %s>" % d


def bool_tested(fn, steps, truth, sw_bb, depth=0):
    """steps: origin of a bool that is known to equal `truth` -> list of Facts"""
    out = []
    if not steps or depth > 4:
        return out
    last = steps[-1]
    k = last[0]
    if k == "bin":
        r = last[1]
        op = r[1]
        if op in CMP_OPS:
            a, b = r[2], r[3]
            sa = fn.origin(a)
            sb = fn.origin(b)
            eff = op if truth else NEG[op]
            out.append(Fact("cmp", sw_bb, op=eff, lhs=sa, rhs=sb, raw_op=op, truth=truth))
        elif op in ("BitAnd",) and truth:
            for x in (r[2], r[3]):
                out += bool_tested(fn, fn.origin(x), True, sw_bb, depth + 1)
        elif op in ("BitOr",) and not truth:
            for x in (r[2], r[3]):
                out += bool_tested(fn, fn.origin(x), False, sw_bb, depth + 1)
    elif k == "un":
        r = last[1]
        if r[1] == "Not":
            out += bool_tested(fn, fn.origin(r[2]), not truth, sw_bb, depth + 1)
    elif k == "call":
        c = last[1]
        out.append(Fact("boolcall", sw_bb, call=c, truth=truth))
        # `a == b` on non-primitive operands is a PartialEq::eq call
        nm = c.name
        if nm in ("eq", "ne") and len(c.args) == 2:
            op = "Eq" if (nm == "eq") == truth else "Ne"
            out.append(Fact("cmp", sw_bb, op=op, lhs=fn.origin(c.args[0]), rhs=fn.origin(c.args[1]), raw_op=nm, truth=truth))
    elif k == "arg" and len(last) > 2 and any(pr[0] == "f" for st in steps for pr in (st[2] if len(st) > 2 else [])):
        # a bool field of a parameter (configuration flag)
        out.append(Fact("boolplace", sw_bb, steps=steps, truth=truth, desc=describe_origin(fn, steps)))
    elif k == "multi":
        # a bool variable assigned on several paths (match arms): the fact holds for whichever definition ran
        local = last[1]
        defs = []
        for (dbb, si, dk, payload) in fn.defs().get(local, []):
            if fn.is_cleanup(dbb):
                continue
            if dk == "call":
                defs.append((dbb, [("call", Call(fn, dbb, payload, False), [])]))
            elif dk == "assign" and not payload["p"][1]:
                r = payload["r"]
                if r[0] == "use":
                    defs.append((dbb, fn.origin(r[1])))
                else:
                    defs.append((dbb, [(r[0], r, [])]))
            else:
                defs.append((dbb, [("other", payload, [])]))
        out.append(Fact("boolphi", sw_bb, local=local, truth=truth, defs=defs))
    return out


def edge_facts(fn, prog, d, labels):
    """Facts implied by leaving switch block `d` through an edge carrying `labels` (set of int | 'otherwise')."""
    t = fn.term(d)
    info = fn.switch_info(d)
    listed = [int(v) for v, _ in t["targets"]]
    out = []
    if info["kind"] == "variant":
        names = prog.variant_names(info["ty"])
        if "otherwise" in labels:
            allowed = {names.get(v, v) for v in names if v not in listed} | {names.get(l, l) for l in labels if l != "otherwise"}
            if not names:
                allowed = None
        else:
            allowed = {names.get(l, l) for l in labels}
        porigin = fn.origin(info["place"])
        out.append(Fact("variant", d, place=info["place"], ty=info["ty"], allowed=allowed, steps=porigin, excluded={names.get(v, v) for v in listed if v not in labels}))
    elif info["kind"] == "bool":
        if labels == {0}:
            truth = False
        elif labels == {1} or (labels == {"otherwise"} and listed == [0]):
            truth = True
        elif labels == {"otherwise"} and listed == [1]:
            truth = False
        else:
            return out
        out += bool_tested(fn, info["steps"], truth, d)
    else:
        vals = None if "otherwise" in labels else set(labels)
        excl = set(listed) - {l for l in labels if l != "otherwise"} if "otherwise" in labels else None
        out.append(Fact("int", d, values=vals, excluded=excl, steps=info["steps"]))
    return out


SAME_VARIANT = r"::(map|map_err|as_ref|as_mut|as_deref|as_deref_mut|copied|cloned|inspect|inspect_err)$"


def derive(fn, prog, facts):
    """Close a fact list under the option/result/bool combinator idioms:
    branch(x) is Continue => x is Ok/Some; ok_or[_else](y) is Ok => y is Some; then[_some](b) is Some => b is true; ..."""
    out = list(facts)
    work = list(facts)
    seen = 0
    while work and seen < 200:
        seen += 1
        f = work.pop()
        new = []
        if f.kind == "variant" and f.allowed is not None and len(f.allowed) == 1 and f.steps and f.steps[-1][0] == "call":
            # only a test of the whole call result (no payload projection) tells something about the call
            if any(pr[0] in ("dc", "f") for st in f.steps for pr in (st[2] if len(st) > 2 else [])):
                continue
            (v,) = tuple(f.allowed)
            c = f.steps[-1][1]
            callee = c.callee or ""
            if re.search(r"Try>::branch$", callee) and c.args:
                x = fn.origin(c.args[0])
                xty = c.targs[0] if c.targs else ""
                head = ty_head(xty)
                if head in ("Result", "Option"):
                    good, bad = ("Ok", "Err") if head == "Result" else ("Some", "None")
                    new.append(Fact("variant", f.sw_bb, place=None, ty=xty, allowed={good if v == "Continue" else bad}, steps=x, excluded=set(), derived="branch"))
            elif re.search(r"Option::<T>::(ok_or|ok_or_else)$", callee) and c.args:
                new.append(Fact("variant", f.sw_bb, place=None, ty="Option", allowed={"Some" if v == "Ok" else "None"}, steps=fn.origin(c.args[0]), excluded=set(), derived="ok_or"))
            elif re.search(r"Result::<T, E>::ok$", callee) and c.args:
                new.append(Fact("variant", f.sw_bb, place=None, ty="Result", allowed={"Ok" if v == "Some" else "Err"}, steps=fn.origin(c.args[0]), excluded=set(), derived="ok"))
            elif re.search(r"bool>::(then_some|then)$", callee) and c.args:
                new += bool_tested(fn, fn.origin(c.args[0]), v == "Some", f.sw_bb)
            elif re.search(SAME_VARIANT, callee) and c.args and re.search(r"core::(option::Option|result::Result)", callee):
                new.append(Fact("variant", f.sw_bb, place=None, ty=f.ty, allowed={v}, steps=fn.origin(c.args[0]), excluded=set(), derived="map"))
        elif f.kind == "boolcall":
            c = f.call
            nm = c.name
            callee = c.callee or ""
            if c.args and re.search(r"core::(option::Option|result::Result)", callee) and nm in ("is_some", "is_none", "is_ok", "is_err"):
                pos, neg = {"is_some": ("Some", "None"), "is_none": ("None", "Some"), "is_ok": ("Ok", "Err"), "is_err": ("Err", "Ok")}[nm]
                new.append(Fact("variant", f.sw_bb, place=None, ty="", allowed={pos if f.truth else neg}, steps=fn.origin(c.args[0]), excluded=set(), derived=nm))
        for n in new:
            out.append(n)
            work.append(n)
    return out


def facts_at(fn, prog, bb):
    """All branch facts established by dominating switch edges of block bb (closed under `derive`)."""
    cache = fn.__dict__.setdefault("_facts_cache", {})
    if bb in cache:
        return cache[bb]
    out = []
    chain = fn.dom_chain(bb)
    for d in chain:
        t = fn.term(d)
        if t["k"] != "switch" or d == bb:
            continue
        by_succ = {}
        for s, lab in fn.succ(d):
            by_succ.setdefault(s, set()).add(lab)
        for s, labs in by_succ.items():
            if fn.edge_dominates(d, s, bb):
                out += edge_facts(fn, prog, d, labs)
    out = derive(fn, prog, out)
    cache[bb] = out
    return out


# ---------------------------------------------------------------------------------------
# operand selection for a sink

def sink_operand(sink, which):
    """the operand of the sink a guard talks about"""
    p = sink.payload
    if sink.kind == "assert":
        ops = p["ops"]
        if sink.what == "BoundsCheck":
            return {"len": ops[0], "index": ops[1]}.get(which)
        if which in ("lhs", "a"):
            return ops[0] if ops else None
        if which in ("rhs", "b"):
            return ops[1] if len(ops) > 1 else None
    if isinstance(p, Call):
        m = re.match(r"arg(\d+)$", which)
        if m:
            i = int(m.group(1))
            return p.args[i] if i < len(p.args) else None
    return None


def leaves(fn, steps, depth=0, expanding=()):
    """expand aggregates (ranges, tuples) and `x + const` / `x - const` into leaf origins:
    -> list of (steps, offset) ; offset is the accumulated constant added to the leaf"""
    if not steps or depth > 4:
        return [(steps, 0)]
    last = steps[-1]
    if last[0] == "agg":
        out = []
        for op in last[1][2]:
            out += leaves(fn, fn.origin(op), depth + 1, expanding)
        return out
    if last[0] == "multi" and not last[2] and last[1] in expanding:
        return [(("self", last[1]), 0)]
    if last[0] == "multi" and not last[2]:
        # a mutable counter: every definition, self-references (x = x - 1) contribute their offset only
        local = last[1]
        expanding = expanding + (local,)
        out = []
        for (dbb, si, dk, payload) in fn.defs().get(local, []):
            if fn.is_cleanup(dbb):
                continue
            if dk == "assign" and not payload["p"][1]:
                r = payload["r"]
                sub = fn.origin(r[1]) if r[0] == "use" else [(r[0], r, [])]
                for st, off in leaves(fn, sub, depth + 1, expanding):
                    if st == ("self", local):
                        out.append((("self",), off))
                    else:
                        out.append((st, off))
            elif dk == "call":
                out.append(([("call", Call(fn, dbb, payload, False), [])], 0))
            else:
                out.append(([("other", payload, [])], 0))
        base = [(st, off) for st, off in out if st != ("self",)]
        selfoffs = [off for st, off in out if st == ("self",)]
        if base:
            lo = min([0] + selfoffs)
            hi = max([0] + selfoffs)
            res = []
            for st, off in base:
                res.append((st, off + lo))
                if hi != lo:
                    res.append((st, off + hi))
            return res
    if last[0] == "bin" and last[1][1] in ("Add", "AddWithOverflow", "AddUnchecked", "Sub", "SubWithOverflow", "SubUnchecked"):
        a, b = fn.origin(last[1][2]), fn.origin(last[1][3])
        sign = 1 if last[1][1].startswith("Add") else -1
        cb = const_int(b[-1][1]) if b and b[-1][0] == "const" else None
        ca = const_int(a[-1][1]) if a and a[-1][0] == "const" else None
        if cb is not None:
            return [(st, off + sign * cb) for st, off in leaves(fn, a, depth + 1, expanding)]
        if ca is not None and sign == 1:
            return [(st, off + ca) for st, off in leaves(fn, b, depth + 1, expanding)]
    return [(steps, 0)]


def origin_matches(fn, steps, spec):
    """does an origin chain end in what `spec` describes?
    spec: {'call': regex [, 'payload': 'Some'] [, 'args': [spec...]]} | {'param': n|True} | {'const': v} | {'len': True}
          | {'constfn': regex}"""
    if not steps:
        return False
    last = steps[-1]
    if spec.get("len"):
        return is_len_origin(fn, steps)
    if "constfn" in spec:
        return last[0] == "const" and re.search(spec["constfn"], last[1].get("fn") or "") is not None
    if "call" in spec:
        if last[0] != "call":
            return False
        c = last[1]
        if not re.search(spec["call"], c.callee or ""):
            return False
        if "payload" in spec:
            want = spec["payload"]
            got = [pr[1] for s in steps for pr in (s[2] if len(s) > 2 else []) if pr[0] == "dc"]
            if want not in got:
                return False
        if "args" in spec:
            for a, sp in zip(c.args, spec["args"]):
                if sp is None:
                    continue
                if not origin_matches(fn, fn.origin(a), sp):
                    return False
        return True
    if "range" in spec:
        # a Range / RangeTo / RangeFrom literal whose bounds match: {"range": {"start": spec, "end": spec}}
        if last[0] != "agg":
            return False
        adt = last[1][1].get("adt", "") or ""
        ops = last[1][2]
        want = spec["range"]
        m = re.search(r"ops::range::(RangeTo|RangeFrom|Range)$", adt)
        if not m:
            return False
        have = {"RangeTo": ("end",), "RangeFrom": ("start",), "Range": ("start", "end")}[m.group(1)]
        if set(have) != set(want):
            return False
        return all(origin_matches(fn, fn.origin(o), want[nm]) for nm, o in zip(have, ops))
    if "param" in spec:
        if last[0] != "arg":
            return False
        if spec["param"] is True:
            ok = True
        else:
            ok = last[1] == spec["param"]
        if ok and spec.get("unmodified"):
            # only copies / reborrows on the way
            return all(s[0] in ("via", "arg") for s in steps)
        return ok
    if "const" in spec:
        return last[0] == "const" and const_int(last[1]) == spec["const"]
    return False


def is_len_origin(fn, steps):
    """value is the length of a slice/str/Vec: `len()` call or PtrMetadata of a slice ref"""
    if not steps:
        return False
    last = steps[-1]
    if last[0] == "call" and last[1].name == "len":
        return True
    if last[0] == "un" and last[1][1] == "PtrMetadata":
        return True
    if last[0] == "other" and isinstance(last[1], list) and last[1] and last[1][0] == "len":
        return True
    return False


def closure_true_needs(prog, fn, call, inner):
    """the closure argument of `call`: every return site that can yield `true` is dominated by `inner`"""
    from . import paths
    cdef = None
    for a in call.args:
        for st in fn.origin(a):
            if st[0] == "agg" and st[1][1].get("k") == "closure":
                cdef = st[1][1]["def"]
    if cdef is None:
        return False, "is not a closure literal whose body can be read"
    cf = prog.fns.get(cdef)
    if cf is None:
        return False, "%s has no analysed body" % cdef
    sites = paths.ret_sites(cf)
    if not sites:
        return False, "has no readable return site"
    n = 0
    for bb, kind, payload in sites:
        if kind == "const" and str(payload.get("v")) == "0":
            continue
        ok, why = verify_with_facts(prog, cf, facts_at(cf, prog, bb), inner)
        if not ok:
            return False, "can return true at %s without the required test (%s)" % (cf.loc(cf.blocks[bb]["t"].get("sp")), why)
        n += 1
    return True, "its predicate closure returns true only under the required test (%d return site(s))" % n


def verify_with_facts(prog, fn, facts, spec):
    return verify(prog, fn, None, None, spec, _facts_override=facts)


def verify(prog, fn, bb, sink, spec, _facts_override=None):
    """-> (ok, how) for one guard specification at a sink (or at an arbitrary block when sink is None)"""
    k = spec["kind"]
    if k == "reason":
        return True, "trusted reason (A5): " + spec.get("reason", "")
    if k == "any":
        hows = []
        for s in spec["of"]:
            ok, how = verify(prog, fn, bb, sink, s, _facts_override)
            if ok:
                return True, how
            hows.append(how)
        return False, " / ".join(hows)
    if k == "accumulated_read_count":
        # the operand (or each bound of the range operand) is a counter c with c = 0 initially and c += n where n is the
        # count returned by reading into buf[c..]: by the read contract n <= len - c, so c <= len is an inductive invariant
        if fn.coroutine and not fn.rec.get("inlined") and not spec.get("_no_inline"):
            # the counter may live in an awaited local async helper (`let n = read_head(..).await`): look at the body with
            # such helpers spliced in (the caller's block numbers are unchanged)
            g = prog.awaited_inlined(fn)
            if g is not fn:
                ok_, how_ = verify(prog, g, bb, sink, dict(spec, _no_inline=True), _facts_override)
                if ok_:
                    return ok_, how_ + " [awaited helpers inlined]"
        ops = []
        for w in spec.get("which", ["arg1", "lhs"]):
            o = sink_operand(sink, w) if sink is not None else None
            if o is not None:
                ops.append(o)
                break
        if not ops:
            return False, "sink has no operand to bound"
        st = fn.origin(ops[0])
        bounds = st[-1][1][2] if st and st[-1][0] == "agg" and re.search(r"ops::range::Range", st[-1][1][1].get("adt", "") or "") else [ops[0]]
        counters = set()
        lower = []  # start bounds that are `counter.saturating_sub(k)`-style values: checked below to be <= the counter
        from . import paths as _paths
        for bi_, b in enumerate(bounds):
            bs = fn.origin(b)
            if bs and bs[-1][0] == "const" and const_int(bs[-1][1]) == 0:
                continue
            if bs and bs[-1][0] == "multi" and not bs[-1][2]:
                cands = [bs[-1][1]]
            else:
                # the value may come out of Option/Result/Poll wrappers built on other paths: every leaf must be the counter
                lv = _paths.leaf_values(fn, b)
                cands = []
                for l in lv:
                    if l[0] == "const" and const_int(l[1]) == 0:
                        continue
                    if l[0] == "place" and not l[2] and l[1] > fn.argc:
                        cands.append(l[1])
                    else:
                        return False, "operand %s is not a plain counter variable" % describe_origin(fn, bs)
                if not cands:
                    continue
            for cnd in cands:
                if len(bounds) == 2 and bi_ == 0:
                    lower.append(cnd)
                else:
                    counters.add(cnd)
        for l in lower:
            if l in counters:
                continue
            for (dbb, si, dk, payload) in fn.defs().get(l, []):
                if fn.is_cleanup(dbb):
                    continue
                ds = fn.origin(payload["r"][1]) if dk == "assign" and payload["r"][0] == "use" and payload["r"][1][0] != "k" else None
                if dk == "assign" and payload["r"][0] == "use" and payload["r"][1][0] == "k" and const_int(payload["r"][1][1]) == 0:
                    continue
                if dk == "call":
                    ds = [("call", Call(fn, dbb, payload, False), [])]
                if ds and ds[-1][0] == "call" and ds[-1][1].name == "saturating_sub" and ds[-1][1].args:
                    a0 = fn.origin(ds[-1][1].args[0])
                    if a0 and a0[-1][0] == "multi" and a0[-1][1] in counters:
                        continue
                return False, "the start of the range is not 0 or counter.saturating_sub(k)"
        if len(counters) != 1:
            return False, "operand bounds are not one counter"
        (c,) = tuple(counters)
        nreads = 0
        for (dbb, si, dk, payload) in fn.defs().get(c, []):
            if fn.is_cleanup(dbb):
                continue
            if dk != "assign" or payload["p"][1]:
                return False, "counter _%d is defined by something else than an assignment" % c
            r = payload["r"]
            if r[0] == "use" and r[1][0] == "k" and const_int(r[1][1]) == 0:
                continue
            ds = fn.origin(r[1]) if r[0] == "use" else [(r[0], r, [])]
            last = ds[-1] if ds else None
            if last is None or last[0] != "bin" or not last[1][1].startswith("Add"):
                return False, "counter _%d is assigned something else than 0 or counter + n" % c
            a, b = fn.origin(last[1][2]), fn.origin(last[1][3])
            if a and a[-1][0] == "multi" and a[-1][1] == c:
                other = b
            elif b and b[-1][0] == "multi" and b[-1][1] == c:
                other = a
            else:
                return False, "counter _%d is not incremented from itself" % c
            if not origin_matches(fn, other, {"call": spec.get("count_call", r"Future>?::poll$"), "payload": "Ok"}):
                # the count may be bound in several match arms: every value it can hold must be the Ok payload of the poll
                oop = last[1][3] if other is b else last[1][2]
                lv = _paths.leaf_values(fn, oop)
                good = bool(lv) and all(l[0] == "call" and re.search(spec.get("count_call", r"Future>?::poll$"), l[1].callee or l[1].decl or "") and any(pr[0] == "dc" and pr[1] == "Ok" for pr in l[2]) for l in lv)
                if not good:
                    return False, "the increment of counter _%d is not the count a read returned (%s)" % (c, describe_origin(fn, other))
            nreads += 1
        # every stream read of the function writes behind the counter: read(&mut buf[c..])
        rds = [x for x in fn.calls() if re.search(spec.get("read_call", r"(AsyncReadExt|ReadExt|AsyncRead)::read$"), x.callee or "") or re.search(spec.get("read_call", r"(AsyncReadExt|ReadExt|AsyncRead)::read$"), x.decl or "")]
        if not rds:
            return False, "no stream read found"
        for x in rds:
            bs = fn.origin(x.args[1]) if len(x.args) > 1 else None
            call = bs[-1][1] if bs and bs[-1][0] == "call" else None
            okb = False
            if call is not None and call.name in ("index_mut", "get_unchecked_mut") and len(call.args) > 1:
                rs = fn.origin(call.args[1])
                if rs and rs[-1][0] == "agg" and re.search(r"ops::range::RangeFrom$", rs[-1][1][1].get("adt", "") or ""):
                    o = fn.origin(rs[-1][1][2][0])
                    okb = bool(o) and o[-1][0] == "multi" and o[-1][1] == c
            if not okb and call is not None and call.name in ("split_at_mut", "split_at_mut_unchecked", "split_at_mut_checked") and len(call.args) > 1:
                # `let (filled, vacant) = buf.split_at_mut(c); read(vacant)`: the second half starts at the counter
                projs = bs[-1][2] if len(bs[-1]) > 2 else []
                o = fn.origin(call.args[1])
                okb = any(pr[0] == "f" and pr[1] == 1 for pr in projs) and bool(o) and o[-1][0] == "multi" and o[-1][1] == c
            if not okb:
                return False, "a stream read does not write into buf[counter..]"
        return True, "counter _%d is 0 or the sum of counts of reads into buf[counter..] (%d increment(s)): counter <= buf.len() by the read contract" % (c, nreads)
    if k == "all":
        hows = []
        for s in spec["of"]:
            ok, how = verify(prog, fn, bb, sink, s, _facts_override)
            if not ok:
                return False, how
            hows.append(how)
        return True, "; ".join(hows)
    facts = _facts_override if _facts_override is not None else facts_at(fn, prog, bb)
    if k == "cmp":
        # a dominating comparison `x OP const` (normalised so the constant is on the right)
        want_op = spec["op"]
        for f in facts:
            if f.kind != "cmp":
                continue
            op, lhs, rhs = f.op, f.lhs, f.rhs
            cr = const_int(rhs[-1][1]) if rhs and rhs[-1][0] == "const" else None
            cl = const_int(lhs[-1][1]) if lhs and lhs[-1][0] == "const" else None
            if cr is None and cl is not None:
                op, lhs, rhs, cr = FLIP[op], rhs, lhs, cl
            if "const" in spec:
                if cr is None:
                    continue
                c = spec["const"]
                # x >= c+1 implies x >= c ; x > c implies x >= c+1 ...
                implied = False
                if want_op == "Ge":
                    implied = (op == "Ge" and cr >= c) or (op == "Gt" and cr >= c - 1) or (op == "Eq" and cr >= c)
                elif want_op == "Gt":
                    implied = (op == "Gt" and cr >= c) or (op == "Ge" and cr >= c + 1) or (op == "Eq" and cr > c)
                elif want_op == "Le":
                    implied = (op == "Le" and cr <= c) or (op == "Lt" and cr <= c + 1) or (op == "Eq" and cr <= c)
                elif want_op == "Lt":
                    implied = (op == "Lt" and cr <= c) or (op == "Le" and cr <= c - 1) or (op == "Eq" and cr < c)
                elif want_op == "Eq":
                    implied = op == "Eq" and cr == c
                elif want_op == "Ne":
                    implied = (op == "Ne" and cr == c) or (op == "Gt" and cr >= c) or (op == "Lt" and cr <= c)
                if not implied:
                    continue
                if spec.get("lhs_len") and not is_len_origin(fn, lhs):
                    continue
                if "lhs" in spec and not origin_matches(fn, lhs, spec["lhs"]):
                    continue
                return True, "dominated by `%s %s %d` (switch in bb%d)" % (describe_origin(fn, lhs), op, cr, f.sw_bb)
            else:
                # comparison between two non-constant operands
                if op != want_op and FLIP[op] != want_op:
                    continue
                a, b = (lhs, rhs) if op == want_op else (rhs, lhs)
                if "lhs" in spec and not origin_matches(fn, a, spec["lhs"]):
                    continue
                if "rhs" in spec and not origin_matches(fn, b, spec["rhs"]):
                    continue
                if spec.get("lhs_len") and not is_len_origin(fn, a):
                    continue
                if spec.get("rhs_len") and not is_len_origin(fn, b):
                    continue
                if "lhs_var" in spec and not re.search(spec["lhs_var"], describe_origin(fn, a)):
                    continue
                if "rhs_var" in spec and not re.search(spec["rhs_var"], describe_origin(fn, b)):
                    continue
                return True, "dominated by `%s %s %s` (switch in bb%d)" % (describe_origin(fn, a), want_op, describe_origin(fn, b), f.sw_bb)
        return False, "no dominating comparison %s %s" % (want_op, spec.get("const", ""))
    if k == "variant":
        for f in facts:
            if f.kind != "variant" or f.allowed is None:
                continue
            if f.allowed != {spec["variant"]}:
                continue
            if "of" in spec and not origin_matches(fn, f.steps, spec["of"]):
                continue
            if "of_desc" in spec and not re.search(spec["of_desc"], describe_origin(fn, f.steps)):
                continue
            return True, "dominated by the `%s` edge of a match on %s (bb%d)" % (spec["variant"], describe_origin(fn, f.steps), f.sw_bb)
        return False, "no dominating `%s` edge%s" % (spec["variant"], (" of " + str(spec.get("of") or spec.get("of_desc"))) if (spec.get("of") or spec.get("of_desc")) else "")
    if k == "boolcall":
        for f in facts:
            if f.kind == "boolcall" and f.truth == spec.get("truth", True) and re.search(spec["call"], f.call.callee or ""):
                extra = ""
                if "closure_true_needs" in spec:
                    # the predicate closure handed to the call may answer `true` only where the inner guard holds
                    ok, why = closure_true_needs(prog, fn, f.call, spec["closure_true_needs"])
                    if not ok:
                        return False, "`%s` is tested, but its predicate closure %s" % (f.call.name, why)
                    extra = "; " + why
                return True, "dominated by `%s` == %s (bb%d)%s" % (f.call.name, f.truth, f.sw_bb, extra)
        return False, "no dominating %s edge of a call matching /%s/" % (spec.get("truth", True), spec["call"])
    if k == "int":
        for f in facts:
            if f.kind != "int":
                continue
            if f.values is not None and f.values <= set(spec["values"]):
                if "of" in spec and not origin_matches(fn, f.steps, spec["of"]):
                    continue
                return True, "dominated by an integer match restricting the value to %s (bb%d)" % (sorted(f.values), f.sw_bb)
        return False, "no dominating integer match restricting the value to %s" % (spec["values"],)
    if k == "operand":
        op = sink_operand(sink, spec["which"])
        if op is None:
            return False, "sink has no operand `%s`" % spec["which"]
        steps = fn.origin(op)
        if spec.get("len"):
            if is_len_origin(fn, steps):
                return True, "operand %s is a length (%s)" % (spec["which"], describe_origin(fn, steps))
            return False, "operand %s is not a length: %s" % (spec["which"], describe_origin(fn, steps))
        if "max_offset" in spec:
            lv = [(st, off) for st, off in leaves(fn, steps) if not (st and st[-1][0] == "const")]
            if lv and all(origin_matches(fn, st, spec["from"]) and spec.get("min_offset", 0) <= off <= spec["max_offset"] for st, off in lv):
                steps = lv[0][0]
            else:
                return False, "operand %s: leaves %s do not all derive from %s (+<=%d)" % (spec["which"], [(describe_origin(fn, st), off) for st, off in lv], spec["from"], spec["max_offset"])
        via_leaves = False
        if not origin_matches(fn, steps, spec["from"]) and "call" in spec["from"] and op[0] in ("c", "m"):
            # the value may be bound in several match arms and handed on in a tuple (`let (n, ..) = match .. { Some(n) => (n, ..) }`):
            # every value the operand can hold must be of the required origin
            from . import paths as _paths
            lv = _paths.leaf_values(fn, op)
            if lv and all(l[0] == "call" and origin_matches(fn, [("call", l[1], l[2])], spec["from"]) for l in lv):
                steps = [("call", lv[0][1], lv[0][2])]
                via_leaves = True
        if origin_matches(fn, steps, spec["from"]):
            how = "operand %s derives from %s" % (spec["which"], describe_origin(fn, steps))
            # (a payload bound inside match arms and handed on -- the leaf_values case -- was read under its edge there)
            if spec.get("dominated", True) and "payload" in spec["from"] and not via_leaves:
                # the payload is only meaningful under the variant edge
                ok = False
                for f in facts:
                    if f.kind == "variant" and f.allowed == {spec["from"]["payload"]} and origin_matches(fn, f.steps, {"call": spec["from"]["call"]}):
                        ok = True
                if not ok:
                    # binding through `if let`/`match` always sits under the edge; a raw downcast read does not
                    return False, how + " but is not under the `%s` edge" % spec["from"]["payload"]
            return True, how
        return False, "operand %s derives from %s, expected %s" % (spec["which"], describe_origin(fn, steps), spec["from"])
    if k == "sibling":
        # the precondition is established in another function, at the call that hands the value out
        fs = prog.find(spec["fn"])
        if not fs:
            return False, "sibling function /%s/ not found" % spec["fn"]
        hows = []
        for g in fs:
            cs = g.calls_to(spec["at_call"])
            if not cs:
                # the call may have moved into a local helper of the sibling
                g2 = prog.inlined(g, 2, spec["at_call"])
                if g2 is not g and g2.calls_to(spec["at_call"]):
                    g = g2
                    cs = g.calls_to(spec["at_call"])
            if not cs:
                return False, "sibling %s has no call matching /%s/" % (g.key, spec["at_call"])
            for c in cs:
                ok, how = verify(prog, g, c.bb, None, spec["guard"])
                if not ok and spec["guard"].get("kind") == "variant_not":
                    # the test may sit in a small helper (`let Some(key) = self.state.key() else { return .. }`): with such
                    # helpers spliced in, every self-consistent path to the call must have switched on the value and taken
                    # an edge other than the excluded variant
                    from . import inline as _inline, pathsens as _pathsens
                    view = _inline.inline(prog, g, 1, lambda caller, cal: cal.crate == caller.crate and not cal.unsafe and len(cal.blocks) <= 24)
                    if view is not g:
                        arr = _pathsens.arrivals(view, prog, c.bb)
                        rx = spec["guard"].get("of_desc", ".")
                        good = bool(arr) and all(any(re.search(rx, d) and nm not in (spec["guard"]["variant"], "otherwise") for d, nm in a.items()) for a in arr)
                        if good:
                            ok, how = True, "every self-consistent path to the call has matched the value against a variant other than `%s` (helpers inlined, %d arrival state(s))" % (spec["guard"]["variant"], len(arr))
                if not ok:
                    return False, "in sibling %s: %s" % (g.key, how)
                hows.append(how)
        return True, "precondition established in %s: %s" % (fs[0].name, hows[0])
    if k == "variant_not":
        for f in facts:
            if f.kind == "variant" and f.allowed is not None and spec["variant"] not in f.allowed:
                if "of_desc" in spec and not re.search(spec["of_desc"], describe_origin(fn, f.steps)):
                    continue
                return True, "dominated by a match edge that excludes `%s` (allowed %s, bb%d)" % (spec["variant"], sorted(map(str, f.allowed)), f.sw_bb)
        return False, "no dominating match edge excluding `%s`" % spec["variant"]
    if k == "oneof_exhaustive":
        # `_ => unreachable` of a match on the index returned by consume_oneof([..; N]): arms 0..N-1 listed
        for f in facts:
            if f.kind != "int" or f.excluded is None:
                continue
            if not origin_matches(fn, f.steps, {"call": spec["call"], "payload": "Some"}):
                continue
            c = f.steps[-1][1]
            n = None
            for t in c.targs:
                if re.fullmatch(r"\d+(_usize)?", t or ""):
                    n = int(t.split("_")[0])
            if n is not None and f.excluded == set(range(n)):
                return True, "on the `_` edge of a match listing all %d indices of %s (bb%d)" % (n, c.name, f.sw_bb)
        return False, "not on the residual edge of an exhaustive index match of /%s/" % spec["call"]
    if k == "lazy_then":
        # the sink sits in a closure that is only run by `bool::then` on a receiver for which `guard` holds
        if not fn.parent or fn.parent not in prog.fns:
            return False, "not in a closure"
        par = prog.fns[fn.parent]
        for c in par.calls():
            if not re.search(spec.get("callee", r"core::bool::<impl bool>::then$"), c.callee or ""):
                continue
            hit = False
            for a in c.args:
                st = par.origin(a)
                if st and st[-1][0] == "agg" and st[-1][1][1].get("def") == fn.key:
                    hit = True
            if not hit:
                continue
            recv = par.origin(c.args[0])
            fs = bool_tested(par, recv, True, c.bb)
            ok, how = verify_with_facts(prog, par, fs, spec["guard"])
            if ok:
                return True, "closure runs only under bool::then of a receiver with: " + how
            return False, "closure is passed to bool::then but the receiver does not establish the guard: " + how
        return False, "closure is not the argument of bool::then"
    if k == "fnptr_param":
        # an indirect call through a fn-pointer parameter: every caller passes a named function matching the regex
        rootk = fn.root or fn.key
        callers = prog.callers().get(rootk, [])
        if not callers:
            return False, "no caller of %s found" % rootk
        names = set()

        def passed(callee_key, param, depth):
            """every caller passes a named function matching the regex -- or hands on its own fn-pointer parameter, in which
            case its callers are asked (a non-public helper, bounded depth)"""
            cs_ = prog.callers().get(callee_key, [])
            if not cs_:
                return False, "no caller of %s found" % callee_key
            for c in cs_:
                a = c.args[param] if param < len(c.args) else None
                st = c.fn.origin(a) if a is not None else None
                if st and st[-1][0] == "const" and re.search(spec["callee"], st[-1][1].get("fn") or ""):
                    names.add(st[-1][1]["fn"].rsplit("::", 1)[-1])
                    continue
                if st and st[-1][0] == "arg" and not st[-1][2] and all(x[0] in ("via", "arg") for x in st) and depth > 0 and not c.fn.pub:
                    okr, howr = passed(c.fn.root or c.fn.key, st[-1][1] - 1, depth - 1)
                    if okr:
                        continue
                    return False, howr
                return False, "caller %s passes %s" % (c.fn.key, describe_origin(c.fn, st))
            return True, ""
        okp, howp = passed(rootk, spec["param"], 2)
        if not okp:
            return False, howp
        return True, "all callers (directly or through a helper that hands its parameter on) pass a function matching /%s/ (%s)" % (spec["callee"], ", ".join(sorted(names)))
    if k == "rejects":
        # a validation branch: on the edge where `x OP const` holds, the sink is unreachable
        want = spec["cmp"]
        for d in sorted(fn.live_blocks()):
            t = fn.term(d)
            if t["k"] != "switch":
                continue
            by_succ = {}
            for sx, lab in fn.succ(d):
                by_succ.setdefault(sx, set()).add(lab)
            for sx, labs in by_succ.items():
                for f in edge_facts(fn, prog, d, labs):
                    if f.kind != "cmp":
                        continue
                    ok, how = verify_with_facts(prog, fn, [f], dict(want, kind="cmp"))
                    if ok and bb not in fn.reachable_from(sx):
                        return True, "validation: once `%s`, the operation is unreachable (switch bb%d)" % (how.replace("dominated by ", ""), d)
        return False, "no validation branch rejecting `%s %s`" % (want.get("op"), want.get("const"))
    if k == "enum_index":
        # IndexMap<N, V>::op(self, E as usize): E is an enum with <= N variants
        op = sink_operand(sink, spec["which"])
        c = sink.payload
        steps = fn.origin(op) if op is not None else None
        ety = None
        if steps:
            last = steps[-1]
            if last[0] == "discr":
                ety = fn.place_ty(last[1])
            else:
                # `copy _x as usize (IntToInt)` directly on the enum local
                for st in steps:
                    if st[0] == "via" and st[1][0].startswith("cast:IntToInt"):
                        ety = fn.place_ty(st[1][1])
                if ety is None and last[0] in ("arg", "multi", "call"):
                    ety = None
        if ety is None:
            return False, "index operand is not an enum discriminant cast (%s)" % describe_origin(fn, steps)
        names = prog.variant_names(ety)
        recv_ty = fn.place_ty(op_place(c.args[0])) if op_place(c.args[0]) is not None else ""
        rsteps = fn.origin(c.args[0])
        n = None
        for cand in [recv_ty] + [fn.place_ty(s[1][1]) for s in rsteps if s[0] == "via"] + c.targs:
            m = re.search(r"IndexMap<(\d+)(_usize)?,", cand or "")
            if m:
                n = int(m.group(1))
                break
        if n is None and c.targs and re.fullmatch(r"\d+(_usize)?", c.targs[0] or ""):
            n = int(c.targs[0].split("_")[0])
        if not names or n is None:
            return False, "cannot determine variant count of %s (%d) or N of the map (%s)" % (ety, len(names), n)
        if len(names) <= n:
            return True, "index = `%s as usize`, %d variants <= N = %d" % (ety.rsplit("::", 1)[-1], len(names), n)
        return False, "enum %s has %d variants but the map has N = %d slots" % (ety, len(names), n)
    if k == "range_index":
        # `for i in 0..N { .. op(i) }`: the index is the payload of Range::next
        op = sink_operand(sink, spec["which"])
        steps = fn.origin(op) if op is not None else None
        if steps and steps[-1][0] == "call" and re.search(r"Iterator for core::ops::range::Range<A>>::next$|Range<.*Iterator>::next$", steps[-1][1].callee or ""):
            return True, "index is produced by a Range iterator (loop index)"
        return False, "index is not a range loop variable (%s)" % describe_origin(fn, steps)
    if k == "route_limit":
        # Router::finalize refuses (panics on) a route whose number of `:param` segments exceeds Params::LIMIT
        lim = [c for kk, c in prog.consts.items() if kk.endswith("path::Params::LIMIT")]
        limit = const_int(lim[0]) if lim else None
        for c in fn.calls():
            if not (re.search(r"core::panicking::", c.callee or "") and ("assert" in c.mx or "panic" in c.mx)):
                continue
            for f in facts_at(fn, prog, c.bb):
                if f.kind != "cmp":
                    continue
                a, b = f.lhs, f.rhs
                da, db = describe_origin(fn, a), describe_origin(fn, b)
                for x, y, op in ((a, b, f.op), (b, a, FLIP[f.op])):
                    if x and x[-1][0] == "call" and x[-1][1].name == "n_params" and "RouteSegments" in (x[-1][1].callee or "") and y and y[-1][0] == "const":
                        cv = const_int(y[-1][1])
                        # the panic is reached when n_params > LIMIT (or >= LIMIT + 1)
                        if limit is not None and ((op == "Gt" and cv == limit) or (op == "Ge" and cv == limit + 1)):
                            if bb is None or not fn.dominates(bb, c.bb):
                                return True, "finalize() panics when route.n_params() > %d = Params::LIMIT, before the final router is built" % limit
        return False, "Router::finalize does not refuse routes with more than Params::LIMIT (%s) `:param` segments" % limit
    if k == "utf8_checked":
        # on every path to this block a from_utf8-style validation (regex `call`) succeeded
        rx = spec.get("call", r"core::str::converts::from_utf8$")
        n = 0
        for f in facts:
            if f.kind == "variant" and f.allowed in ({"Ok"}, {"Continue"}) and f.steps and f.steps[-1][0] == "call" and re.search(rx, f.steps[-1][1].callee or ""):
                if not any(pr[0] in ("dc", "f") for st in f.steps for pr in (st[2] if len(st) > 2 else [])):
                    n += 1
        if n >= spec.get("min", 1):
            return True, "dominated by %d successful /%s/ validation(s)" % (n, rx.rsplit("::", 1)[-1])
        return False, "not dominated by a successful /%s/ validation (found %d, need %d)" % (rx, n, spec.get("min", 1))
    if k == "const_ascii":
        op = sink_operand(sink, spec["which"])
        steps = fn.origin(op) if op is not None else None
        if steps and steps[-1][0] == "const" and "b" in steps[-1][1] and all(x < 128 for x in steps[-1][1]["b"]):
            return True, "operand is the ASCII literal %r" % steps[-1][1].get("s")
        return False, "operand is not an ASCII byte-string literal (%s)" % describe_origin(fn, steps)
    if k == "in_unsafe_fn":
        if fn.unsafe:
            return True, "inside `unsafe fn %s`: obligation moves to its call sites" % fn.name
        return False, "not inside an unsafe fn"
    if k == "macro":
        if sink is not None and any(m in spec["names"] for m in sink.mx):
            return True, "expansion of %s" % "/".join(spec["names"])
        return False, "not from macro %s" % spec["names"]
    return False, "unknown guard kind %s" % k
