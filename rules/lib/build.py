"""Fact extraction driver: hashes /repo's working tree, runs the mirfacts driver under
cargo +nightly check for a named configuration, and caches the fact files per tree hash.
Nothing here executes ohkami code; cargo only type-checks it (`cargo check`)."""
import fcntl
import hashlib
import json
import os
import pickle
import shutil
import subprocess
import sys
import time

VERIF = os.path.dirname(os.path.dirname(os.path.dirname(os.path.abspath(__file__))))
REPO = os.environ.get("VERIF_REPO", "/repo")
CACHE = os.path.join(VERIF, ".cache")
DRIVER = os.path.join(VERIF, "engine", "mirfacts", "target", "release", "mirfacts")
MEMBERS = ["ohkami", "ohkami_lib", "ohkami_macros", "ohkami_openapi"]

# name -> (cargo args, extra rustflags, member crates expected in the output)
CONFIGS = {
    # the main configuration: native runtime (tokio) with every optional subsystem the properties touch
    "A": (["-p", "ohkami", "--lib", "--features", "rt_tokio,sse,ws,openapi"], "", MEMBERS),
    # same, release-like: debug assertions off (cfg(not(debug_assertions)) code, no overflow asserts)
    "R": (["-p", "ohkami", "--lib", "--features", "rt_tokio,sse,ws,openapi"], "-C debug-assertions=off -C overflow-checks=off", MEMBERS),
    # other runtimes (shutdown handshake and session loop differ per runtime)
    "ASYNCSTD": (["-p", "ohkami", "--lib", "--features", "rt_async-std,sse,ws,openapi"], "", MEMBERS),
    "SMOL": (["-p", "ohkami", "--lib", "--features", "rt_smol,sse,ws,openapi"], "", MEMBERS),
    "NIO": (["-p", "ohkami", "--lib", "--features", "rt_nio,sse,ws,openapi"], "", MEMBERS),
    "GLOMMIO": (["-p", "ohkami", "--lib", "--features", "rt_glommio,sse,ws,openapi"], "", MEMBERS),
    # without openapi (cfg(not(feature = "openapi")) variants of the handler plumbing)
    "NOAPI": (["-p", "ohkami", "--lib", "--features", "rt_tokio,sse,ws"], "", [m for m in MEMBERS if m != "ohkami_openapi"]),
}


def sysroot():
    return subprocess.check_output(["rustc", "+nightly", "--print", "sysroot"], text=True).strip()


def tree_hash(repo=REPO):
    """Hash of the content of every file cargo would read for the workspace members."""
    h = hashlib.sha256()
    roots = [os.path.join(repo, m) for m in MEMBERS]
    files = [os.path.join(repo, "Cargo.toml"), os.path.join(repo, "Cargo.lock")]
    for r in roots:
        for dp, dn, fn in os.walk(r):
            dn[:] = sorted(d for d in dn if d not in ("target", ".git"))
            for f in sorted(fn):
                if f.endswith((".rs", ".toml", ".md", ".lock", ".json", ".txt", ".html")) or "." not in f:
                    files.append(os.path.join(dp, f))
    for f in files:
        try:
            with open(f, "rb") as fh:
                data = fh.read()
        except OSError:
            continue
        h.update(os.path.relpath(f, repo).encode())
        h.update(b"\0")
        h.update(hashlib.sha256(data).digest())
    # the driver itself is part of the key: a rebuilt driver must not reuse old facts
    try:
        st = os.stat(DRIVER)
        h.update(("drv:%d:%d" % (st.st_size, int(st.st_mtime))).encode())
    except OSError:
        pass
    return h.hexdigest()[:20]


def _tag():
    """developer tools that analyse several scratch copies at once (bin/vselftest-par) give each worker its own cargo target
    directory and lock; the registered checks never set this"""
    t = os.environ.get("VERIF_TARGET_TAG", "")
    return ("." + t) if t else ""


class BuildError(Exception):
    pass


def ensure_driver():
    if os.path.exists(DRIVER):
        return
    d = os.path.join(VERIF, "engine", "mirfacts")
    env = dict(os.environ, CARGO_NET_OFFLINE="true")
    r = subprocess.run(["cargo", "build", "--release", "--offline"], cwd=d, env=env, capture_output=True, text=True)
    if r.returncode != 0:
        raise BuildError("driver build failed:\n" + r.stderr[-4000:])


def facts_dir(thash, config):
    return os.path.join(CACHE, "facts", thash, config)


def ensure_facts(config, thash=None, repo=REPO, verbose=False):
    """Returns the directory holding <crate>.jsonl for this tree state and configuration."""
    ensure_driver()
    thash = thash or tree_hash(repo)
    out = facts_dir(thash, config)
    stamp = os.path.join(out, "OK")
    if os.path.exists(stamp):
        return out
    os.makedirs(os.path.join(CACHE, "locks"), exist_ok=True)
    lock = open(os.path.join(CACHE, "locks", config + _tag() + ".lock"), "w")
    fcntl.flock(lock, fcntl.LOCK_EX)
    try:
        if os.path.exists(stamp):
            return out
        t0 = time.time()
        if os.path.exists(out):
            shutil.rmtree(out)
        os.makedirs(out)
        cargo_args, extra_flags, members = CONFIGS[config]
        target = os.path.join(CACHE, "target-" + config + _tag())
        # cargo's freshness cache would skip the wrapper: forget the member crates
        fp = os.path.join(target, "debug", ".fingerprint")
        if os.path.isdir(fp):
            for d in os.listdir(fp):
                if any(d.startswith(m + "-") for m in MEMBERS):
                    shutil.rmtree(os.path.join(fp, d), ignore_errors=True)
        env = dict(os.environ)
        env.update(
            LD_LIBRARY_PATH=os.path.join(sysroot(), "lib"),
            RUSTFLAGS=("-Zmir-opt-level=0 -Awarnings " + extra_flags).strip(),
            RUSTC_WORKSPACE_WRAPPER=DRIVER,
            MIRFACTS_OUT=out,
            MIRFACTS_ROOT=repo,
            MIRFACTS_TREE=thash,
            CARGO_TARGET_DIR=target,
            CARGO_NET_OFFLINE="true",
            CARGO_INCREMENTAL="0",
        )
        env.pop("RUSTC_WRAPPER", None)
        cmd = ["cargo", "+nightly", "check", "--offline"] + cargo_args
        r = subprocess.run(cmd, cwd=repo, env=env, capture_output=True, text=True)
        log = os.path.join(out, "cargo.log")
        with open(log, "w") as fh:
            fh.write(" ".join(cmd) + "\n" + r.stdout + r.stderr)
        if r.returncode != 0:
            raise BuildError("cargo check failed for config %s (log: %s)\n%s" % (config, log, r.stderr[-3000:]))
        for m in members:
            f = os.path.join(out, m + ".jsonl")
            if not os.path.exists(f):
                raise BuildError("fact file missing for crate %s in config %s (cargo skipped the driver?)" % (m, config))
            with open(f) as fh:
                last = None
                for last in fh:
                    pass
            meta = json.loads(last)
            if meta.get("k") != "meta" or meta.get("tree") != thash:
                raise BuildError("fact file for %s does not carry tree hash %s" % (m, thash))
        with open(stamp, "w") as fh:
            fh.write("%.1f\n" % (time.time() - t0))
        if verbose:
            print("facts[%s] built in %.1fs -> %s" % (config, time.time() - t0, out), file=sys.stderr)
        if not os.environ.get("VERIF_NO_GC"):
            _gc(thash)
        return out
    finally:
        fcntl.flock(lock, fcntl.LOCK_UN)
        lock.close()


def _gc(keep):
    """Keep the fact caches of the 16 most recent tree states."""
    base = os.path.join(CACHE, "facts")
    try:
        ds = [(os.path.getmtime(os.path.join(base, d)), d) for d in os.listdir(base)]
    except OSError:
        return
    ds.sort(reverse=True)
    for _, d in ds[16:]:
        if d != keep:
            shutil.rmtree(os.path.join(base, d), ignore_errors=True)


def load_records(config, thash=None, repo=REPO):
    d = ensure_facts(config, thash, repo)
    pk = os.path.join(d, "facts.pickle")
    if os.path.exists(pk):
        try:
            with open(pk, "rb") as fh:
                return pickle.load(fh)
        except Exception:
            pass
    recs = []
    for m in CONFIGS[config][2]:
        with open(os.path.join(d, m + ".jsonl")) as fh:
            for line in fh:
                recs.append(json.loads(line))
    tmp = pk + ".tmp%d" % os.getpid()
    with open(tmp, "wb") as fh:
        pickle.dump(recs, fh, protocol=pickle.HIGHEST_PROTOCOL)
    os.replace(tmp, pk)
    return recs


SHIMS = os.path.join(VERIF, "engine", "shims")


def shim_records():
    """fact records of engine/shims (reference bodies of std's closure-taking combinators), produced by the same driver;
    cached by the content of the shim source and the driver's identity"""
    ensure_driver()
    h = hashlib.sha256()
    for rel in ("Cargo.toml", os.path.join("src", "lib.rs")):
        with open(os.path.join(SHIMS, rel), "rb") as fh:
            h.update(fh.read())
    st = os.stat(DRIVER)
    h.update(("drv:%d:%d" % (st.st_size, int(st.st_mtime))).encode())
    key = h.hexdigest()[:20]
    out = os.path.join(CACHE, "shims", key)
    f = os.path.join(out, "vshims.jsonl")
    if not os.path.exists(os.path.join(out, "OK")):
        os.makedirs(os.path.join(CACHE, "locks"), exist_ok=True)
        lock = open(os.path.join(CACHE, "locks", "shims.lock"), "w")
        fcntl.flock(lock, fcntl.LOCK_EX)
        try:
            if not os.path.exists(os.path.join(out, "OK")):
                if os.path.exists(out):
                    shutil.rmtree(out)
                os.makedirs(out)
                target = os.path.join(out, "target")     # fresh: cargo must not skip the wrapper
                env = dict(os.environ)
                env.update(LD_LIBRARY_PATH=os.path.join(sysroot(), "lib"), RUSTFLAGS="-Zmir-opt-level=0 -Awarnings", RUSTC_WORKSPACE_WRAPPER=DRIVER,
                           MIRFACTS_OUT=out, MIRFACTS_ROOT=SHIMS, MIRFACTS_TREE="shims-" + key, CARGO_TARGET_DIR=target, CARGO_NET_OFFLINE="true", CARGO_INCREMENTAL="0")
                env.pop("RUSTC_WRAPPER", None)
                r = subprocess.run(["cargo", "+nightly", "check", "--offline", "--manifest-path", os.path.join(SHIMS, "Cargo.toml")], cwd=SHIMS, env=env, capture_output=True, text=True)
                if r.returncode != 0 or not os.path.exists(f):
                    raise BuildError("cargo check of engine/shims failed\n" + r.stderr[-3000:])
                shutil.rmtree(target, ignore_errors=True)
                with open(os.path.join(out, "OK"), "w") as fh:
                    fh.write("ok\n")
                # older shim caches
                base = os.path.join(CACHE, "shims")
                for d in os.listdir(base):
                    if d != key:
                        shutil.rmtree(os.path.join(base, d), ignore_errors=True)
        finally:
            fcntl.flock(lock, fcntl.LOCK_UN)
            lock.close()
    recs = []
    with open(f) as fh:
        for line in fh:
            recs.append(json.loads(line))
    return recs
