"""Virtual inlining of local helper functions on the fact level.

Rules are intra-procedural. A behaviour-preserving `extract function` refactoring moves the statements a rule reads
into a helper; to keep deciding the same clause the rule can ask for the anchor function *with its local, synchronous,
non-recursive callees spliced in* (bounded depth and size). The result is an ordinary mir.Fn: callee locals are
renumbered behind the caller's, its parameters become assignments from the call's arguments, its `return`s become
`dest = result; goto target`, and spans keep pointing into the callee's file.

Not inlined: callees outside the analysed crates, coroutine/closure-constructor results (async helpers are followed by the
rules through `paths.root_call` instead), recursive calls, calls in cleanup blocks."""
import copy

from .mir import Fn

MAX_BLOCKS = 3000


def _is_place(x):
    return isinstance(x, list) and len(x) == 2 and isinstance(x[0], int) and not isinstance(x[0], bool) and isinstance(x[1], list) \
        and all(isinstance(p, list) and p and isinstance(p[0], str) for p in x[1])


def _remap(x, lmap, file_prefix, place_hook=None):
    """deep copy of a fact structure with locals renumbered (places and index projections) and spans made absolute"""
    if _is_place(x):
        if place_hook is not None:
            hp = place_hook(x)
            if hp is not None:
                return hp
        projs = []
        for p in x[1]:
            if p[0] == "i" and len(p) > 1 and isinstance(p[1], int):
                projs.append(["i", lmap(p[1])] + [_remap(y, lmap, file_prefix, place_hook) for y in p[2:]])
            else:
                projs.append(copy.copy(p))
        return [lmap(x[0]), projs]
    if isinstance(x, list):
        return [_remap(y, lmap, file_prefix, place_hook) for y in x]
    if isinstance(x, dict):
        out = {}
        for k, v in x.items():
            if k == "sp" and isinstance(v, str) and file_prefix and v.count(":") == 1:
                out[k] = file_prefix + ":" + v
            else:
                out[k] = _remap(v, lmap, file_prefix, place_hook)
        return out
    return x


def _retarget(t, bmap, unwind_to):
    """renumber the block references of a (copied) terminator"""
    for k in ("target", "otherwise", "imaginary", "drop", "resume"):
        if isinstance(t.get(k), int) and not isinstance(t.get(k), bool):
            t[k] = bmap(t[k])
    if "targets" in t and isinstance(t["targets"], list):
        t["targets"] = [[v, bmap(b)] if isinstance(b, int) else [v, b] for v, b in t["targets"]] if t["k"] == "switch" else [bmap(b) if isinstance(b, int) else b for b in t["targets"]]
    if isinstance(t.get("unwind"), int) and not isinstance(t.get("unwind"), bool):
        t["unwind"] = bmap(t["unwind"])
    elif t.get("unwind") == "continue" and unwind_to is not None:
        t["unwind"] = unwind_to
    return t


def inline(prog, fn, depth=2, accept=None, _stack=(), resolve=None):
    """-> mir.Fn with eligible callees spliced in (or `fn` itself when nothing was inlined).
    `resolve(terminator) -> Fn|None` overrides the callee look-up (used for the combinator reference bodies)"""
    accept = accept or (lambda caller, callee: callee.crate == caller.crate)
    rec = dict(fn.rec)
    blocks = copy.deepcopy(fn.rec["blocks"])
    locals_ = list(fn.rec["locals"])
    vars_ = dict(fn.rec.get("vars", {}))
    changed = False
    bi = 0
    inlined = []
    while bi < len(blocks) and len(blocks) < MAX_BLOCKS:
        b = blocks[bi]
        t = b["t"]
        callee_key = t.get("callee") if t["k"] == "call" else None
        callee = (resolve(t) if resolve is not None else prog.fns.get(callee_key)) if callee_key else None
        ok = (callee is not None and not b["cleanup"] and callee.key != fn.key and callee.key not in _stack and depth > 0
              and not callee.coroutine and callee.blocks and len(t.get("args", [])) == callee.argc and accept(fn, callee)
              and len(callee.blocks) + len(blocks) < MAX_BLOCKS)
        if not ok:
            bi += 1
            continue
        sub = inline(prog, callee, depth - 1, accept, _stack + (fn.key,), resolve) if depth > 1 else callee
        lbase = len(locals_)
        bbase = len(blocks)
        locals_ += list(sub.rec["locals"])
        lmap = lambda l, lbase=lbase: l + lbase
        bmap = lambda x, bbase=bbase: x + bbase
        prefix = sub.file if sub.file != fn.file else ""
        for name, place in sub.rec.get("vars", {}).items():
            vars_["%s~%d" % (name, lbase)] = _remap(place, lmap, "")
        unwind_to = t.get("unwind") if isinstance(t.get("unwind"), int) else None
        dest, target = t["dest"], t.get("target")
        for sb in sub.rec["blocks"]:
            nb = {"cleanup": sb["cleanup"], "st": _remap(sb["st"], lmap, prefix), "t": _retarget(_remap(sb["t"], lmap, prefix), bmap, unwind_to)}
            tt = nb["t"]
            if tt["k"] == "return":
                if target is None:
                    nb["t"] = {"k": "unreachable", "sp": tt.get("sp")}
                else:
                    nb["st"].append({"k": "=", "p": copy.deepcopy(dest), "r": ["use", ["m", [lmap(0), []]]], "sp": t.get("sp"), "inl": callee.key})
                    nb["t"] = {"k": "goto", "target": target, "sp": tt.get("sp")}
            elif tt["k"] == "resume" and unwind_to is not None:
                nb["t"] = {"k": "goto", "target": unwind_to, "sp": tt.get("sp")}
            blocks.append(nb)
        # the call block: parameters := arguments, then enter the callee
        for i, a in enumerate(t.get("args", [])):
            b["st"].append({"k": "=", "p": [lmap(i + 1), []], "r": ["use", copy.deepcopy(a)], "sp": t.get("sp"), "inl": callee.key})
        b["t"] = {"k": "goto", "target": bmap(0), "sp": t.get("sp"), "inlined": callee.key}
        inlined.append(callee.key)
        changed = True
        bi += 1
    if not changed:
        return fn
    rec["blocks"] = blocks
    rec["locals"] = locals_
    rec["vars"] = vars_
    rec["inlined"] = inlined
    out = Fn(rec)
    return out


def containing(prog, callee_rx, depth=2, closures=False):
    """accept-filter: inline a helper only if it (or a local helper it calls, within `depth`; with closures=True also a
    closure literal written in it) contains a call matching callee_rx -- i.e. only the helpers into which the statements
    a rule looks for may have been moved"""
    import re
    rx = re.compile(callee_rx)
    memo = {}

    def has(fn, d):
        k = (fn.key, d)
        if k in memo:
            return memo[k]
        memo[k] = False
        r = False
        if closures and d > 0:
            for g in prog.descendants(fn.key):
                if g.key != fn.key and has(g, 0):
                    r = True
                    break
        for c in ([] if r else fn.calls()):
            if rx.search(c.callee or "") or rx.search(c.decl or ""):
                r = True
                break
            g = prog.fns.get(c.callee or "")
            if d > 0 and g is not None and g.key != fn.key and has(g, d - 1):
                r = True
                break
        memo[k] = r
        return r

    return lambda caller, callee: callee.crate == caller.crate and has(callee, depth)


POLL_RX = r"core::future::future::Future::poll$|Future>::poll$"
FUT_THROUGH = r"(Pin::<Ptr>::new_unchecked|Pin::<Ptr>::new|IntoFuture>::into_future|::as_mut|DerefMut>::deref_mut|::get_unchecked_mut)$"


def inline_async(prog, fn, depth=1, accept=None):
    """`fn` (a coroutine body) with the bodies of the local `async fn`s it awaits spliced in at the poll: the awaited
    helper's statements run where the await is, its `return x` becomes `Poll::Ready(x)` of that poll, its own awaits keep
    their yields. -> mir.Fn (or fn itself)"""
    import re
    from . import paths
    if not fn.coroutine:
        return fn
    rec = dict(fn.rec)
    blocks = copy.deepcopy(fn.rec["blocks"])
    locals_ = list(fn.rec["locals"])
    vars_ = dict(fn.rec.get("vars", {}))
    work = Fn(dict(rec, blocks=blocks, locals=locals_, vars=vars_))
    inlined = []
    for bi in range(len(fn.rec["blocks"])):
        t = blocks[bi]["t"]
        if t["k"] != "call" or blocks[bi]["cleanup"] or not (re.search(POLL_RX, t.get("decl") or "") or re.search(POLL_RX, t.get("callee") or "")):
            continue
        if not t.get("args"):
            continue
        root = paths.root_call(work, t["args"][0], through=FUT_THROUGH)
        thin = prog.fns.get(root.callee or "") if root is not None else None
        if thin is None or not thin.rec.get("asyncness") or thin.crate != fn.crate:
            continue
        try:
            body = prog.coroutine_body(thin.key)
        except Exception:
            continue
        if body.key == fn.key or (accept is not None and not accept(fn, body)):
            continue
        if depth > 1:
            body = inline_async(prog, body, depth - 1, accept)
        if len(blocks) + len(body.blocks) > MAX_BLOCKS:
            continue
        lbase = len(locals_)
        bbase = len(blocks)
        locals_ += list(body.rec["locals"])
        nup = len(root.args)
        ubase = len(locals_)
        locals_ += ["<upvar>"] * nup
        def lmap(l, lbase=lbase):
            return 2 if l == 2 else l + lbase          # the resume argument is the caller's
        def hook(pl, lbase=lbase, ubase=ubase, nup=nup):
            if pl[0] == 1 and pl[1]:
                i = 1 if pl[1][0][0] == "d" and len(pl[1]) > 1 else 0
                pr = pl[1][i]
                if pr[0] == "f" and isinstance(pr[2], str) and pr[2].startswith("^") and pr[1] < nup:
                    rest = [copy.copy(x) if x[0] != "i" else ["i", lmap(x[1])] for x in pl[1][i + 1:]]
                    return [ubase + pr[1], rest]
            return None
        prefix = body.file if body.file != fn.file else ""
        for name, place in body.rec.get("vars", {}).items():
            vars_["%s~%d" % (name, lbase)] = _remap(place, lmap, "", hook)
        # upvars := the arguments the future was created with (at the creating call)
        cb = blocks[root.bb]
        for i, a in enumerate(root.args):
            cb["st"].append({"k": "=", "p": [ubase + i, []], "r": ["use", ["c", a[1]] if a[0] in ("c", "m") else copy.deepcopy(a)], "sp": cb["t"].get("sp"), "inl": thin.key})
        dest, target = t["dest"], t.get("target")
        unwind_to = t.get("unwind") if isinstance(t.get("unwind"), int) else None
        bmap = lambda x, bbase=bbase: x + bbase
        for sb in body.rec["blocks"]:
            nb = {"cleanup": sb["cleanup"], "st": _remap(sb["st"], lmap, prefix, hook), "t": _retarget(_remap(sb["t"], lmap, prefix, hook), bmap, unwind_to)}
            tt = nb["t"]
            if tt["k"] == "return":
                if target is None:
                    nb["t"] = {"k": "unreachable", "sp": tt.get("sp")}
                else:
                    nb["st"].append({"k": "=", "p": copy.deepcopy(dest), "r": ["agg", {"k": "adt", "adt": "core::task::poll::Poll", "variant": "Ready", "vi": 0, "fields": ["0"]}, [["m", [lmap(0), []]]]], "sp": t.get("sp"), "inl": thin.key})
                    nb["t"] = {"k": "goto", "target": target, "sp": tt.get("sp")}
            elif tt["k"] == "resume" and unwind_to is not None:
                nb["t"] = {"k": "goto", "target": unwind_to, "sp": tt.get("sp")}
            blocks.append(nb)
        blocks[bi]["t"] = {"k": "goto", "target": bmap(0), "sp": t.get("sp"), "inlined": body.key}
        inlined.append(body.key)
        # the spliced poll only ever completes with Ready (the helper's own yields suspend in place): the `Pending` edge of
        # the await loop that followed the poll is dead -- left in, it would look like a way to run the helper again
        if target is not None and not blocks[target]["cleanup"]:
            tb = blocks[target]
            tt = tb["t"]
            if tt["k"] == "switch" and tb["st"] and tb["st"][-1]["k"] == "=" and tb["st"][-1]["r"][0] == "discr" and tb["st"][-1]["r"][1] == dest \
                    and tt["discr"][0] in ("c", "m") and tt["discr"][1] == tb["st"][-1]["p"]:
                ready = [b_ for v, b_ in tt["targets"] if str(v) == "0"]
                if ready:
                    tb["t"] = {"k": "goto", "target": ready[0], "sp": tt.get("sp"), "pruned": "Pending edge of an inlined await"}
    if not inlined:
        return fn
    rec["blocks"] = blocks
    rec["locals"] = locals_
    rec["vars"] = vars_
    rec["inlined"] = list(fn.rec.get("inlined", [])) + inlined
    return Fn(rec)


CLOSURE_CALL_RX = r"core::ops::function::(FnOnce::call_once|FnMut::call_mut|Fn::call)$"


def inline_closure_calls(prog, fn, rounds=2):
    """Resolve `f(args)` where f is, in this (possibly already inlined) body, a closure literal: the closure's body is
    spliced in with its parameters bound to the components of the argument tuple. -> mir.Fn (or fn)"""
    import re
    cur = fn
    for _ in range(rounds):
        rec = dict(cur.rec)
        blocks = copy.deepcopy(cur.rec["blocks"])
        locals_ = list(cur.rec["locals"])
        vars_ = dict(cur.rec.get("vars", {}))
        done = []
        for bi in range(len(cur.rec["blocks"])):
            t = blocks[bi]["t"]
            if t["k"] != "call" or blocks[bi]["cleanup"] or not re.search(CLOSURE_CALL_RX, t.get("decl") or t.get("callee") or ""):
                continue
            args = t.get("args", [])
            if len(args) != 2 or args[0][0] not in ("c", "m"):
                continue
            st = cur.origin(args[0])
            agg = st[-1][1] if st and st[-1][0] == "agg" and st[-1][1][1].get("k") == "closure" else None
            body = prog.fns.get(agg[1]["def"]) if agg else None
            if body is None or body.coroutine or len(blocks) + len(body.blocks) > MAX_BLOCKS:
                continue
            n = body.argc - 1
            lbase = len(locals_)
            bbase = len(blocks)
            locals_ += list(body.rec["locals"])
            lmap = lambda l, lbase=lbase: l + lbase
            bmap = lambda x, bbase=bbase: x + bbase
            prefix = body.file if body.file != cur.file else ""
            for name, place in body.rec.get("vars", {}).items():
                vars_["%s~%d" % (name, lbase)] = _remap(place, lmap, "")
            b = blocks[bi]
            env_ty = body.rec["locals"][1] if len(body.rec["locals"]) > 1 else ""
            arg_ty = cur.rec["locals"][args[0][1][0]] if not args[0][1][1] and args[0][1][0] < len(cur.rec["locals"]) else "&"
            if env_ty.startswith("&") and not (arg_ty or "").startswith("&"):
                # a by-value call (FnOnce::call_once) of a closure whose body takes its environment by reference
                b["st"].append({"k": "=", "p": [lmap(1), []], "r": ["ref", "mut" if env_ty.startswith("&mut") else "shared", copy.deepcopy(args[0][1])], "sp": t.get("sp"), "inl": body.key})
            else:
                b["st"].append({"k": "=", "p": [lmap(1), []], "r": ["use", copy.deepcopy(args[0])], "sp": t.get("sp"), "inl": body.key})
            tup = args[1]
            for i in range(n):
                if tup[0] in ("c", "m"):
                    comp = [tup[0], [tup[1][0], list(tup[1][1]) + [["f", i, str(i), ""]]]]
                else:
                    comp = copy.deepcopy(tup)
                b["st"].append({"k": "=", "p": [lmap(2 + i), []], "r": ["use", comp], "sp": t.get("sp"), "inl": body.key})
            dest, target = t["dest"], t.get("target")
            unwind_to = t.get("unwind") if isinstance(t.get("unwind"), int) else None
            for sb in body.rec["blocks"]:
                nb = {"cleanup": sb["cleanup"], "st": _remap(sb["st"], lmap, prefix), "t": _retarget(_remap(sb["t"], lmap, prefix), bmap, unwind_to)}
                tt = nb["t"]
                if tt["k"] == "return":
                    if target is None:
                        nb["t"] = {"k": "unreachable", "sp": tt.get("sp")}
                    else:
                        nb["st"].append({"k": "=", "p": copy.deepcopy(dest), "r": ["use", ["m", [lmap(0), []]]], "sp": t.get("sp"), "inl": body.key})
                        nb["t"] = {"k": "goto", "target": target, "sp": tt.get("sp")}
                elif tt["k"] == "resume" and unwind_to is not None:
                    nb["t"] = {"k": "goto", "target": unwind_to, "sp": tt.get("sp")}
                blocks.append(nb)
            b["t"] = {"k": "goto", "target": bmap(0), "sp": t.get("sp"), "inlined": body.key}
            done.append(body.key)
        if not done:
            break
        rec["blocks"], rec["locals"], rec["vars"] = blocks, locals_, vars_
        rec["inlined"] = list(cur.rec.get("inlined", [])) + done
        cur = Fn(rec)
    return cur


# std combinator (declared path) -> reference body in engine/shims
COMBINATORS = {
    r"^core::option::Option::<T>::map$": "option_map",
    r"^core::option::Option::<T>::and_then$": "option_and_then",
    r"^core::option::Option::<T>::filter$": "option_filter",
    r"^core::option::Option::<T>::is_some_and$": "option_is_some_and",
    r"^core::option::Option::<T>::is_none_or$": "option_is_none_or",
    r"^core::option::Option::<T>::map_or$": "option_map_or",
    r"^core::option::Option::<T>::map_or_else$": "option_map_or_else",
    r"^core::option::Option::<T>::ok_or_else$": "option_ok_or_else",
    r"^core::option::Option::<T>::unwrap_or_else$": "option_unwrap_or_else",
    r"^core::option::Option::<T>::or_else$": "option_or_else",
    r"^core::result::Result::<T, E>::map$": "result_map",
    r"^core::result::Result::<T, E>::map_err$": "result_map_err",
    r"^core::result::Result::<T, E>::and_then$": "result_and_then",
    r"^core::result::Result::<T, E>::unwrap_or_else$": "result_unwrap_or_else",
    r"^core::result::Result::<T, E>::is_ok_and$": "result_is_ok_and",
    r"^core::iter::traits::iterator::Iterator::find_map$": "iter_find_map",
    r"^core::iter::traits::iterator::Iterator::find$": "iter_find",
    r"^core::iter::traits::iterator::Iterator::any$": "iter_any",
    r"^core::iter::traits::iterator::Iterator::all$": "iter_all",
    r"^core::iter::traits::iterator::Iterator::position$": "iter_position",
    r"^core::iter::traits::iterator::Iterator::for_each$": "iter_for_each",
    r"^core::iter::traits::iterator::Iterator::fold$": "iter_fold",
}


def expand_combinators(prog, fn, only=None):
    """Replace calls of std's closure-taking combinators by their reference bodies (engine/shims): afterwards the closure
    argument is called by an ordinary `call_once/call_mut` that inline_closure_calls resolves. Only calls one of whose
    arguments is a closure literal in this body are expanded. -> mir.Fn (or fn)"""
    import re
    shims = prog.shims()
    table = [(re.compile(rx), shims[name]) for rx, name in COMBINATORS.items() if name in shims and (only is None or name in only)]

    def resolve(t):
        d = t.get("decl") or t.get("callee") or ""
        for rx, body in table:
            if rx.search(d):
                # at least one argument is a closure literal (or a reference to one) of this body
                for a in t.get("args", []):
                    if a[0] in ("c", "m"):
                        st = fn.origin(a)
                        if st and st[-1][0] == "agg" and st[-1][1][1].get("k") == "closure":
                            return body
                return None
        return None

    return inline(prog, fn, 1, lambda caller, callee: True, (), resolve)
