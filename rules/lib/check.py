"""Obligation bookkeeping, known findings, violation reports and evidence files."""
import hashlib
import json
import os
import re
import time

from . import build
from .mir import AnchorLost

VERIF = build.VERIF


class Check:
    def __init__(self, prop, tier, seed=0):
        self.prop = prop
        self.tier = tier
        self.seed = seed
        self.t0 = time.time()
        self.obs = []  # dicts
        self.notes = {}
        self.configs = []
        self.explanation = ""
        self.rule_text = ""
        self.assumptions = []
        self.trusted_base = []
        self.stats = {}
        self._seen = set()
        self.config = None  # current configuration label

    # -- recording ----------------------------------------------------------
    def ob(self, rule, key, ok, where="", detail="", how="", nontrivial=True, extra=None):
        """One evaluated rule instance. `key` identifies the instance without line numbers."""
        k = (rule, key)
        cfg = self.config
        # the same instance in several configurations is one obligation; it fails if it fails anywhere
        for o in self.obs:
            if o["rule"] == rule and o["key"] == key:
                if cfg and cfg not in o["configs"]:
                    o["configs"].append(cfg)
                if not ok and o["ok"]:
                    o.update(ok=False, where=where, detail=detail, how=how)
                    if extra:
                        o["extra"] = extra
                return o
        o = {"rule": rule, "key": key, "ok": bool(ok), "where": where, "detail": detail, "how": how,
             "nontrivial": bool(nontrivial), "configs": [cfg] if cfg else []}
        if extra:
            o["extra"] = extra
        self.obs.append(o)
        return o

    def floor(self, rule, what, count, minimum):
        """A rule that matches fewer instances than were confirmed by hand must not pass."""
        self.ob(rule, "floor:" + what, count >= minimum,
                detail="%s: %d instance(s) found, at least %d confirmed by hand on the pinned tree" % (what, count, minimum),
                how="instance count %d >= floor %d" % (count, minimum), nontrivial=False)

    def stat(self, name, value):
        self.stats[name] = value

    def add_stat(self, name, value):
        self.stats[name] = self.stats.get(name, 0) + value

    def guard(self, rule, fn):
        """Run a rule body; a lost anchor is a failed obligation, not a crash and not a pass."""
        try:
            fn()
        except AnchorLost as e:
            self.ob(rule, "anchor-lost", False, detail="cannot establish the clause: %s" % e)
        except Exception as e:  # the code no longer has the shape the rule can read: fail closed, like a lost anchor
            import traceback
            tb = traceback.extract_tb(e.__traceback__)
            where = "%s:%d" % (tb[-1].filename.rsplit("/", 1)[-1], tb[-1].lineno) if tb else "?"
            self.ob(rule, "anchor-lost", False, detail="cannot establish the clause: the analysed code no longer has a shape this rule can read (%s: %s at %s)" % (type(e).__name__, e, where))

    # -- finishing ----------------------------------------------------------
    def finish(self):
        known = load_known()
        viol = []
        knowns = []
        for o in self.obs:
            if o["ok"]:
                continue
            kf = known.get((self.prop, o["rule"] + "|" + o["key"]))
            if kf and kf.get("status") == "known":
                o["known"] = True
                knowns.append((o, kf))
            else:
                viol.append(o)
        rdir = os.path.join(VERIF, "reports", self.prop)
        os.makedirs(rdir, exist_ok=True)
        for f in os.listdir(rdir):
            try:
                os.remove(os.path.join(rdir, f))
            except OSError:
                pass
        lines = []
        for o, kf in knowns:
            lines.append("KNOWN-FINDING: property=%s %s [%s|%s]" % (self.prop, kf.get("what", o["detail"]), o["rule"], o["key"]))
        for o in viol:
            name = re.sub(r"[^A-Za-z0-9_.-]+", "_", o["rule"] + "." + o["key"])[:120] + "." + hashlib.sha1((o["rule"] + o["key"]).encode()).hexdigest()[:8] + ".json"
            path = os.path.join(rdir, name)
            rep = dict(o)
            rep["property"] = self.prop
            rep["tier"] = self.tier
            with open(path, "w") as fh:
                json.dump(rep, fh, indent=1)
            lines.append("VIOLATION property=%s replay=%s" % (self.prop, path))
            lines.append("  rule %s  instance %s\n  at %s\n  %s" % (o["rule"], o["key"], o["where"], o["detail"]))
        self.write_evidence(len(viol), len(knowns))
        return viol, knowns, lines

    def write_evidence(self, nviol, nknown):
        obs = self.obs
        evaluations = len(obs)
        distinct_nontrivial = len({(o["rule"], o["key"]) for o in obs if o["nontrivial"]})
        discharged = sum(1 for o in obs if o["ok"])
        # samples: a spread of actual instances, a few per rule
        samples = []
        per_rule = {}
        for o in obs:
            n = per_rule.get(o["rule"], 0)
            if n < 3 and o["nontrivial"]:
                per_rule[o["rule"]] = n + 1
                samples.append({"rule": o["rule"], "instance": o["key"], "at": o["where"], "verdict": "holds" if o["ok"] else ("known-finding" if o.get("known") else "VIOLATED"), "how": o["how"] or o["detail"]})
        if not samples:
            samples = [{"rule": o["rule"], "instance": o["key"], "verdict": "holds" if o["ok"] else "VIOLATED", "how": o["how"] or o["detail"]} for o in obs[:5]]
        per_rule_counts = {}
        for o in obs:
            d = per_rule_counts.setdefault(o["rule"], {"instances": 0, "hold": 0})
            d["instances"] += 1
            d["hold"] += 1 if o["ok"] else 0
        ev = {
            "property_id": self.prop,
            "tier": self.tier,
            "seed": self.seed,
            "level": "other",
            "coverage": {
                "explanation": self.explanation,
                "evaluations": evaluations,
                "distinct_nontrivial": distinct_nontrivial,
                "rule": self.rule_text or "one evaluation per rule instance (a function, call site, table row or path obligation found in /repo's current source); non-trivial = the verdict depended on a dominance/reachability query, a provenance chain or a table comparison, i.e. everything except instance-count floors",
                "samples": samples[:40],
                "obligations": evaluations,
                "discharged": discharged,
                "known_findings": nknown,
                "per_rule": per_rule_counts,
                "configurations": self.configs,
                "checker_cmd": "bin/vcheck %s --tier %s" % (self.prop, self.tier),
                "trusted_base": self.trusted_base or [
                    "rustc 1.97.0-nightly: name/type/trait resolution and MIR construction (mir_built)",
                    "engine/mirfacts (fact extraction) and rules/lib (dominators, reachability)",
                ],
                "exhaustive": False,
            },
            "assumptions": self.assumptions,
            "wall_s": round(time.time() - self.t0, 2),
            "violations": nviol,
        }
        ev["coverage"].update(self.stats)
        os.makedirs(os.path.join(VERIF, "evidence"), exist_ok=True)
        path = os.path.join(VERIF, "evidence", self.prop + ".json")
        tmp = path + ".tmp%d" % os.getpid()
        with open(tmp, "w") as fh:
            json.dump(ev, fh, indent=1)
            fh.write("\n")
        os.replace(tmp, path)


def load_known():
    p = os.path.join(VERIF, "known_findings.json")
    out = {}
    try:
        with open(p) as fh:
            data = json.load(fh)
    except OSError:
        return out
    for e in data.get("findings", []):
        out[(e["property"], e["key"])] = e
    return out
