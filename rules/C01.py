"""C01 Routing dispatches each request to the handler of the matching route.
Decides: (a) method -> per-method tree tables agree at every site that spells them out, HEAD served from GET without body;
(b) a miss runs the catch proc, built from default_not_found (404); (c) the search is memory-safe, incl. the bounded
captured-parameter buffer."""
import re

from .lib import decision, guards, paths
from .lib.mir import AnchorLost
from .lib.reachrule import ReachRule

CONFIGS_QUICK = ["A", "R"]
CONFIGS_THOROUGH = ["A", "R", "NOAPI"]
TECHNIQUE = ('literal/field dispatch-table agreement across the sites that enumerate methods (built MIR), decision table of Node::search, must-pass-edge rule on '
             'Pattern::take_through (segment boundary), per-iteration guard of the compression loop, reachability of unsafe operations from the search with '
             'dominance-checked guards')
LEVEL_TEXT = ('Decides clauses C01-a..g: at each site that maps methods to per-method trees (Router::handle, gen_openapi_doc, From<base::Router>, register!, merge!, '
              'apply_to!) the tree used for a Method variant is the field of the same name (HEAD served by the GET tree, its body dropped and its headers kept), and '
              "all sites cover the same variants; Node::search returns the node's proc exactly on a hit and its catch otherwise, the catch being built from default_n"
              'ot_found (404 Not Found); every unsafe operation reachable from the search is dominated by its guard, and the fixed-size captured-parameter buffer can'
              'not be overrun because finalize() refuses routes with more `:param` segments than it holds; when a final node is built, its children are put into sear'
              'ch order (static before param) after the last step that changes the child list (single-child compression), so the order search relies on does not depe'
              "nd on registration order; while compressing single-child chains a node takes over its child's handler only under a test, made in the same iteration, t"
              'hat it has none of its own; a static pattern answers a match only on paths that establish a segment boundary (nothing left, or the next byte is `/`), '
              'so `/users` is not matched by `/users2`; a base node never gets a second param child: every append_child is preceded by a look-up that found no matcha'
              'ble child (a param pattern being matched by any existing param child), and `children` grows nowhere else; mounting assigns the handler of the node at '
              'the mount point only from a handler the mounted root has (never erases a registered one). C01-j: the normalised request path stored by Path::init_with'
              '_request_bytes has the length of the request target, or that length minus one only under a test that the last byte is a slash, the subtraction not bei'
              "ng repeated (one trailing slash is ignored, not all: a path with an extra empty trailing segment matches nothing). The HEAD arm's body drop is on ever"
              'y path once the method test answered HEAD (no status-dependent exception). Decides these clauses, not segment-matching semantics over all route sets a'
              'nd paths.')

METHODS = ["GET", "PUT", "POST", "PATCH", "DELETE", "OPTIONS"]

ROUTE_LIMIT = {"kind": "sibling", "fn": r"^ohkami::router::base::Router::finalize$", "at_call": r"From<.*Router>>::from$|router::r#final::.*::from$", "guard": {"kind": "route_limit"}}

AUDIT = [
    {"fn": r"request::path::Params>::push$", "sink": r"^panic-call:panic$|^unsafe-call:core::slice::<impl \[T\]>::get_unchecked_mut$|^assert:Overflow\(Add\)$",
     "guards": [ROUTE_LIMIT],
     "reason": "push runs once per `:param` segment of the matched route; routes with more than Params::LIMIT such segments are refused when the router is finalized"},
    {"fn": r"router::r#final::Node::search_target$", "sink": r"^unsafe-call:.*Path>::normalized_bytes$",
     "guards": [{"kind": "reason", "reason": "Path was initialised by Request::read before the router runs (C02 audit: initialisation protocol)"}], "reason": "initialised request path"},
    {"fn": r"request::path::Path>::(normalized_bytes|push_param)$", "sink": r".", "guards": [{"kind": "in_unsafe_fn"}], "reason": "unsafe fn"},
    {"fn": r"router::r#final::Pattern::take_through$", "sink": r"^unsafe-call:core::slice::<impl \[T\]>::get_unchecked$",
     "guards": [{"kind": "all", "of": [{"kind": "operand", "which": "arg1", "from": {"range": {"end": {"len": True}}}}, {"kind": "cmp", "op": "Ge", "lhs_len": True, "rhs_len": True}]},
                {"kind": "all", "of": [{"kind": "operand", "which": "arg1", "from": {"range": {"start": {"len": True}}}}, {"kind": "cmp", "op": "Ge", "lhs_len": True, "rhs_len": True}]},
                {"kind": "all", "of": [{"kind": "operand", "which": "arg1", "len": True}, {"kind": "cmp", "op": "Ge", "lhs_len": True, "rhs_len": True},
                                       {"kind": "cmp", "op": "Ne", "lhs_len": True, "rhs_len": True}]},
                {"kind": "all", "of": [{"kind": "operand", "which": "arg1", "from": {"const": 0}}, {"kind": "cmp", "op": "Ge", "const": 2, "lhs_len": True}]},
                {"kind": "all", "of": [{"kind": "operand", "which": "arg1", "from": {"const": 1}}, {"kind": "cmp", "op": "Ge", "const": 2, "lhs_len": True}]},
                {"kind": "all", "of": [{"kind": "operand", "which": "arg1", "from": {"range": {"start": {"const": 1}}}}, {"kind": "cmp", "op": "Ge", "const": 2, "lhs_len": True}]}],
     "reason": "..size / size.. under bytes.len() >= size; index size under bytes.len() >= size and != size; indices 0, 1 and 1.. under bytes.len() >= 2"},
    {"fn": r"router::r#final::Pattern::take_through$", "sink": r"^unsafe-call:.*Path>::push_param$",
     "guards": [{"kind": "reason", "reason": "push_param's contract is an initialised Path (see search_target); the buffer bound is Params::push's obligation"}], "reason": "initialised request path"},
    {"fn": r"router::util::split_next_section$", "sink": r"^unsafe-call:core::slice::<impl \[T\]>::get_unchecked$|^unsafe-call:core::slice::raw::from_raw_parts$|^unsafe-call:core::ptr::const_ptr::<impl \*const T>::add$|^assert:Overflow\(Sub\)$",
     "guards": [{"kind": "variant", "variant": "Some", "of": {"call": r"Iterator for core::ops::range::Range<A>>::next$|Range<.*Iterator>::next$"}}],
     "reason": "i is produced by `for i in 0..len`, so i < len: index i, (ptr, i) and (ptr+i, len-i) are in bounds"},
]


def run(ck, progs):
    ck.explanation = LEVEL_TEXT
    ck.assumptions = ["A5"]
    for cfg, prog in progs.items():
        ck.config = cfg
        ck.guard("C01-a TABLE dispatch", lambda: c01a(ck, prog))
        ck.guard("C01-b DECISION miss", lambda: c01b(ck, prog))
        ck.guard("C01-c REACH search", lambda: c01c(ck, prog))
        ck.guard("C01-d ORDER child order", lambda: c01d(ck, prog))
        ck.guard("C01-e GUARD handler kept", lambda: c01e(ck, prog, final_builder_view(prog)))
        ck.guard("C01-h GUARD mount keeps handlers", lambda: mount_keeps_handlers(ck, prog, "C01-h GUARD mount keeps handlers"))
        ck.guard("C01-i GUARD param segment non-empty", lambda: c01i(ck, prog))
        ck.guard("C01-f GUARD segment boundary", lambda: c01f(ck, prog))
        ck.guard("C01-g INVARIANT one param child", lambda: c01g(ck, prog))
        ck.guard("C01-j DECISION one trailing slash", lambda: c01j(ck, prog))
    ck.config = None


def variant_at(f, prog, bb, subject_rx=None):
    """the single Method variant known at block bb (match on a value of type ohkami::request::method::Method)"""
    out = None
    for fa in guards.facts_at(f, prog, bb):
        if fa.kind == "variant" and fa.allowed and len(fa.allowed) == 1 and re.fullmatch(r"(&(mut )?)*ohkami::request::method::Method", (fa.ty or "").strip()):
            out = tuple(fa.allowed)[0]
    return out


def variants_at(f, prog, bb):
    """the set of Method variants under which block bb runs (an or-pattern arm `GET | HEAD` is reached over several labels of
    one switch: the facts of a block give the single dominating edge, so the switch edges into the block are read directly)"""
    one = variant_at(f, prog, bb)
    if one is not None:
        return {one}
    out = set()
    for sb in sorted(f.live_blocks()):
        if f.blocks[sb]["t"]["k"] != "switch" or not f.dominates(sb, bb):
            continue
        info = f.switch_info(sb)
        if not info or info.get("kind") != "variant" or not re.fullmatch(r"(&(mut )?)*ohkami::request::method::Method", (info.get("ty") or "").strip()):
            continue
        names = prog.variant_names(info["ty"]) or {}
        for tb, lab in f.succ(sb):
            if lab != "otherwise" and (tb == bb or f.dominates(tb, bb)) and not any(t2 != tb and bb in f.reachable_from(t2) for t2, l2 in f.succ(sb) if l2 != lab and t2 != tb):
                out.add(names.get(lab))
    return {x for x in out if x}


def field_refs(f, owner_rx):
    """(bb, field name) for every `&place.FIELD` / use of place.FIELD where FIELD is a per-method tree and the base matches owner_rx"""
    out = []
    for bi in sorted(f.live_blocks()):
        b = f.blocks[bi]
        if b["cleanup"]:
            continue
        for st in b["st"]:
            if st["k"] != "=":
                continue
            r = st["r"]
            pl = r[2] if r[0] in ("ref", "rawptr") else (r[1][1] if r[0] == "use" and r[1][0] in ("c", "m") else None)
            if pl is None:
                continue
            flds = [pr for pr in pl[1] if pr[0] == "f"]
            if flds and flds[-1][2] in METHODS and re.search(owner_rx, flds[-1][3]) is None:
                base_ty = f.place_ty([pl[0], pl[1][: pl[1].index(flds[-1])]])
                if re.search(owner_rx, base_ty):
                    out.append((bi, flds[-1][2], st))
    return out


def head_guarded(h, prog, bb):
    """does block bb run exactly for HEAD requests? -- in the HEAD arm of a match on the method, or under a flag that is
    `matches!(req.method, Method::HEAD)` (every path to bb takes the HEAD edge of a match on the method)"""
    if variant_at(h, prog, bb) == "HEAD":
        return True
    from .lib import pathsens

    def head_edge(facts):
        return any(fa.kind == "variant" and fa.allowed == {"HEAD"} and re.fullmatch(r"(&(mut )?)*ohkami::request::method::Method", (fa.ty or "").strip()) for fa in facts)
    return pathsens.path_avoiding_edges(h, prog, 0, bb, head_edge, constprop=True) is None


def apply_fangs_trees(prog):
    """the per-method trees of base::Router that Router::apply_fangs hands the application's fangs to (also used by C04/C14)"""
    af = prog.method(r"^ohkami::router::base::Router$", "apply_fangs")
    af = prog.inlined(af, 1, lambda caller, callee: callee.self_ty == caller.self_ty and callee.key != caller.key and len(callee.blocks) < 40)     # the list of trees may come from a helper of Router
    seen = set()
    for c in af.calls_to(r"base::Node::apply_fangs$"):
        d = decision.describe_deep(af, c.args[0], 8)
        m = re.search(r"^arg1\.(\w+)$", d)
        if m:
            seen.add(m.group(1))
            continue
        # `for root in [&mut self.GET, ..] { root.apply_fangs(..) }`: the receiver is the element of an iterated array literal
        m = re.match(r"^next\((?:into_iter|iter_mut|iter)\(array\{([^{}]*)\}\)\)@Some\.0$", d)
        if m:
            seen.update(x.group(1) for x in re.finditer(r"(?:^|,)arg1\.(\w+)(?=,|$)", m.group(1)))
    return seen, af


def c01a(ck, prog):
    R = "C01-a TABLE dispatch"
    sites = 0
    # 1. Router::handle
    h0 = prog.coroutine_body(prog.one(r"^ohkami::router::r#final::Router::handle$").key)
    # the method -> tree table may be a helper of Router
    h = prog.inlined(h0, 1, lambda caller, callee: callee.crate == caller.crate and (callee.self_ty or "").endswith("router::r#final::Router") and not callee.coroutine and bool(field_refs(callee, r"router::r#final::Router")))
    rows = {}
    for bi, fld, st in field_refs(h, r"router::r#final::Router"):
        for v in variants_at(h, prog, bi):
            rows.setdefault(v, set()).add(fld)
    sites += 1
    for m in METHODS + ["HEAD"]:
        want = {"GET"} if m == "HEAD" else {m}
        ok = rows.get(m) == want
        ck.ob(R, "handle:%s" % m, ok, h.loc(None), "" if ok else "Router::handle serves %s requests from tree(s) %s, expected %s" % (m, sorted(rows.get(m, [])), sorted(want)), how="%s -> self.%s" % (m, sorted(want)[0]))
    # HEAD: content dropped, headers untouched, in the HEAD arm
    head_only = lambda bb: head_guarded(h, prog, bb)
    drops = [bi for bi, st, agg in decision.field_stores(h, "content") if agg is not None and agg[1].get("variant") == "None" and head_only(bi)]
    hdr_mut = [c for c in h.calls() if head_only(c.bb) and re.search(r"Response::drop_content$|headers::Headers::(set|insert|remove)", c.callee or "")]
    ok = len(drops) == 1 and not hdr_mut
    if ok:
        # ... for every HEAD response: once the HEAD test has answered yes, no return is reached around the drop
        head_sw = [fa.sw_bb for fa in guards.facts_at(h, prog, drops[0]) if getattr(fa, "sw_bb", None) is not None
                   and (fa.kind in ("boolphi", "boolcall", "cmp") or (fa.kind == "variant" and fa.allowed == {"HEAD"}))]       # the switch(es) that answered `the method is HEAD`
        for sb in set(head_sw):
            for tb, lab in h.succ(sb):
                if h.dominates(tb, drops[0]) or tb == drops[0]:
                    if set(h.exits()) & h.reachable_from(tb, avoid=(drops[0],)):
                        ok = False
    ck.ob(R, "handle:HEAD-without-body", ok, h.loc(None), "" if ok else "the HEAD arm does not (only) drop the response body while keeping Content-Type/Content-Length (drops: %d, header mutations: %d)" % (len(drops), len(hdr_mut)), how="res.content = Content::None; headers kept")
    # 2. gen_openapi_doc (openapi builds only)
    gs = prog.find(r"^ohkami::router::r#final::Router::gen_openapi_doc$")
    if gs:
        g = gs[0]
        # the method -> (name, tree) choice may be a helper method of the same Router
        g = prog.inlined(g, 1, lambda caller, callee: callee.self_ty == "ohkami::router::r#final::Router" and callee.key != caller.key and len(callee.blocks) < 80)
        sites += 1
        rows = {}
        names = {}
        for bi, fld, st in field_refs(g, r"router::r#final::Router"):
            v = variant_at(g, prog, bi, r"method|next\(")
            if v is not None:
                rows.setdefault(v, set()).add(fld)
        for bi in sorted(g.live_blocks()):
            for st in g.blocks[bi]["st"]:
                if st["k"] == "=" and st["r"][0] == "agg" and st["r"][1].get("k") == "tuple" and len(st["r"][2]) == 2:
                    a = g.origin(st["r"][2][0])
                    if a and a[-1][0] == "const" and "s" in a[-1][1]:
                        v = variant_at(g, prog, bi, r"method|next\(")
                        if v:
                            names[v] = a[-1][1]["s"]
        for m in ["GET", "PUT", "POST", "PATCH", "DELETE"]:
            ok = rows.get(m) == {m} and names.get(m) == m.lower()
            ck.ob(R, "openapi:%s" % m, ok, g.loc(None), "" if ok else "gen_openapi_doc documents %s as %r from tree(s) %s" % (m, names.get(m), sorted(rows.get(m, []))), how="%s -> (\"%s\", self.%s)" % (m, m.lower(), m))
    # 3. From<base::Router> for final::Router
    fr = [f for f in prog.fns.values() if f.name == "from" and f.self_ty == "ohkami::router::r#final::Router"]
    if len(fr) != 1:
        raise AnchorLost("From<base::Router> for final::Router not found")
    f = fr[0]
    sites += 1
    aggs = [st["r"] for b in f.blocks for st in b["st"] if st["k"] == "=" and st["r"][0] == "agg" and st["r"][1].get("adt") == "ohkami::router::r#final::Router"]
    ok = len(aggs) == 1
    if ok:
        a = aggs[0]
        for fld, op in zip(a[1]["fields"], a[2]):
            d = decision.describe_deep(f, op, 3)
            ok1 = d == "from(arg1.%s)" % fld
            ck.ob(R, "convert:%s" % fld, ok1, f.loc(None), "" if ok1 else "the final router's %s tree is built from %s" % (fld, d), how="%s: Node::from(base.%s)" % (fld, fld))
        ok = sorted(a[1]["fields"]) == sorted(METHODS)
    ck.ob(R, "convert:fields", ok, f.loc(None), "" if ok else "final::Router is not built field by field from the six method trees", how="6 trees")
    # 4. register_handlers: handlers.M -> routes[Method::M] and self.M.register_handler
    rh = prog.method(r"^ohkami::router::base::Router$", "register_handlers")
    sites += 1
    reg = rh.calls_to(r"base::Node::register_handler$")
    seen = set()
    for c in reg:
        recv = decision.describe_deep(rh, c.args[0], 3)
        m = re.search(r"arg1\.(\w+)$", recv)
        tree = m.group(1) if m else "?"
        src = decision.describe_deep(rh, c.args[2], 6)
        if tree == "OPTIONS":
            ok = "default_options_with" in src and decision.describe_deep(rh, c.args[3], 1) == "const 1"
            ck.ob(R, "register:OPTIONS", ok, rh.loc(c.sp), "" if ok else "the OPTIONS tree is registered with %s (override %s)" % (src[:40], decision.describe_deep(rh, c.args[3], 1)), how="OPTIONS <- default_options_with(methods), override allowed")
            seen.add(tree)
            continue
        hs = re.search(r"arg2\.(\w+)", src)
        slot = hs.group(1) if hs else "?"
        ok = slot == tree and decision.describe_deep(rh, c.args[3], 1) == "const 0"
        ck.ob(R, "register:%s" % tree, ok, rh.loc(c.sp), "" if ok else "the %s tree receives the handler of slot %s (override %s)" % (tree, slot, decision.describe_deep(rh, c.args[3], 1)), how="self.%s <- handlers.%s, no override" % (tree, tree))
        seen.add(tree)
    ok = seen == set(METHODS)
    ck.ob(R, "register:coverage", ok, rh.loc(None), "" if ok else "register_handlers fills trees %s" % sorted(seen), how="5 handler slots + OPTIONS")
    # Method::M inserted into routes under slot M
    ins = [c for g in [rh] + prog.descendants(rh.key) for c in g.calls_to(r"TupleMap::<K, V>::(insert|from_iter)$")]
    # 5. merge_another: self.M.merge_node(.., another.M, override only for OPTIONS)
    ma = prog.method(r"^ohkami::router::base::Router$", "merge_another")
    sites += 1
    seen = set()
    for c in ma.calls_to(r"base::Node::merge_node$"):
        tb = decision.table_column(decision.describe_deep(ma, c.args[0], 10))
        if tb is not None:
            # `for (.., root, another_root, allow) in [(.., &mut self.GET, another.GET, false), ..] { root.merge_node(.., another_root, allow) }`
            tb2, tb3 = decision.table_column(decision.describe_deep(ma, c.args[2], 10)), decision.table_column(decision.describe_deep(ma, c.args[3], 10))
            for ri, row in enumerate(tb[0]):
                m = re.search(r"^arg1\.(\w+)$", row[tb[1]])
                tree = m.group(1) if m else "?%d" % ri
                other = ov = "?"
                if tb2 is not None and tb2[0] == tb[0]:
                    m2 = re.search(r"\.(\w+)$", row[tb2[1]])
                    other = m2.group(1) if m2 else "?"
                if tb3 is not None and tb3[0] == tb[0]:
                    ov = row[tb3[1]]
                ok = tree == other and ((ov == "const 1") == (tree == "OPTIONS")) and ov in ("const 0", "const 1")
                ck.ob(R, "merge:%s" % tree, ok, ma.loc(c.sp), "" if ok else "merge_another merges the mounted application's %s tree into %s (override %s)" % (other, tree, ov), how="self.%s <- another.%s%s (table row)" % (tree, tree, ", override" if tree == "OPTIONS" else ""))
                seen.add(tree)
            continue
        recv = decision.describe_deep(ma, c.args[0], 3)
        m = re.search(r"arg1\.(\w+)$", recv)
        tree = m.group(1) if m else "?"
        src = decision.describe_deep(ma, c.args[2], 5)
        m2 = re.search(r"\.(\w+)$", src)
        other = m2.group(1) if m2 else "?"
        st = ma.origin(c.args[3])
        if st and st[-1][0] == "multi":
            # `let mut allow = false; allow = true;` -- the last definition that dominates the call
            defs = [d for d in ma.defs().get(st[-1][1], []) if d[2] == "assign" and ma.dominates(d[0], c.bb)]
            defs.sort(key=lambda d: (len(ma.dom_chain(d[0])), d[1] if d[1] is not None else 0))
            ov = decision.describe_deep(ma, defs[-1][3]["r"][1], 1) if defs and defs[-1][3]["r"][0] == "use" else "?"
        else:
            ov = decision.describe_deep(ma, c.args[3], 2)
        ok = tree == other and ((ov == "const 1") == (tree == "OPTIONS")) and ov in ("const 0", "const 1")
        ck.ob(R, "merge:%s" % tree, ok, ma.loc(c.sp), "" if ok else "merge_another merges the mounted application's %s tree into %s (override %s)" % (other, tree, ov), how="self.%s <- another.%s%s" % (tree, tree, ", override" if tree == "OPTIONS" else ""))
        seen.add(tree)
    ok = seen == set(METHODS)
    ck.ob(R, "merge:coverage", ok, ma.loc(None), "" if ok else "merge_another merges trees %s" % sorted(seen), how="6 trees")
    # 6. apply_fangs: all six trees
    sites += 1
    seen, af = apply_fangs_trees(prog)
    ok = seen == set(METHODS)
    ck.ob(R, "apply_fangs:coverage", ok, af.loc(None), "" if ok else "Router::apply_fangs reaches trees %s: fangs would not run for the other methods" % sorted(seen), how="6 trees")
    ck.floor(R, "dispatch sites", sites, 5)


def c01b(ck, prog):
    R = "C01-b DECISION miss"
    s = prog.one(r"^ohkami::router::r#final::Node::search$")
    tab = {}
    for bi in sorted(s.live_blocks()):
        for st in s.blocks[bi]["st"]:
            if st["k"] == "=" and st["r"][0] == "ref":
                flds = [pr[2] for pr in st["r"][2][1] if pr[0] == "f"]
                if flds and flds[-1] in ("proc", "catch"):
                    base = decision.describe_deep(s, [st["r"][2][0], []], 3)
                    for fa in guards.facts_at(s, prog, bi):
                        if fa.kind == "boolcall" and fa.call.name == "search_target":
                            tab[fa.truth] = (flds[-1], base)
    ok = tab.get(True, ("",))[0] == "proc" and tab.get(False, ("",))[0] == "catch" and all("search_target" in v[1] for v in tab.values())
    ck.ob(R, "search:hit=>proc,miss=>catch", ok, s.loc(None), "" if ok else "Node::search selects %r, expected the target's proc on a hit and its catch on a miss" % tab, how="hit => &target.proc, miss => &target.catch")
    nf = prog.method(r"^ohkami::fang::handler::Handler$", "default_not_found")
    inner = [g for g in prog.fns.values() if g.key.startswith(nf.key) and g.name == "not_found"]
    ok = False
    for g in inner:
        body = prog.coroutine_body(g.key)
        if body.calls_to(r"Response>::NotFound$"):
            ok = True
    ck.ob(R, "default_not_found=404", ok, nf.loc(None), "" if ok else "the default not-found handler does not answer Response::NotFound()", how="async fn not_found() -> Response::NotFound()")
    src = [c for c in nf.calls() if c.name == "clone"]
    d = decision.describe_deep(nf, src[0].args[0], 5) if src else ""
    ok = "NOT_FOUND" in d and d.rstrip(")").endswith(".proc")
    ck.ob(R, "default_not_found:proc", ok, nf.loc(None), "" if ok else "default_not_found() does not hand out the 404 handler's proc (%s)" % d[:50], how="proc: NOT_FOUND.proc.clone()")


def c01c(ck, prog):
    roots = prog.find(r"^ohkami::router::r#final::Node::(search|search_target)$")
    if len(roots) != 2:
        raise AnchorLost("Node::search / search_target not found")
    rr = ReachRule(ck, prog, "C01-c REACH search", roots, audit=AUDIT, stop=[r"^ohkami::response::"])
    sinks = rr.run()
    # (no floor on the number of sinks: making the search safer removes sinks; the anchor is the pair of roots above)
    ck.floor("C01-c REACH search", "functions reached from the search", len(rr.R.reached), 3)


def final_builder(prog):
    """the function that turns one base::Node into a final Node (compression, child sort, proc/catch): the function of
    router::final that builds the procs from the node's fang list"""
    fr = [g for g in prog.fns.values() if g.crate == "ohkami" and "router::r#final::" in g.key and not g.root and g.calls_to(r"FangsList::into_proc_with$")]
    if len(fr) != 1:
        raise AnchorLost("expected one function of router::final building a final Node from a base::Node (calls FangsList::into_proc_with), found %d" % len(fr))
    return fr[0]


def node_helper(caller, callee):
    """local helpers that work on the base::Node being converted (compression / ordering moved out of `from`)"""
    return (callee.crate == caller.crate and callee.argc >= 1 and len(callee.locals) > 1
            and re.search(r"^(&(?:'\w+ )?(mut )?)?ohkami::router::base::Node$", callee.locals[1] or "") is not None
            and not callee.calls_to(r"FangsList::into_proc_with$"))


def final_builder_view(prog):
    return prog.inlined(final_builder(prog), 2, node_helper)


def on_arg1(f, place):
    """does the place name (a field of) the first parameter, directly or through a reference to it handed to a helper?"""
    if place[0] == 1:
        return True
    return re.match(r"^arg1(\.|$)", decision.describe_deep(f, ["c", [place[0], []]], 4)) is not None


def c01d(ck, prog):
    """The search tries children in slice order and commits to the first match, so `static before param` and
    `longer static before its prefix` hold only if the final children are sorted -- after every mutation of the list."""
    R = "C01-d ORDER child order"
    f = final_builder_view(prog)
    sb = [c for c in f.calls() if c.name in ("sort_by", "sort_unstable_by", "sort_by_key", "sort", "sort_by_cached_key") and "children" in decision.describe_deep(f, c.args[0], 3)]
    ok = len(sb) == 1
    ck.ob(R, "children-sorted", ok, f.loc(None), "" if ok else "the final node's children are sorted %d times" % len(sb), how="base.children.sort_by(..)", nontrivial=False)
    if not ok:
        return
    srt = sb[0]
    # mutations of the child list: stores to .children, and mutating calls on it
    muts = [(bi, "children = ..") for bi, st, agg in decision.field_stores(f, "children")]
    for c in f.calls():
        if c.name in ("pop", "push", "append", "insert", "remove", "swap_remove", "retain", "extend", "truncate", "drain", "reverse", "swap", "dedup", "dedup_by", "rotate_left") and c.args and re.search(r"arg1\.children\)?$", decision.describe_deep(f, c.args[0], 3)):
            muts.append((c.bb, c.name))
    late = [(bi, what) for bi, what in muts if bi in f.reachable_from(srt.target)]
    ok = not late and bool(muts)
    ck.ob(R, "sort-after-last-mutation", ok, f.loc(srt.sp),
          "" if ok else "the children are sorted and then changed again (%s): a compressed node takes over its child's children unsorted, so a `:param` child can be tried before a static sibling, or a static prefix before the longer static" % ", ".join(w for _, w in late),
          how="no mutation of base.children is reachable after the sort (%d mutation site(s) before it)" % len(muts))
    # the sorted list is what gets converted
    conv = [c for c in f.calls() if c.name == "into_iter" and re.search(r"arg1\.children$", decision.describe_deep(f, c.args[0], 3))]
    ok = len(conv) == 1 and f.dominates(srt.bb, conv[0].bb)
    ck.ob(R, "sorted-list-is-converted", ok, f.loc(None), "" if ok else "the converted children are not the sorted list", how="sort dominates base.children.into_iter().map(Node::from)")
    # comparator: static before param; statics in reverse lexical order (a longer static before its own prefix)
    clos = f.origin(srt.args[1])
    cf = prog.fns.get(clos[-1][1][1].get("def")) if clos and clos[-1][0] == "agg" else None
    A, B = "arg2", "arg3"    # a closure's own parameters follow its environment
    if cf is None and clos and clos[-1][0] == "const" and clos[-1][1].get("fn"):
        cf = prog.fns.get(clos[-1][1]["fn"])     # a named comparator function
        A, B = "arg1", "arg2"
    if cf is None:
        ck.ob(R, "comparator", False, f.loc(srt.sp), "the comparator is neither a closure literal nor a local function")
        return
    tab = {}
    for conds, val in decision.const_table(cf, prog):
        key = tuple(c[1] for c in conds)
        tab[key] = (val or {}).get("desc", "")
    ok = tab.get(("Static", "Param"), "").startswith("Less") and tab.get(("Param", "Static"), "").startswith("Greater") and tab.get(("Param", "Param"), "").startswith("Equal")
    ck.ob(R, "comparator:static-before-param", ok, cf.loc(None), "" if ok else "the child comparator is %r: a static alternative must sort before a param alternative" % tab, how="(Static, Param) => Less, (Param, Static) => Greater, (Param, Param) => Equal")
    ss = tab.get(("Static", "Static"), "")
    c = [x for x in cf.calls() if x.name == "cmp"]
    ok = len(c) == 1
    if ok:
        # a.cmp(b).reverse() or b.cmp(a): operands traced to the comparator's two parameters
        first, second = decision.describe_deep(cf, c[0].args[0], 6), decision.describe_deep(cf, c[0].args[1], 6)
        has = lambda d, x: re.search(r"\b%s\b" % x, d) is not None
        if ss.startswith("reverse(cmp("):
            ok = has(first, A) and has(second, B) and not has(first, B) and not has(second, A)
        elif ss.startswith("cmp("):
            ok = has(first, B) and has(second, A) and not has(first, A) and not has(second, B)
        else:
            ok = False
    ck.ob(R, "comparator:statics-reverse-lexical", ok, cf.loc(None), "" if ok else "static siblings are ordered by `%s`, expected a.cmp(b).reverse() or b.cmp(a) (so that `/users` is tried before `/user`)" % ss[:60], how="(Static(a), Static(b)) => a.cmp(b).reverse() / b.cmp(a)")


def c01e(ck, prog, f):
    """Compression lets a node take over its only child's handler. In each iteration that store must sit under a test,
    made in the same iteration, that the node has no handler of its own -- otherwise a registered handler is overwritten
    and its route answers 404."""
    R = "C01-e GUARD handler kept"
    from .lib.bound import natural_loops
    loops = natural_loops(f)
    n = 0
    for bi, st, agg in decision.field_stores(f, "handler"):
        if not on_arg1(f, st["p"]):
            continue
        inner = [h for h, body in loops.items() if bi in body]
        if not inner:
            continue
        n += 1
        body = loops[min(inner, key=lambda h: len(loops[h]))]
        tested = [fa for fa in guards.facts_at(f, prog, bi)
                  if fa.sw_bb in body and ((fa.kind == "boolcall" and fa.truth and fa.call.name == "is_none" and re.search(r"arg1\.handler\)?$", decision.describe_deep(f, fa.call.args[0], 3)))
                                           or (fa.kind == "variant" and fa.allowed == {"None"} and re.search(r"arg1\.handler", guards.describe_origin(f, fa.steps))))]
        ok = bool(tested)
        if not ok:
            # the test may sit in a predicate helper (`while is_compressible(&base) { .. }`): from the loop head, every path to
            # the store takes the edge `base.handler is none`
            from .lib import pathsens
            hh = min(inner, key=lambda h: len(loops[h]))

            def none_edge(facts):
                for fa in facts:
                    if fa.kind == "boolcall" and ((fa.truth and fa.call.name == "is_none") or (not fa.truth and fa.call.name == "is_some")) and re.search(r"arg1\.handler\)?$", decision.describe_deep(f, fa.call.args[0], 4)):
                        return True
                    if fa.kind == "variant" and fa.allowed == {"None"} and re.search(r"arg1\.handler", guards.describe_origin(f, fa.steps) + (decision.describe_deep(f, fa.place, 4) if getattr(fa, "place", None) else "")):
                        return True
                return False
            ok = pathsens.path_avoiding_edges(f, prog, hh, bi, none_edge, constprop=True) is None
            if ok:
                tested = [type("T", (), {"sw_bb": hh})()]
        ck.ob(R, "compression:handler-store", ok, f.loc(st.get("sp")),
              "" if ok else "while compressing single-child chains the node's handler is replaced by its child's without a test in the same iteration that the node has none: "
              "after absorbing a child that has a handler, a further absorption overwrites it (`/api/users` + `/api/users/active` => `/api/users` answers 404)",
              how="store dominated by `base.handler.is_none()` evaluated inside the loop (bb%d)" % (tested[0].sw_bb if tested else -1))
    ck.floor(R, "handler stores inside the compression loop", n, 1)


def c01f(ck, prog):
    """`a static segment matches only the identical segment`: a static pattern is compared as a byte prefix of the rest of
    the path, so a match must also establish that the prefix ends at a segment boundary -- nothing is left, or the next
    byte is `/`. Every path to the `Some(remaining)` answer of the Static arm of Pattern::take_through must take a branch
    edge that establishes one of the two."""
    R = "C01-f GUARD segment boundary"
    from .lib import pathsens
    f = prog.one(r"router::r#final::Pattern::take_through$")
    sw = [b for b in sorted(f.live_blocks()) if f.blocks[b]["t"]["k"] == "switch" and (f.switch_info(b) or {}).get("kind") == "variant" and "Pattern" in ((f.switch_info(b) or {}).get("ty") or "")]
    if not sw:
        raise AnchorLost("no match on the pattern kind in Pattern::take_through")
    s0 = sw[0]
    names = prog.variant_names(f.switch_info(s0)["ty"]) or {}
    entry = [tb for tb, lab in f.succ(s0) if lab != "otherwise" and names.get(lab) == "Static"]
    if not entry:
        entry = [tb for tb, lab in f.succ(s0) if lab == "otherwise"]
    entry = entry[0]
    arm_sites = [(bb, kind, pl) for bb, kind, pl in paths.ret_sites(f) if f.edge_dominates(s0, entry, bb)]
    somes = [bb for bb, kind, _ in arm_sites if kind == "Some"]
    filtered = [(bb, pl) for bb, kind, pl in arm_sites if kind == "call" and pl.name == "filter"]
    if not somes and not filtered:
        raise AnchorLost("the Static arm of Pattern::take_through answers neither `Some(remaining)` nor `strip_prefix(..).filter(..)`")

    def boundary_in(f, facts):
        for fa in facts:
            if fa.kind == "cmp":
                for a, b, op in ((fa.lhs, fa.rhs, fa.op), (fa.rhs, fa.lhs, guards.FLIP[fa.op])):
                    ca = guards.const_int(b[-1][1]) if b and b[-1][0] == "const" else None
                    # next byte is `/`
                    if op == "Eq" and ca == 47 and a and a[-1][0] == "call" and a[-1][1].name in ("get_unchecked", "index", "get", "first", "unwrap_unchecked", "unwrap"):
                        return True
                    # nothing left: len(bytes) == len(pattern) / len(remaining) == 0
                    if op == "Eq" and guards.is_len_origin(f, a) and (guards.is_len_origin(f, b) or ca == 0):
                        return True
            if fa.kind == "boolcall" and fa.truth:
                if fa.call.name == "is_empty":
                    return True
                if fa.call.name in ("starts_with", "eq") and any((c or {}).get("s") == "/" or (c or {}).get("ch") == "/" or guards.const_int(c) == 47 for c in f.const_args(fa.call)):
                    return True
            if fa.kind == "variant" and fa.allowed in ({"None"},) and fa.steps and fa.steps[-1][0] == "call" and fa.steps[-1][1].name in ("first", "get", "split_first"):
                return True  # `remaining.first()` is None: nothing left
            if fa.kind == "int" and fa.values == {47}:
                return True
        return False

    boundary = lambda facts: boundary_in(f, facts)

    # equivalent safe idiom: `bytes.strip_prefix(pattern).filter(|rest| <boundary test on rest>)`
    for i, (bb, call) in enumerate(filtered):
        recv = f.origin(call.args[0])
        okp = bool(recv) and recv[-1][0] == "call" and recv[-1][1].name == "strip_prefix"
        cdef = None
        for a in call.args[1:]:
            st = f.origin(a)
            if st and st[-1][0] == "agg" and st[-1][1][1].get("k") == "closure":
                cdef = prog.fns.get(st[-1][1][1]["def"])
        okc = cdef is not None
        if okc:
            for cb, ckind, cpl in paths.ret_sites(cdef):
                if ckind == "const" and str(cpl.get("v")) == "0":
                    continue
                # every path to a `true` answer takes an edge that establishes the boundary (or-patterns join their edges,
                # so dominating facts alone would miss it)
                if pathsens.path_avoiding_edges(cdef, prog, 0, cb, lambda facts: boundary_in(cdef, facts)) is not None:
                    okc = False
        ck.ob(R, "static-match:filtered-by-boundary#%d" % i, okp and okc, f.loc(call.sp),
              "" if okp and okc else "the Static arm answers `%s`: the remainder after the pattern is not filtered by a predicate that holds only when nothing is left or the next byte is `/`" % decision.describe_deep(f, ["c", [0, []]], 2)[:80],
              how="strip_prefix(pattern).filter(|rest| rest is empty or starts with `/`)")
    for i, bb in enumerate(sorted(somes)):
        p = pathsens.path_avoiding_edges(f, prog, entry, bb, boundary)
        ok = p is None
        ck.ob(R, "static-match:ends-at-boundary#%d" % i, ok, f.loc(f.blocks[bb]["t"].get("sp")),
              "" if ok else "Pattern::take_through answers Some(remaining) for a static pattern that is merely a byte prefix of the rest of the path (path bb%s takes no branch establishing "
              "`nothing left` or `next byte is /`): with routes `/users` and `/:page`, GET /users2 enters the `/users` node, finds no child for `2` and answers 404 instead of running the `/:page` handler"
              % "->bb".join(str(x) for x in p),
              how="every path to Some(remaining) takes an edge establishing `len == pattern.len()` or `bytes[pattern.len()] == b'/'`")


def c01g(ck, prog):
    """Search descends into the *first* param child only, so a node must never get a second one: a child is appended either
    after a look-up that found no matchable child (a param pattern is matched by any existing param child), or by an
    append_child that itself refuses/merges a second param child."""
    R = "C01-g INVARIANT one param child"
    ac = prog.one(r"^ohkami::router::base::Node::append_child$")
    # does append_child itself guard its Param arm?
    own = False
    for c in ac.calls():
        if c.name == "push" and re.search(r"^alloc::vec::Vec", c.callee or ""):
            fs = guards.facts_at(ac, prog, c.bb)
            is_param_arm = any(fa.kind == "variant" and fa.allowed == {"Param"} for fa in fs)
            if is_param_arm and any(fa.kind == "boolcall" and fa.call.name in ("is_none", "any", "all", "is_some", "contains") for fa in fs):
                own = True
    sites = prog.callers().get(ac.key, [])
    n = 0
    for c in sites:
        g = c.fn
        n += 1
        def none_of_lookup(fa, g=g):
            if fa.kind == "variant" and fa.allowed == {"None"} and fa.steps and fa.steps[-1][0] == "multi" and getattr(fa, "place", None):
                # `let existing = match pattern { Some(p) if p.is_param() => self.machable_child_mut(p), _ => None }`: the look-up or
                # nothing, bound in match arms (a static child that skips it is checked by append_child's own duplicate test)
                lv = paths.leaf_values(g, ["c", fa.place])
                calls_ = [l for l in lv if l[0] == "call"]
                rest = [l for l in lv if l[0] != "call"]
                if calls_ and all(l[1].name == "machable_child_mut" for l in calls_) and all(l[0] == "other" and isinstance(l[1], list) and l[1][0] == "agg" and l[1][1].get("variant") == "None" for l in rest):
                    return True
            if not (fa.kind == "variant" and fa.allowed == {"None"} and fa.steps and fa.steps[-1][0] == "call"):
                return False
            call = fa.steps[-1][1]
            if call.name == "machable_child_mut":
                return True
            # `pattern.filter(is_param).and_then(|p| self.machable_child_mut(p))`: the look-up sits in the combinator's closure;
            # a static child that skips it is still checked by append_child's own duplicate test
            for a in call.args:
                st = g.origin(a)
                if st and st[-1][0] == "agg" and st[-1][1][1].get("k") == "closure":
                    h = prog.fns.get(st[-1][1][1]["def"])
                    if h is not None and h.calls_to(r"Node::machable_child_mut$"):
                        return True
            return False
        looked = paths.has_fact(g, prog, c.bb, none_of_lookup) is not None
        ok = own or looked
        ck.ob(R, "append_child<-%s" % g.name, ok, g.loc(c.sp),
              "" if ok else "%s appends a child without having looked for an existing matchable child, and append_child accepts a second `:param` child: the search only ever descends into the first one, so with "
              "`\"/users/:id\".GET(..)` followed by `\"/users\".By(Ohkami::new(\"/:user/posts\".GET(..)))` GET /users/42/posts answers 404 (and 200 when the two are registered in the other order)" % g.key,
              how="dominated by `machable_child_mut(pattern)` == None" if looked else "append_child guards its Param arm")
    ck.floor(R, "append_child call sites", n, 1)
    # the look-up treats every param child as matching a param pattern (whatever the parameter is called)
    mc = prog.one(r"^ohkami::router::base::Node::machable_child_mut$")
    cmpc = [c for g in [mc] + prog.descendants(mc.key) for c in g.calls() if c.callee in prog.fns and "Pattern" in (c.callee or "")]
    if len(cmpc) != 1:
        raise AnchorLost("machable_child_mut does not compare patterns through one function of Pattern (%r): whether a param pattern matches any existing param child cannot be read" % [c.callee for c in mc.calls()][-3:])
    m = prog.fns[cmpc[0].callee]
    arms = {}
    for bb, kind, pl in paths.ret_sites(m):
        v = [tuple(fa.allowed)[0] for fa in guards.facts_at(m, prog, bb) if fa.kind == "variant" and fa.allowed and len(fa.allowed) == 1 and tuple(fa.allowed)[0] in ("Param", "Static")]
        arms[v[0] if v else None] = (kind, pl.name if kind == "call" else None, [decision.describe_deep(m, a, 3) for a in pl.args] if kind == "call" else [])
    pa = arms.get("Param")
    ok = pa is not None and pa[0] == "call" and pa[1] == "is_param" and pa[2] == ["arg2"]
    ck.ob(R, "lookup:param-matches-any-param", ok, m.loc(None), "" if ok else "for a param child the pattern comparison answers %r, expected `another.is_param()`: comparing parameter names lets `/users/:id` and `/users/:user/posts` create two param children" % (pa,),
          how="Pattern::matches: Param(_) => another.is_param()")
    sa = arms.get("Static")
    ok = sa is not None and sa[0] == "call" and sa[1] == "eq" and all("to_static(" in x for x in sa[2])
    ck.ob(R, "lookup:static-matches-equal-text", ok, m.loc(None), "" if ok else "for a static child the pattern comparison answers %r, expected equality of the static texts" % (sa,), how="Static(_) => self.to_static() == another.to_static()")
    # direct growth of a base node's children outside append_child
    direct = []
    for g in prog.fns.values():
        if g.crate != "ohkami" or "router::base" not in g.key or g is ac:
            continue
        for c in g.calls():
            if c.name in ("push", "insert", "extend", "append") and re.search(r"^alloc::vec::Vec", c.callee or "") and c.args and re.search(r"\.children\)?$", decision.describe_deep(g, c.args[0], 3)):
                direct.append((g, c))
    ck.ob(R, "who:children-grow-only-in-append_child", not direct, direct[0][0].loc(direct[0][1].sp) if direct else ac.loc(None),
          "" if not direct else "%s grows `children` directly, bypassing append_child" % direct[0][0].key, how="no Vec growth on `.children` of a base node outside append_child", nontrivial=False)


def mount_keeps_handlers(ck, prog, R):
    """Mounting merges the mounted application's root node into the node at the mount point. A handler already registered
    there (for the OPTIONS tree: the automatic preflight handler of the parent's own route) may be replaced by the mounted
    root's handler, but never by *nothing*: in Node::merge_here the node's handler is assigned only on the edge where the
    mounted root has one."""
    mh = prog.method(r"^ohkami::router::base::Node$", "merge_here")
    f = prog.inlined(mh, 1, r"$^")
    n = 0
    sites = [(bi, st.get("sp"), "self.handler = ..") for bi, st, agg in decision.field_stores(mh, "handler") if on_arg1(mh, st["p"])]
    sites += [(c.bb, c.sp, "set_handler(..)") for c in mh.calls_to(r"base::Node::set_handler$") if re.match(r"^arg1$", decision.describe_deep(mh, c.args[0], 3))]
    for bb, sp, what in sites:
        n += 1
        some = paths.has_fact(mh, prog, bb, lambda fa: fa.kind == "variant" and fa.allowed == {"Some"} and re.search(r"arg2\.handler", (decision.describe_deep(mh, fa.place, 4) if getattr(fa, "place", None) else "") + guards.describe_origin(mh, fa.steps))) is not None
        ck.ob(R, "merge_here:handler-only-from-Some", some, mh.loc(sp),
              "" if some else "merge_here assigns the node's handler (%s) on a path that has not established that the mounted root has a handler: mounting an application whose root has no handler for a method "
              "erases the handler registered at the mount point (for OPTIONS, where overriding is allowed: the automatic preflight handler, so the preflight of the parent's own route answers 404)" % what,
              how="%s under the Some edge of another_root.handler" % what)
    ck.floor(R, "handler assignments in merge_here", n, 1)


def c01i(ck, prog):
    """`a param segment matches any non-empty segment`: in the Param arm of Pattern::take_through every path to the
    `Some(remaining)` answer takes a branch edge that establishes that the captured segment is not empty -- the byte after
    the leading `/` is not another `/`, or the captured slice itself was tested non-empty. (That *something* follows the
    slash is not enough: in `/users//posts` plenty follows.)"""
    R = "C01-i GUARD param segment non-empty"
    from .lib import pathsens
    f = prog.one(r"router::r#final::Pattern::take_through$")
    fv = prog.flattened(f, r"split_next_section$|strip_prefix$", combinators=True)
    sw = [b for b in sorted(fv.live_blocks()) if fv.blocks[b]["t"]["k"] == "switch" and (fv.switch_info(b) or {}).get("kind") == "variant" and "Pattern" in ((fv.switch_info(b) or {}).get("ty") or "")]
    if not sw:
        raise AnchorLost("no match on the pattern kind in Pattern::take_through")
    s0 = sw[0]
    names = prog.variant_names(fv.switch_info(s0)["ty"]) or {}
    entry = [tb for tb, lab in fv.succ(s0) if lab != "otherwise" and names.get(lab) == "Param"] or [tb for tb, lab in fv.succ(s0) if lab == "otherwise"]
    entry = entry[0]
    somes = [bb for bb, kind, _ in paths.ret_sites(fv) if kind == "Some" and bb in fv.reachable_from(entry) and not any(bb in fv.reachable_from(tb) for tb, lab in fv.succ(s0) if tb != entry)]

    def nonempty_edge(facts):
        for fa in facts:
            if fa.kind == "cmp" and fa.op == "Ne" and fa.rhs and fa.rhs[-1][0] == "const" and guards.const_int(fa.rhs[-1][1]) == 47:
                return True
            if fa.kind == "cmp" and fa.op == "Ne" and fa.lhs and fa.lhs[-1][0] == "const" and guards.const_int(fa.lhs[-1][1]) == 47:
                return True
            if fa.kind == "int" and fa.values is None and fa.excluded and 47 in fa.excluded:
                return True
            if fa.kind == "boolcall" and not fa.truth and fa.call.name == "is_empty" and "split_next_section(" in decision.describe_deep(fv, fa.call.args[0], 6):
                return True
            if fa.kind == "cmp" and fa.op in ("Gt", "Ge", "Ne") and "split_next_section(" in guards.describe_origin(fv, fa.lhs) and "len" in guards.describe_origin(fv, fa.lhs):
                return True
        return False
    for bb in somes:
        ex = pathsens.path_avoiding_edges(fv, prog, entry, bb, nonempty_edge, constprop=True)
        ok = ex is None
        ck.ob(R, "param:Some-only-for-a-non-empty-segment", ok, fv.loc(fv.blocks[bb]["t"].get("sp")),
              "" if ok else "the Param arm of take_through answers Some(remaining) on a path that never established that the captured segment is non-empty (the byte after the `/` is not `/`): "
              "`/users//posts` matches `/users/:id/posts` with an empty id", how="every path to Some(remaining) takes an edge `next byte != '/'` (or a non-emptiness test of the captured slice)")
    ck.floor(R, "Some answers of the Param arm", len(somes), 1)


def c01j(ck, prog):
    """`one trailing slash is ignored` -- one, not all: `/users//` has an extra empty segment and matches nothing. The length
    of the normalised path that Path::init_with_request_bytes stores is the length of the request target, or that length
    minus one, the latter only under a test that the last byte is `/` (and the subtraction is not repeated)."""
    from .lib.bound import natural_loops
    R = "C01-j DECISION one trailing slash"
    f = prog.one(r"request::path::.*Path>::init_with_request_bytes$")
    f = prog.inlined(f, 1, lambda caller, callee: callee.crate == caller.crate and len(callee.blocks) < 60 and "request::path" in callee.key)
    cs = f.calls_to(r"Slice::new_unchecked$|Slice::from_bytes$")
    if len(cs) != 1:
        raise AnchorLost("the normalised path is not built by exactly one Slice constructor in init_with_request_bytes (%d)" % len(cs))
    c = cs[0]
    lenop = c.args[1] if c.name == "new_unchecked" else c.args[0]
    d = decision.describe_deep(f, lenop, 10)
    whole = re.compile(r"^len\((deref\()*arg2\)*$")
    ok, how = False, d[:90]
    o = f.origin(lenop)
    if whole.match(d):
        ok, how = False, "the whole target, trailing slash kept"
    elif re.search(r"strip_suffix\((deref\()*arg2\)*,const b?['\"]/['\"]", d) and re.search(r"unwrap_or\(", d) and not re.search(r"trim_end|rposition|rfind|rsplit|trim_matches", d):
        ok, how = True, "strip_suffix(b\"/\").unwrap_or(whole)"
    elif o and o[-1][0] == "multi":
        loops = natural_loops(f)
        defs = [x for x in f.defs().get(o[-1][1], []) if not f.is_cleanup(x[0])]
        kinds = []
        for (dbb, si, dk, payload) in defs:
            if dk == "call":
                cd = decision.describe_deep(f, ["c", [o[-1][1], []]], 1)
                from .lib.mir import Call
                cc = Call(f, dbb, payload, False)
                kinds.append("whole" if cc.name == "len" and cc.args and re.match(r"^(deref\()*arg2\)*$", decision.describe_deep(f, cc.args[0], 4)) else "other:call %s" % cc.name)
            elif dk == "assign" and payload["r"][0] in ("use", "bin"):
                if payload["r"][0] == "bin":
                    # overflow checks off: `len = Sub(len, const 1)` without the checked pair
                    rb = payload["r"]
                    dd = "%s(%s,%s)" % (rb[1], decision.describe_deep(f, rb[2], 5), decision.describe_deep(f, rb[3], 2))
                else:
                    dd = decision.describe_deep(f, payload["r"][1], 6)
                m = re.match(r"^Sub(?:WithOverflow)?\((?:var:\w+|len\((?:deref\()*arg2\)*),const 1\)(\.0)?$", dd)
                in_loop = any(dbb in body for body in loops.values())
                last_is_slash = False
                for fa in guards.facts_at(f, prog, dbb):
                    if fa.kind == "cmp" and fa.op == "Eq":
                        l, r = guards.describe_origin(f, fa.lhs), guards.describe_origin(f, fa.rhs)
                        if ("const 47" in (l, r)) and re.search(r"get_unchecked|index|last|arg2", l + r):
                            last_is_slash = True
                    elif fa.kind == "boolcall" and fa.truth and fa.call.name == "ends_with":
                        last_is_slash = True
                    elif fa.kind == "variant" and fa.allowed == {"Some"} and "strip_suffix" in guards.describe_origin(f, fa.steps):
                        last_is_slash = True
                kinds.append("minus-one" if (m and last_is_slash and not in_loop) else "other:%s%s%s" % (dd[:40], "" if last_is_slash else " (not under `last byte is /`)", " (in a loop)" if in_loop else ""))
            else:
                kinds.append("other:%s" % dk)
        if c.name == "from_bytes":
            # the operand is the slice itself: `match bytes { [rest @ .., b'/'] => rest, _ => bytes }`
            kinds = []
            for (dbb, si, dk, payload) in defs:
                if dk != "assign":
                    kinds.append("other:%s" % dk)
                    continue
                r = payload["r"]
                src = None
                if r[0] == "use" and r[1][0] in ("c", "m"):
                    src = r[1][1]
                elif r[0] == "ref":
                    src = r[2]
                    # `&*tmp` where `tmp = &(*bytes)[0..len-1]`
                    if [pr[0] for pr in src[1]] == ["d"]:
                        sd = f.single_def(src[0])
                        if sd and sd[2] == "assign" and sd[3]["r"][0] == "ref":
                            src = sd[3]["r"][2]
                if src is None:
                    kinds.append("other:%s" % r[0])
                    continue
                subs = [pr for pr in src[1] if pr[0] == "sub"]
                base_d = decision.describe_deep(f, ["c", [src[0], []]], 4)
                if not re.match(r"^(deref\()*arg2\)*$", base_d):
                    kinds.append("other:slice of %s" % base_d[:30])
                elif not subs:
                    kinds.append("whole")
                elif len(subs) == 1 and subs[0][1:] == [0, 1, True]:
                    guarded = False
                    for fa in guards.facts_at(f, prog, dbb):
                        if fa.kind == "int" and fa.values == {47}:
                            dsc = f.blocks[fa.sw_bb]["t"]["discr"]
                            if dsc[0] in ("c", "m") and dsc[1][0] == src[0] and any(pr[0] == "ci" and pr[1] == 1 and pr[3] is True for pr in dsc[1][1]):
                                guarded = True
                    kinds.append("minus-one" if guarded else "other:[..len-1] not under `last byte is /`")
                else:
                    kinds.append("other:subslice %s" % subs)
        ok = set(kinds) == {"minus-one", "whole"} and kinds.count("minus-one") == 1
        how = "len = target length; len -= 1 iff the last byte is `/`" if ok else "definitions of the length: %s" % kinds
    ck.ob(R, "normalised-length", ok, f.loc(c.sp), "" if ok else "the normalised request path has length `%s`: not `the target with exactly one trailing slash removed` -- paths with an extra empty trailing segment (`/users//`) "
          "would be dispatched like `/users`, or a single trailing slash would not be ignored" % how, how=how)
