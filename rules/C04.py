"""C04 Fangs run in onion order and exactly within their application's scope.
Decides: (a) tuple nesting order of Fangs::build / openapi_map_operation; (b) FangActionProc fore -> inner -> back protocol with
early return; (c) handler-local fangs wrap the handler's own proc, innermost; (d) routing tuples keep declaration order, and
FangsList::into_proc_with folds inner-to-outer."""
import re

from .lib import decision, guards, paths
from .lib.mir import AnchorLost

CONFIGS_QUICK = ["A", "R"]
CONFIGS_THOROUGH = ["A", "R", "NOAPI"]
TECHNIQUE = ("sibling-family rules over the impl table (absolute rule per member + agreement with the member's arity) and dominance rules on FangActionProc::bite's "
             "coroutine; must-alias value flow with variant tracking over the combinator-expanded MIR of the router's search")
LEVEL_TEXT = ('Decides clauses C04-a..d and C04-f..i: each of the Fangs impls (blanket, unit, tuples 1-8) builds chain(f1, chain(f2, .. chain(fn, inner))) and hands '
              'exactly that to BoxedFPC::from_proc (same nesting for openapi_map_operation); FangActionProc::bite calls the inner proc only on the Ok edge of fore, b'
              "ack only after the inner proc, and returns the Err response without either; the four local-fang IntoHandler impls wrap the handler's own proc with the"
              ' fang tuple in declaration order and delegate n_params; every Routing impl (all arities) stores the tuple of its leading fang components in order and '
              "applies each remaining component exactly once, in order; FangsList::into_proc_with seeds the fold with the first list's build of the handler proc and "
              'wraps the rest in iteration order, for both the matched and the not-found proc of a node; when an application is mounted, every success path of the pe'
              "r-method tree merge passes through the step that hands the mounted application's fangs to the mount point (no early success return before it); a node'"
              's fang list grows only in FangsList::add, under a search of the whole list for the application id (no duplicate entry, so no fang runs twice); the fin'
              "al tree's single-child compression absorbs a child only under tests that node, child and the node above carry the same fangs (two known findings on th"
              'e pinned tree: it does not, see known_findings.json); in Node::search_target (local helpers, std combinators and the closures handed to them expanded)'
              " every answer reached from a successful pattern match, before another pattern matches, names the matched node (must-alias flow of that node's referenc"
              "e through copies, re-borrows, tuples and Options), so a miss under a mount is handled by the catch that carries the mounted application's fangs. Route"
              "r::apply_fangs hands an application's fangs to every per-method tree of the router (every base::Node field of base::Router), so no method is served wi"
              "thout them. Node::apply_fangs recurses into every child: from the child iterator's Some edge the iterator is not advanced again without the recursive "
              'call, and the iterator runs over the whole child list. Decides these clauses, not the order/scope across mounted applications after tree compression.')

FANG_CHAIN = r"^ohkami::fang::Fang::chain$"


def run(ck, progs):
    ck.explanation = LEVEL_TEXT
    ck.assumptions = ["A2: user fangs' own chain()/bite() are outside"]
    for cfg, prog in progs.items():
        ck.config = cfg
        ck.guard("C04-a SIBLING tuple nesting", lambda: c04a(ck, prog))
        ck.guard("C04-b MUSTPASS action protocol", lambda: c04b(ck, prog))
        ck.guard("C04-c SIBLING local fangs", lambda: c04c(ck, prog))
        ck.guard("C04-d SIBLING routing order", lambda: c04d(ck, prog))
        ck.guard("C04-f MUSTPASS mount fangs", lambda: c04f(ck, prog))
        ck.guard("C04-g INVARIANT one entry per application", lambda: c04g(ck, prog))
        ck.guard("C04-h GUARD compression keeps fang scope", lambda: c04h(ck, prog))
        ck.guard("C04-i DECISION miss answered by deepest match", lambda: c04i(ck, prog))
    ck.config = None


def tuple_arity(ty):
    """'(F1, F2, F3)' -> 3 ; '(F1,)' -> 1 ; '()' -> 0 ; other -> None"""
    t = ty.strip()
    if not (t.startswith("(") and t.endswith(")")):
        return None
    inner = t[1:-1].strip()
    if not inner:
        return 0
    depth = 0
    n = 1
    for ch in inner.rstrip(","):
        if ch in "(<[":
            depth += 1
        elif ch in ")>]":
            depth -= 1
        elif ch == "," and depth == 0:
            n += 1
    return n


def nested(fname, n, innermost):
    s = innermost
    for i in reversed(range(n)):
        s = "%s(arg1.%d,%s)" % (fname, i, s)
    return s


def c04a(ck, prog):
    R = "C04-a SIBLING tuple nesting"
    impls = [im for im in prog.impls if im.get("trait") == "ohkami::fang::middleware::Fangs" and im["crate"] == "ohkami"]
    ck.floor(R, "Fangs impls", len(impls), 10)
    seen = set()
    for im in impls:
        n = tuple_arity(im["self_ty"])
        tag = "tuple%d" % n if n is not None else "blanket"
        seen.add(tag)
        for nm, key, ti in im["items"]:
            f = prog.fns.get(key)
            if f is None or nm not in ("build", "openapi_map_operation"):
                continue
            rows = decision.const_table(f, prog)
            if len(rows) != 1:
                ck.ob(R, "%s:%s" % (tag, nm), False, f.loc(None), "%s for %s is not straight-line code" % (nm, im["self_ty"]))
                continue
            val = rows[0][1] or {}
            if nm == "build":
                fp = [c for c in f.calls() if c.name == "from_proc" and "BoxedFPC" in (c.callee or "")]
                if n == 0:
                    d = val.get("desc", "")
                    ok = d == "arg2" and not fp
                    ck.ob(R, "%s:build" % tag, ok, f.loc(None), "" if ok else "Fangs::build for () returns %s, expected the inner proc unchanged" % d, how="() => inner")
                    continue
                got = decision.describe_deep(f, fp[0].args[0], 12) if len(fp) == 1 else "?"
                want = "chain(arg1,arg2)" if n is None else nested("chain", n, "arg2")
                ok = got == want and all(re.search(FANG_CHAIN, c.decl or "") for c in f.calls() if c.name == "chain")
                retd = decision.describe_deep(f, ["c", [0, []]], 2) if False else val.get("desc", "")
                ok = ok and "from_proc" in retd
                ck.ob(R, "%s:build" % tag, ok, f.loc(None),
                      "" if ok else "Fangs::build for %s wraps as %s, expected %s: the fangs of one application would not run in declaration order (first = outermost)" % (im["self_ty"], got, want), how=want)
            else:
                got = val.get("desc", "")
                if n == 0:
                    want = "arg2"
                elif n is None:
                    want = "openapi_map_operation(arg1,arg2)"
                else:
                    want = nested("openapi_map_operation", n, "arg2")
                # compare structurally: strip the printed argument lists beyond depth
                full = decision.describe_deep(f, f.calls()[-1].dest, 12) if False else None
                calls = [c for c in f.calls() if c.name == "openapi_map_operation"]
                got2 = nest_of(f, calls) if n not in (0,) else got
                ok = got2 == want
                ck.ob(R, "%s:openapi_map_operation" % tag, ok, f.loc(None), "" if ok else "openapi_map_operation for %s nests as %s, expected %s (must mirror build)" % (im["self_ty"], got2, want), how=want)
    want_tags = {"blanket", "tuple0"} | {"tuple%d" % i for i in range(1, 9)}
    ok = want_tags <= seen
    ck.ob(R, "family-complete", ok, "", "" if ok else "Fangs impl family is %r, expected blanket, () and tuples 1..8" % sorted(seen), how=str(sorted(seen)))


def nest_of(f, calls):
    """deep description of the outermost call of a nesting (the one whose result no other call in the list consumes)"""
    consumed = set()
    for c in calls:
        for a in c.args:
            r = paths.root_call(f, a, through=r"$^")
            if r is not None:
                consumed.add(r.bb)
    outer = [c for c in calls if c.bb not in consumed]
    if len(outer) != 1:
        return "?"
    c = outer[0]
    return "%s(%s)" % (c.name, ",".join(decision.describe_deep(f, a, 12) for a in c.args))


def c04b(ck, prog):
    R = "C04-b MUSTPASS action protocol"
    bites = [f for f in prog.fns.values() if f.name == "bite" and f.self_ty and "FangActionProc<" in f.self_ty]
    if len(bites) != 1:
        raise AnchorLost("FangActionProc::bite not found")
    f = prog.coroutine_body(bites[0].key)
    fore = f.calls_to(r"FangAction::fore$")
    inner = f.calls_to(r"^ohkami::fang::FangProc::bite$")
    back = f.calls_to(r"FangAction::back$")
    ok = len(fore) == 1 and len(inner) == 1 and len(back) == 1
    ck.ob(R, "anchors", ok, f.loc(None), "" if ok else "FangActionProc::bite calls fore x%d, inner.bite x%d, back x%d" % (len(fore), len(inner), len(back)), how="one fore, one inner.bite, one back", nontrivial=False)
    if not ok:
        return
    fore, inner, back = fore[0], inner[0], back[0]

    def poll_of(c):
        return [p for p in f.calls() if re.search(r"Future::poll$", p.decl or "") and paths.root_call(f, p.args[0]) is not None and paths.root_call(f, p.args[0]).bb == c.bb]
    fp, ip, bp = poll_of(fore), poll_of(inner), poll_of(back)
    okedge = lambda bb: paths.has_fact(f, prog, bb, lambda fa: fa.kind == "variant" and fa.allowed == {"Ok"} and fa.steps and fa.steps[-1][0] == "call" and fp and fa.steps[-1][1].bb == fp[0].bb) is not None
    ok = okedge(inner.bb)
    ck.ob(R, "inner-only-on-Ok", ok, f.loc(inner.sp), "" if ok else "the inner proc (everything inside this fang) runs on a path where fore() did not return Ok: an early answer would not stop it", how="inner.bite under the Ok edge of fore().await")
    ok = bool(ip) and paths.has_fact(f, prog, back.bb, lambda fa: fa.kind == "variant" and fa.allowed == {"Ready"} and fa.steps and fa.steps[-1][0] == "call" and fa.steps[-1][1].bb == ip[0].bb) is not None
    ck.ob(R, "back-after-inner", ok, f.loc(back.sp), "" if ok else "back() can run before the inner proc has produced its response", how="back under the Ready edge of inner.bite's poll")
    # back receives the inner response; the returned value is that response
    d = decision.describe_deep(f, back.args[1], 6)
    ok = "bite(" in d
    ck.ob(R, "back-gets-inner-response", ok, f.loc(back.sp), "" if ok else "back() is given `%s`, not the inner proc's response" % d[:60], how="back(&mut res) with res = inner.bite(req).await")
    # the Err edge returns e without inner/back
    errs = []
    for bb, kind, payload in paths.ret_sites(f):
        facts = guards.facts_at(f, prog, bb)
        if any(fa.kind == "variant" and fa.allowed == {"Err"} and fa.steps and fa.steps[-1][0] == "call" and fp and fa.steps[-1][1].bb == fp[0].bb for fa in facts):
            errs.append((bb, kind, payload))
    ok = len(errs) >= 1
    for bb, kind, payload in errs:
        d = decision.describe_deep(f, payload if kind == "move" else ["c", [0, []]], 6)
        if "@Err" not in d:
            ok = False
        if f.dominates(inner.bb, bb) or f.dominates(back.bb, bb):
            ok = False
    ck.ob(R, "early-return", ok, f.loc(fore.sp), "" if ok else "on the Err edge of fore() the error response is not returned directly (without inner proc and back)", how="Err(e) => e")
    # all returns on the Ok side are after back completed
    oks = [bb for bb, kind, payload in paths.ret_sites(f) if okedge(bb)]
    ok = bool(oks) and bool(bp) and all(paths.has_fact(f, prog, bb, lambda fa: fa.kind == "variant" and fa.allowed == {"Ready"} and fa.steps and fa.steps[-1][0] == "call" and fa.steps[-1][1].bb == bp[0].bb) for bb in oks)
    ck.ob(R, "return-after-back", ok, f.loc(None), "" if ok else "the response can be returned before back() has completed", how="return under the Ready edge of back's poll")
    # FangAction's Fang impl: chain clones the action and stores inner
    ch = [g for g in prog.fns.values() if g.name == "chain" and g.trait == "ohkami::fang::Fang" and g.self_ty == "A"]
    if ch:
        g = ch[0]
        rows = decision.const_table(g, prog)
        d = (rows[0][1] or {}).get("desc", "") if len(rows) == 1 else "?"
        ok = re.fullmatch(r"FangActionProc\{clone\(arg1\),arg2\}", d) is not None
        ck.ob(R, "chain-keeps-inner", ok, g.loc(None), "" if ok else "Fang::chain for a FangAction builds %s, expected FangActionProc { action: self.clone(), inner }" % d, how=d)


def c04c(ck, prog):
    R = "C04-c SIBLING local fangs"
    impls = [im for im in prog.impls if im.get("trait") == "ohkami::fang::handler::into_handler::IntoHandler" and im["file"].endswith("with_local_fangs.rs")]
    ck.floor(R, "local-fang impls", len(impls), 4)
    for im in impls:
        n = tuple_arity(im["self_ty"])
        k = (n or 1) - 1  # number of fangs; the last component is the handler
        items = {nm: prog.fns.get(key) for nm, key, ti in im["items"]}
        ih, np_ = items.get("into_handler"), items.get("n_params")
        if ih is None or np_ is None:
            ck.ob(R, "arity%d:items" % k, False, "", "impl for %s lacks into_handler/n_params" % im["self_ty"])
            continue
        ih = prog.inlined(ih, 1, r"middleware::Fangs::build$")     # a shared wrapper may hold the build
        b = ih.calls_to(r"middleware::Fangs::build$")
        ok = len(b) == 1
        if ok:
            fangs = decision.describe_deep(ih, b[0].args[0], 4)
            proc = decision.describe_deep(ih, b[0].args[1], 4)
            wantf = "arg1.0" if k == 1 else "tuple{%s}" % ",".join("arg1.%d" % i for i in range(k))
            ok = fangs == wantf and proc == "into_handler(arg1.%d).proc" % k
            ck.ob(R, "arity%d:build" % k, ok, ih.loc(None),
                  "" if ok else "local fangs of a %d-fang handler are built as Fangs::build(%s, %s), expected Fangs::build(%s, into_handler(arg1.%d).proc): local fangs must wrap the handler's own proc in declaration order" % (k, fangs, proc, wantf, k),
                  how="Fangs::build(&(%s), h.proc)" % wantf)
        else:
            ck.ob(R, "arity%d:build" % k, False, ih.loc(None), "into_handler does not call Fangs::build exactly once")
        rows = decision.const_table(np_, prog)
        d = (rows[0][1] or {}).get("desc", "") if len(rows) == 1 else "?"
        ok = d == "n_params(arg1.%d)" % k
        ck.ob(R, "arity%d:n_params" % k, ok, np_.loc(None), "" if ok else "n_params is %s, expected the handler's own n_params" % d, how=d)


def c04d(ck, prog):
    R = "C04-d SIBLING routing order"
    impls = [im for im in prog.impls if im.get("trait") == "ohkami::ohkami::routing::Routing" and im["crate"] == "ohkami"]
    ck.floor(R, "Routing impls", len(impls), 100)
    n_checked = 0
    for im in impls:
        tr = im["trait_ref"]
        if tr.startswith("<") and " as " in tr:
            tr = tr[1:-1].split(" as ", 1)[1]
        m = re.search(r"Routing<(.*)>$", tr)
        marker = m.group(1) if m else "()"
        total = tuple_arity(im["self_ty"])
        k = tuple_arity(marker) if marker.startswith("(") else None
        f = prog.fns.get([key for nm, key, ti in im["items"] if nm == "apply"][0])
        if total is None or k is None:
            continue  # the single-item / single-fang blanket impls
        if "PhantomData" in marker:
            k = 1 if total == 1 else k
        n_checked += 1
        tag = "%dfang+%ditem" % (k, total - k)
        # fangs store
        stores = decision.field_stores(f, "fangs")
        if k == 0:
            ok = not stores
            ck.ob(R, tag + ":fangs", ok, f.loc(None), "" if ok else "a fang-less routing tuple stores fangs", how="no fangs", nontrivial=False)
        else:
            ok = len(stores) == 1
            got = "?"
            if ok:
                arc = f.calls_to(r"Arc::<T>::new$")
                got = decision.describe_deep(f, arc[0].args[0], 3) if len(arc) == 1 else "?"
                want = "arg1.0" if k == 1 else "tuple{%s}" % ",".join("arg1.%d" % i for i in range(k))
                ok = got == want
            ck.ob(R, tag + ":fangs", ok, f.loc(None), "" if ok else "Routing impl for %s stores fangs %s, expected its first %d components in order" % (im["self_ty"][:40], got, k), how="fangs = (%s)" % ", ".join("f%d" % (i + 1) for i in range(k)))
        # items applied once each, in order
        ap = [c for c in f.calls() if re.search(r"routing::RoutingItem::apply$", c.decl or "")]
        ap.sort(key=lambda c: len(f.dom_chain(c.bb)))
        got = [decision.describe_deep(f, c.args[0], 2) for c in ap]
        want = ["arg1.%d" % i for i in range(k, total)]
        ok = got == want
        ck.ob(R, tag + ":items", ok, f.loc(None), "" if ok else "Routing impl for %s applies %r, expected each remaining component once in order %r" % (im["self_ty"][:40], got, want), how="%d item(s) applied in order" % len(want))
    ck.floor(R, "tuple Routing impls checked", n_checked, 60)
    # FangsList::into_proc_with
    f = prog.method(r"^ohkami::router::base::FangsList$", "into_proc_with")
    nxt = [c for c in f.calls() if re.search(r"Iterator::next$", c.decl or "")]
    fold = [c for c in f.calls() if re.search(r"Iterator::fold$", c.decl or "")]
    if not nxt and len(fold) == 1:
        # equivalent form: fold over *all* lists seeded with the handler's own proc (an empty list yields the bare handler)
        seed = decision.describe_deep(f, fold[0].args[1], 5)
        ok = re.search(r"(^|\{|,)arg2\.proc", seed) is not None and "build(" not in seed
        ck.ob(R, "into_proc_with:seed", ok, f.loc(fold[0].sp), "" if ok else "the fold over the fang lists is seeded with %s, expected the handler's own proc" % seed[:80], how="seed = h.proc")
        clos = f.origin(fold[0].args[2])
        cf = prog.fns.get(clos[-1][1][1].get("def")) if clos and clos[-1][0] == "agg" else None
        b = [c for c in cf.calls() if c.name == "build"] if cf is not None else []
        d = decision.describe_deep(cf, b[0].args[1], 3) if b else "?"
        recv = decision.describe_deep(cf, b[0].args[0], 3) if b else "?"
        ok = len(b) == 1 and re.match(r"arg2(\.0)?$", d) is not None and "arg3" in recv
        ck.ob(R, "into_proc_with:step", ok, (cf or f).loc(None), "" if ok else "the fold step builds %s.build(%s), expected fangs.build(proc)" % (recv, d), how="|proc, fangs| fangs.build(proc)")
        src = paths.root_call(f, fold[0].args[0])
        ok = src is not None and "arg1" in decision.describe_deep(f, fold[0].args[0], 4)
        ck.ob(R, "into_proc_with:same-iterator", ok, f.loc(None), "" if ok else "the fold does not run over this list", how="self.into_iter().fold(h.proc, ..)")
        ck.ob(R, "into_proc_with:no-fangs", True, f.loc(None), how="an empty list folds to the seed = h.proc", nontrivial=False)
        nxt = None
    ok = nxt is not None and len(nxt) == 1 and len(fold) == 1
    if nxt is None:
        pass
    elif ok:
        seed = decision.describe_deep(f, fold[0].args[1], 5)
        ok = "build(" in seed and "next(" in seed and ".proc" in seed
        ck.ob(R, "into_proc_with:seed", ok, f.loc(fold[0].sp), "" if ok else "the fold over the fang lists is seeded with %s, expected most_inner.build(h.proc)" % seed[:80], how="seed = first.build(h.proc)")
        clos = f.origin(fold[0].args[2])
        cf = prog.fns.get(clos[-1][1][1].get("def")) if clos and clos[-1][0] == "agg" else None
        if cf is not None:
            b = [c for c in cf.calls() if c.name == "build"]
            d = decision.describe_deep(cf, b[0].args[1], 3) if b else "?"
            recv = decision.describe_deep(cf, b[0].args[0], 3) if b else "?"
            ok = len(b) == 1 and re.match(r"arg2(\.0)?$", d) is not None and "arg3" in recv
            ck.ob(R, "into_proc_with:step", ok, cf.loc(None), "" if ok else "the fold step builds %s.build(%s), expected fangs.build(proc)" % (recv, d), how="|proc, fangs| fangs.build(proc)")
        same = paths.root_call(f, fold[0].args[0]) is not None and paths.root_call(f, nxt[0].args[0]) is not None and paths.root_call(f, fold[0].args[0]).bb == paths.root_call(f, nxt[0].args[0]).bb
        ck.ob(R, "into_proc_with:same-iterator", same, f.loc(None), "" if same else "the seed and the fold do not consume the same iterator", how="iter.next() then iter.fold(..)")
        none = [(conds, v) for conds, v in decision.const_table(f, prog) if any(c[1] == "None" for c in conds)]
        ok = len(none) == 1 and ".proc" in (none[0][1] or {}).get("desc", "")
        ck.ob(R, "into_proc_with:no-fangs", ok, f.loc(None), "" if ok else "without fangs the handler's own proc is not used", how="None => h.proc")
    else:
        ck.ob(R, "into_proc_with:shape", False, f.loc(None), "into_proc_with is not `match iter.next() { None => .., Some(first) => iter.fold(..) }`")
    # proc and catch of a final node are both built from the node's fang list
    from .C01 import final_builder
    fr = [final_builder(prog)]
    if fr:
        g = fr[0]
        ip = [c for h in [g] + prog.descendants(g.key) for c in h.calls_to(r"FangsList::into_proc_with$")]
        ok = len(ip) == 2
        srcs = [decision.describe_deep(c.fn, c.args[0], 4) for c in ip]
        ok = ok and all("fangses" in s for s in srcs)
        hs = [decision.describe_deep(c.fn, c.args[1], 4) for c in ip]
        ok = ok and any("default_not_found" in h for h in hs)
        ck.ob(R, "final-node:proc+catch", ok, g.loc(None), "" if ok else "a final node's proc and catch are not both built from the node's fang list (%r / %r): a 404 under a mount would skip the fangs" % (srcs, hs), how="proc and catch = fangses.into_proc_with(handler | default_not_found)")
        # ... on every path: each value the `proc` / `catch` field of the built node can hold is the result of into_proc_with
        aggs = [(bi, st["r"]) for bi in sorted(g.live_blocks()) for st in g.blocks[bi]["st"] if st["k"] == "=" and st["r"][0] == "agg" and st["r"][1].get("adt", "").endswith("router::r#final::Node")]
        for fld in ("proc", "catch"):
            okf = bool(aggs)
            bad = ""
            for bi, r in aggs:
                fields = r[1].get("fields") or []
                if fld not in fields:
                    okf = False
                    continue
                op = r[2][fields.index(fld)]
                lv = paths.leaf_values(g, op) if op[0] in ("c", "m") else []
                if not lv:
                    okf = False
                for leaf in lv:
                    if not (leaf[0] == "call" and re.search(r"FangsList::into_proc_with$", leaf[1].callee or "")):
                        okf = False
                        bad = decision.describe_deep(g, ["c", [leaf[1], leaf[2]]], 3) if leaf[0] == "place" else (leaf[1].name if leaf[0] == "call" else str(leaf[0]))
            ck.ob(R, "final-node:%s-always-through-the-fangs" % fld, okf, g.loc(None),
                  "" if okf else "the `%s` of a final node can be `%s`, which is not built by the node's fang list: the responses it produces (for `catch`: the 404 of a request that runs past this node) run none of the "
                  "fangs of the applications the path lies under" % (fld, bad), how="every value of Node.%s is fangses.into_proc_with(..)" % fld)
    else:
        ck.ob(R, "final-node:proc+catch", False, "", "From<base::Node> for final::Node not found")


def c04f(ck, prog):
    """Mounting attaches the mounted application's fang lists on every path: merge_node can only succeed through
    merge_here (directly or through its own recursion), and merge_here appends the mounted root's fangs before anything
    that can fail or return."""
    R = "C04-f MUSTPASS mount fangs"
    NODE = r"^ohkami::router::base::Node$"
    mn, mh = prog.method(NODE, "merge_node"), prog.method(NODE, "merge_here")
    mn_key = mn.key
    # the descent into the child may go through a higher-order helper of Node (`descend_into_child(pattern, |child| ..)`):
    # splice it in and resolve the call of the closure it is handed
    from .lib import inline as _inline
    hof = lambda caller, callee: (callee.crate == caller.crate and re.search(NODE, callee.self_ty or "") is not None and callee.key not in (mn_key, mh.key)
                                  and bool([c for c in callee.calls() if re.search(r"ops::function::(FnOnce::call_once|FnMut::call_mut|Fn::call)$", c.decl or "")]))
    mnv = _inline.inline(prog, mn, 1, hof)
    if mnv is not mn:
        mn = _inline.inline_closure_calls(prog, mnv)
    via = [c for c in mn.calls() if c.callee in (mn_key, mh.key)]
    n = 0
    for bb, kind, payload in paths.ret_sites(mn):
        if kind == "residual":
            continue
        n += 1
        if kind == "call":
            # (a later tail call is fine once merge_here / merge_node has run on this path: its failure was propagated by `?`)
            ok = payload.callee in (mn_key, mh.key) or any(mn.dominates(c.bb, bb) and c.bb != bb for c in via)
            ck.ob(R, "merge_node:tail@%s" % payload.name, ok, mn.loc(payload.sp), "" if ok else "merge_node returns the result of %s" % payload.callee, how="returns merge_node/merge_here(..)")
        else:
            ok = kind == "Ok" and any(mn.dominates(c.bb, bb) for c in via)
            ck.ob(R, "merge_node:Ok#%d" % n, ok, mn.loc(None),
                  "" if ok else "merge_node can report success on a path that attached nothing of the mounted application (no merge_here / recursive merge_node before this `Ok`): its fangs would not run for requests of this method under the mount prefix", how="Ok(()) only after merge_here / merge_node")
    ck.floor(R, "merge_node return sites", n, 3)
    # the append may be written in place or sit in a one-line helper of Node
    mh = prog.inlined(mh, 1, r"base::FangsList::append$")
    af = [c for c in mh.calls_to(r"base::FangsList::append$") if re.search(r"^arg1\.fangses$", decision.describe_deep(mh, c.args[0], 4))]
    ok = len(af) == 1
    if ok:
        src = decision.describe_deep(mh, af[0].args[1], 4)
        ok = re.search(r"arg2\.fangses$", src) is not None
        # nothing that can return comes before it
        early = [bb for bb, kind, payload in paths.ret_sites(mh) if not mh.dominates(af[0].bb, bb)]
        ok = ok and not early and not [fa for fa in guards.facts_at(mh, prog, af[0].bb) if fa.kind in ("cmp", "boolcall", "boolplace")]
        ck.ob(R, "merge_here:appends-fangs-first", ok, mh.loc(af[0].sp), "" if ok else "merge_here does not unconditionally append the mounted root's fang lists (%s) before it can return" % src, how="self.append_fangs(another_root.fangses) dominates every return, unconditionally")
    else:
        ck.ob(R, "merge_here:appends-fangs-first", False, mh.loc(None), "merge_here appends to its own fang lists %d times" % len(af))
    # apply_fangs reaches every node: children first, then the node itself, unconditionally
    ap = prog.method(NODE, "apply_fangs")
    apkey = ap.key
    if not [c for c in ap.calls() if c.callee == apkey]:
        ap = prog.flattened(ap, r"base::Node::apply_fangs$", combinators=True)       # `children.iter_mut().for_each(|c| c.apply_fangs(..))`
    add = ap.calls_to(r"FangsList::add$")
    rec = [c for c in ap.calls() if c.callee == apkey]
    ok = len(add) == 1 and len(rec) == 1 and all(ap.dominates(add[0].bb, r) for r in ap.exits()) and not [fa for fa in guards.facts_at(ap, prog, add[0].bb) if fa.kind in ("cmp", "boolcall", "boolplace") or (fa.kind == "variant" and fa.allowed == {"Some"} and "handler" in guards.describe_origin(ap, fa.steps))]
    if ok and rec:
        # ... for every child: the recursive call is under no condition other than the child iterator's own `Some`, and that
        # iterator runs over the whole child list (no skip / filter / take adapter)
        extra = []
        for fa in guards.facts_at(ap, prog, rec[0].bb):
            if fa.kind in ("cmp", "boolcall", "boolplace", "int"):
                extra.append(fa.kind)
            elif fa.kind == "variant" and not getattr(fa, "derived", None) and not (fa.steps and fa.steps[-1][0] == "call" and fa.steps[-1][1].name == "next"):
                extra.append("match")
        src = ""
        for c in ap.calls():
            if c.name == "next" and ap.dominates(c.bb, rec[0].bb):
                src = decision.describe_deep(ap, c.args[0], 6)
        adapters = re.findall(r"\b(skip|skip_while|take|take_while|filter|filter_map|step_by|rev|peekable)\(", src)
        ok = not extra and not adapters and ("children" in src or not src)
        # (path form: a condition written with `||` reaches the call over two edges, none of which dominates it) from the
        # `Some(child)` edge, the iterator is not advanced again without the recursive call
        for c in ap.calls():
            if c.name == "next" and ap.dominates(c.bb, rec[0].bb):
                sws = [fa.sw_bb for fa in guards.facts_at(ap, prog, rec[0].bb) if fa.kind == "variant" and fa.allowed == {"Some"} and fa.steps and fa.steps[-1][0] == "call" and fa.steps[-1][1].bb == c.bb]
                if not sws:
                    # no dominating Some edge at all: find the switch on the iterator's answer
                    sws = [sb for sb in sorted(ap.live_blocks()) if ap.blocks[sb]["t"]["k"] == "switch" and ap.dominates(c.bb, sb) and ap.dominates(sb, rec[0].bb) and re.search(r"^discr\(next\(", decision.describe_deep(ap, ap.blocks[sb]["t"]["discr"], 2))]
                for sb in sws[:1]:
                    for tb, lab in ap.succ(sb):
                        if rec[0].bb in ap.reachable_from(tb) and c.bb in ap.reachable_from(tb, avoid=(rec[0].bb,)):
                            ok = False
    ck.ob(R, "apply_fangs:every-node", ok, ap.loc(None), "" if ok else "Node::apply_fangs does not add the fangs to every node of the subtree (also handler-less ones, which serve the 404s)", how="recurse into children; self.fangses.add(id, fangs) unconditionally")
    # ... in every per-method tree the router serves requests from: the fields of base::Router that are routing trees
    from .C01 import apply_fangs_trees
    seen, raf = apply_fangs_trees(prog)
    base = [a for k, a in prog.adts.items() if k == "ohkami::router::base::Router"]
    trees = set()
    for a in base:
        for v in a.get("variants", []):
            for fl in v.get("fields", []):
                if re.search(r"router::base::Node$", fl[1]):
                    trees.add(fl[0])
    if not trees:
        raise AnchorLost("base::Router has no field of type base::Node")
    ok = seen == trees
    ck.ob(R, "apply_fangs:every-method-tree", ok, raf.loc(None), "" if ok else "Router::apply_fangs hands an application's fangs to the trees %s only, not to %s: requests of those methods (hits and 404s alike) run without the fangs" % (sorted(seen), sorted(trees - seen)),
          how="every base::Node field of base::Router (%s) receives the fangs" % ", ".join(sorted(trees)))


def c04g(ck, prog):
    """A node's FangsList holds each application's fangs at most once (the same list is reached several times: by
    apply_fangs per node, and by the final tree's compression, which appends whole lists). into_proc_with wraps once per
    entry, so a duplicate entry runs that application's fangs twice. The list grows only in `add`, and only under a test
    over the *whole* list that the application id is absent."""
    R = "C04-g INVARIANT one entry per application"
    add = prog.one(r"^ohkami::router::base::FangsList::add$")
    pushes = [c for c in add.calls() if c.name in ("push", "insert", "push_front", "extend", "extend_from_slice")]
    ok = len(pushes) == 1
    how = ""
    why = "FangsList::add grows the list at %d site(s)" % len(pushes)
    if ok:
        p = pushes[0]
        scan = None
        for fa in guards.facts_at(add, prog, p.bb):
            if fa.kind != "boolcall":
                continue
            d = decision.describe_deep(add, fa.call.args[0], 6)
            whole = re.search(r"\b(find|position|find_map)\(iter\((deref\()?arg1\.0", d) is not None
            if fa.call.name == "is_none" and fa.truth and whole:
                scan = (fa, d)
            if fa.call.name in ("any", "contains") and not fa.truth and re.search(r"iter\((deref\()?arg1\.0|^(deref\()?arg1\.0", d):
                scan = (fa, d)
            if fa.call.name == "all" and fa.truth and re.search(r"iter\((deref\()?arg1\.0", d):
                scan = (fa, d)
        if scan is None:
            # the search may live in a helper method of the list (`if !self.contains(&id)`): read the helper
            for fa in guards.facts_at(add, prog, p.bb):
                if fa.kind != "boolcall" or fa.call.callee not in prog.fns:
                    continue
                h = prog.fns[fa.call.callee]
                if "FangsList" not in (h.self_ty or ""):
                    continue
                hc = [c for c in h.calls() if c.name in ("any", "all", "find", "position", "contains")]
                if len(hc) != 1 or not re.search(r"iter\((deref\()?arg1\.0", decision.describe_deep(h, hc[0].args[0], 6)):
                    continue
                # helper answers `true` iff found (any / contains) -> the push needs it false; `is_none(find)`-style helpers the reverse
                pos = hc[0].name in ("any", "contains")
                rets = paths.ret_sites(h)
                direct = len(rets) == 1 and rets[0][1] == "call" and rets[0][2].bb == hc[0].bb
                if direct and ((pos and not fa.truth) or (hc[0].name == "all" and fa.truth)):
                    scan = (fa, "%s(..) = %s" % (h.name, decision.describe_deep(h, hc[0].args[0], 4)))
                    scan_call = (h, hc[0])
        ok = scan is not None
        why = "the push in FangsList::add is not guarded by a search of the whole list for the application id (e.g. only its last entry is looked at): appending two equal lists of two or more entries, as the final tree's compression does, duplicates them and those fangs run twice"
        if ok:
            # the predicate compares the id parameter
            fa, d = scan
            cl = None
            host = add
            call = fa.call if fa.call.name in ("any", "all", "contains") and fa.call.callee not in prog.fns else None
            if call is None and fa.call.callee in prog.fns:
                host, call = scan_call
            if call is None:
                st = add.origin(fa.call.args[0])
                call = st[-1][1] if st and st[-1][0] == "call" else None
            names = set()
            if call is not None:
                for a in call.args:
                    st = host.origin(a)
                    if st and st[-1][0] == "agg" and st[-1][1][1].get("k") == "closure":
                        g = prog.fns.get(st[-1][1][1]["def"])
                        if g is not None:
                            names |= {c.name for c in g.calls()}
                            cl = g
            ok = call is not None and (call.name == "contains" or bool(names & {"eq", "ne"}))
            why = "the search guarding the push does not compare application ids"
            how = "push dominated by `%s` == %s over the whole list" % (d[:70], fa.truth)
    ck.ob(R, "add:absent-in-whole-list", ok, add.loc(pushes[0].sp if pushes else None), "" if ok else why, how=how)
    # who may grow a FangsList: only `add`
    n = 0
    for g in prog.fns.values():
        if g.crate != "ohkami" or g is add:
            continue
        for c in g.calls():
            if c.name in ("push", "insert", "push_front", "extend", "extend_from_slice", "append") and c.args and (c.callee or "").startswith("alloc::vec::Vec"):
                d = decision.describe_deep(g, c.args[0], 4)
                ty = ""
                st = g.origin(c.args[0])
                for x in st:
                    for pr in (x[2] if len(x) > 2 else []):
                        if pr[0] == "f" and "Arc<dyn ohkami::fang::Fangs" in (pr[3] or ""):
                            ty = pr[3]
                if ty:
                    n += 1
                    ck.ob(R, "who:grows-list:" + g.key[-60:], False, g.loc(c.sp), "%s grows a fang list directly (%s), bypassing FangsList::add's duplicate test" % (g.key, d[:40]))
    ck.ob(R, "who:only-add-grows-the-list", n == 0, add.loc(None), "" if n == 0 else "%d direct growth site(s)" % n, how="no Vec growth on a FangsList outside FangsList::add", nontrivial=False)


def fangs_list_test(prog, f, call, depth=2):
    """is `call` (a bool-valued call tested by a branch) a comparison of fang lists? -> description of its operands or None.
    Accepts a bool method of FangsList / PartialEq on FangsList, directly or inside the predicate closure of
    is_none_or / is_some_and / map_or / all / any."""
    cal = call.callee or ""
    args = [decision.describe_deep(f, a, 4) for a in call.args]
    tys = " ".join(f.place_ty(a[1]) or "" for a in call.args if a[0] in ("c", "m"))
    if ("FangsList" in cal or "FangsList" in tys or "FangsList" in " ".join(call.targs or [])) and f.locals[call.dest[0]] == "bool":
        return args
    if depth > 0 and call.name in ("is_none_or", "is_some_and", "map_or", "all", "any", "is_ok_and"):
        for a in call.args:
            st = f.origin(a)
            if st and st[-1][0] == "agg" and st[-1][1][1].get("k") == "closure":
                g = prog.fns.get(st[-1][1][1]["def"])
                if g is None:
                    continue
                for c in g.calls():
                    sub = fangs_list_test(prog, g, c, depth - 1)
                    if sub is not None:
                        # operands as seen from the caller: the receiver of the combinator and the closure's captures
                        caps = [paths.capture_desc(prog, g, x) for x in c.args]
                        return [args[0]] + [x for x in caps if x]
    return None


def c04h(ck, prog):
    """Single-child compression merges a node with its child: the merged node answers with one fang list, and a miss below
    the merged pattern falls to the node above. That preserves `fangs of an application run exactly for the requests under
    its mount prefix, outer before inner` only if the node, its child and the node above carry the same fangs. The absorb
    step must be taken under both tests, made in the same loop iteration."""
    R = "C04-h GUARD compression keeps fang scope"
    from .C01 import final_builder_view, on_arg1
    from .lib.bound import natural_loops
    f = final_builder_view(prog)
    loops = natural_loops(f)
    stores = [(bi, st) for bi, st, agg in decision.field_stores(f, "handler") if on_arg1(f, st["p"]) and any(bi in b for b in loops.values())]
    if not stores:
        # no compression at all (edge runtimes): nothing to guard
        ck.ob(R, "compression:none", True, f.loc(None), how="the final node builder does not absorb children in this configuration", nontrivial=False)
        return
    bi, st = stores[0]
    body = loops[min([h for h in loops if bi in loops[h]], key=lambda h: len(loops[h]))]
    tests = []
    for fa in guards.facts_at(f, prog, bi):
        if fa.kind == "boolcall" and fa.truth and fa.sw_bb in body:
            ops = fangs_list_test(prog, f, fa.call)
            if ops is not None:
                tests.append(" ~ ".join(ops))
    child = [t for t in tests if re.search(r"arg1\.fangses", t) and re.search(r"children", t)]
    outer = [t for t in tests if re.search(r"arg1\.fangses", t) and re.search(r"\barg2\b", t)]
    ck.ob(R, "absorb:same-fangs-as-child", bool(child), f.loc(st.get("sp")),
          "" if child else "a node absorbs its single static child without a test that both carry the same fangs (tests on fang lists in the iteration: %r): the merged node runs the union, "
          "in the wrong order (`Ohkami::new((P, \"/api\".By(Ohkami::new((C, \"/x\".GET(h))))))`: GET /api/x runs C before P, and GET /other runs C although it is outside /api)" % tests,
          how="absorb dominated by %s" % (child[0] if child else ""))
    ck.ob(R, "absorb:same-fangs-as-node-above", bool(outer), f.loc(st.get("sp")),
          "" if outer else "a node absorbs its single static child without a test that the node above carries the same fangs (tests on fang lists in the iteration: %r): a miss under the merged pattern "
          "falls to the node above and skips the mounted application's fangs (`(P, \"/\".GET(h), \"/v\".GET(h), \"/api\".By(Ohkami::new((C, \"/x\".GET(h)))))`: GET /api/nope runs P only)" % tests,
          how="absorb dominated by %s" % (outer[0] if outer else ""))


def c04i(ck, prog):
    """`fangs of an application run for every request whose path lies under its mount prefix (also when it ends in 404
    there)`: a miss is answered by the `catch` of the deepest node whose pattern matched, because that node carries the fangs
    of every application the path is under. In Node::search_target (helpers, std combinators and the closures handed to
    them expanded) follow the node of every successful `take_through` forward: until another pattern matches, every
    answer `(node, hit)` must name that node -- directly or through a variable it was assigned to on that path."""
    R = "C04-i DECISION miss answered by deepest match"
    f0 = prog.one(r"^ohkami::router::r#final::Node::search_target$")
    f = prog.flattened(f0, r"take_through$", combinators=True)
    attempts = [c for c in f.calls() if c.name == "take_through"]
    # switch edges on the result of an attempt
    some_edges = {}    # (switch bb, target bb) -> attempt call
    for sb in sorted(f.live_blocks()):
        info = f.switch_info(sb) if f.blocks[sb]["t"]["k"] == "switch" else None
        if not info or info.get("kind") != "variant" or not info.get("steps"):
            continue
        if info["place"][1]:
            continue
        ost = f.origin(["c", info["place"]])
        if not ost or ost[-1][0] != "call" or ost[-1][1].name != "take_through" or not all(x[0] == "via" for x in ost[:-1]):
            continue
        calls = [ost[-1][1]]
        names = prog.variant_names(info["ty"]) or {0: "None", 1: "Some"}
        for tb, lab in f.succ(sb):
            nm = names.get(lab) if lab != "otherwise" else None
            if nm is None and lab == "otherwise":
                listed = {names.get(l) for _, l in f.succ(sb) if l != "otherwise"}
                rest = [v for v in names.values() if v not in listed]
                nm = rest[0] if len(rest) == 1 else None
            if nm == "Some":
                some_edges[(sb, tb)] = calls[-1]
    answers = {}     # (bb, si) -> statement, for `_0 = (node, hit)`
    for bi in sorted(f.live_blocks()):
        if f.is_cleanup(bi):
            continue
        for si, st in enumerate(f.blocks[bi]["st"]):
            if st["k"] == "=" and st["p"] == [0, []] and st["r"][0] == "agg" and st["r"][1].get("k") == "tuple" and len(st["r"][2]) == 2:
                answers[(bi, si)] = st
    ck.floor(R, "pattern matches followed in search_target", len(some_edges), 2)
    ck.floor(R, "answers of search_target", len(answers), 3)
    n = 0
    for (sb, tb), call in sorted(some_edges.items()):
        X = matched_node(f, call)
        if X is None:
            ck.ob(R, "match@%s:node" % decision.describe_deep(f, call.args[0], 4)[:40], False, f.loc(call.sp), "cannot tell which node's pattern `take_through` is called on")
            continue
        bad = []
        checked = []

        def on_stmt(bb, si, st, S, bad=bad, checked=checked):
            if (bb, si) in answers:
                op = st["r"][2][0]
                ok = op[0] in ("c", "m") and paths.norm_place(op[1]) in S
                checked.append((bb, si))
                if not ok:
                    bad.append((bb, si, decision.describe_deep(f, op, 3)))
        vn = lambda ty: prog.variant_names(ty) or ({0: "None", 1: "Some"} if ty.startswith("core::option::Option<") else None)
        # phase 1: from the return of the call to the test of its result (arguments of a combinator applied to the
        # result -- a closure capturing the node -- are built here, before the test)
        pre = paths.alias_explore(f, call.target, {X}, lambda *a: None, blocked_edge=lambda bb, t2, lab: bb == sb, variant_names=vn) if call.target is not None else set()
        starts = {(S, V) for (bb, S, V) in pre if bb == sb} or {(frozenset({X}), frozenset())}
        # phase 2: from the `Some` edge on, until another pattern matches
        for S, V in starts:
            paths.alias_explore(f, tb, S, on_stmt, blocked_edge=lambda bb, t2, lab: (bb, t2) in some_edges, variant_names=vn, V0=V)
        n += 1
        who = re.sub(r"\.pattern(\.0)?$", "", decision.describe_deep(f, call.args[0], 4))
        ok = not bad
        ck.ob(R, "after-match[%s]" % ("root" if who == "arg1" else "child"), ok, f.loc(f.blocks[bad[0][0]]["st"][bad[0][1]].get("sp")) if bad else f.loc(call.sp),
              "" if ok else "search_target answers with `%s` on a path where the pattern of `%s` has just matched a prefix of the path: the miss is handled by another node's catch, so the fangs of an application "
              "mounted at the matched node are skipped for 404s under its prefix (GET /api/unknown with a leaf mount node)" % (bad[0][2], who),
              how="every answer reached from the match of `%s` before another match names that node (%d answer site(s) reached)" % (who, len(set(checked))))


def matched_node(f, call):
    """access path of the reference to the node whose `.pattern` is the receiver of a take_through call"""
    op = call.args[0]
    for _ in range(8):
        if op[0] not in ("c", "m"):
            return None
        place = op[1]
        if place[1]:
            return None
        sd = f.single_def(place[0])
        if sd is None or sd[2] != "assign":
            return None
        r = sd[3]["r"]
        if r[0] == "use":
            op = r[1]
            continue
        if r[0] == "ref":
            P = r[2]
            idx = [j for j, pr in enumerate(P[1]) if pr[0] == "f" and pr[2] == "pattern"]
            if idx:
                pre = P[1][:idx[-1]]
                if pre and pre[-1][0] == "d":
                    pre = pre[:-1]
                return paths.norm_place([P[0], pre])
            if P[1] == [["d"]]:
                op = ["c", [P[0], []]]
                continue
        return None
    return None

