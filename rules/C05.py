"""C05 Requests on a keep-alive connection are handled independently and in order.
Decides: (a) per-request reset exhaustiveness of Request/Headers/Context/IndexMap/TupleMap::clear; (b) the session loop order
clear -> read -> handle -> send with `close` honoured after the send, on the coroutine CFG."""
import re

from .lib import decision, guards, paths
from .lib.mir import AnchorLost

CONFIGS_QUICK = ["A", "R"]
CONFIGS_THOROUGH = ["A", "R", "ASYNCSTD", "SMOL", "NIO", "GLOMMIO", "NOAPI"]
TECHNIQUE = "field-exhaustiveness of the reset functions against the ADT tables + event-order rules (dominance / reachability avoiding an event) on the session coroutine's built MIR"
LEVEL_TEXT = ('Decides clauses C05-a/b: every field of Request (and of request Headers, Context, IndexMap, TupleMap) that holds per-request state is reassigned or cl'
              'eared by the corresponding clear(), the only exemptions being the audited connection-scoped ones, so a field added later without a reset fails the rul'
              'e; the whole reset is conditional only on `nothing was read`; in the session loop no path leads from one read to the next without clear(), the router '
              'runs only on the Ok(Some) edge of read, every path from the router (or from a parse error) back to the loop head or out of the loop passes Response::s'
              'end, the close flag is read before the handler can touch the request, acted on after the send and true only on paths where the Connection value compar'
              'ed equal to `close` (any other value keeps the session, so the requests that follow are answered), and nothing is spawned inside the loop (one read->s'
              "end chain per iteration, hence responses in request order). Within each clear() a field's reset runs under no condition other than that the field itse"
              "lf holds something (no early return on another field's state). After read() answered Err, neither the next iteration nor the loop exit is reached with"
              'out Response::send (path form). C05-d: the head parser is given the received prefix of the buffer only (C02-d re-evaluated): bytes of an earlier reque'
              'st behind it are never parsed. Decides these clauses, not non-observability for all request histories.')

# field -> reason it needs no reset
EXEMPT = {
    "ohkami::request::Request": {
        "ip": "connection-scoped: the peer address does not change between requests",
        "method": "overwritten by Request::read on every path that yields a request (checked below)",
    },
}


def run(ck, progs):
    ck.explanation = LEVEL_TEXT
    ck.assumptions = ["A5: reasons of the exemptions"]
    for cfg, prog in progs.items():
        ck.config = cfg
        ck.guard("C05-a EXHAUSTIVE reset", lambda: c05a(ck, prog))
        ck.guard("C05-b MUSTPASS session loop", lambda: c05b(ck, prog))
        ck.guard("C05-c GUARD stale buffer bytes", lambda: c05c(ck, prog))
        ck.guard("C05-d GUARD parser sees received bytes only", lambda: c05d(ck, prog))
    ck.config = None


def reset_fields(prog, f):
    """fields of self that f assigns, or on which it calls a resetting method (clear / take / truncate / fill), incl. through `if let Some(x) = &mut self.f`"""
    done = {}
    sites = f.rec.setdefault("_reset_sites", {})
    sites.clear()
    for bi in sorted(f.live_blocks()):
        b = f.blocks[bi]
        if b["cleanup"]:
            continue
        for st in b["st"]:
            if st["k"] == "=" and st["p"][0] == 1 or (st["k"] == "=" and st["p"][1] and st["p"][1][0][0] == "d"):
                flds = [pr[2] for pr in st["p"][1] if pr[0] == "f"]
                root = f.origin(["c", [st["p"][0], []]])
                if flds and (st["p"][0] == 1 or (root and root[-1][0] == "arg" and root[-1][1] == 1)):
                    # an element-wise store through an index projection counts for the buffer too
                    done.setdefault(flds[0], "assigned")
                    sites.setdefault(flds[0], []).append(bi)
        t = b["t"]
        if t["k"] == "call":
            from .lib.mir import Call
            c = Call(f, bi, t, False)
            if c.name in ("clear", "take", "truncate", "fill") and c.args:
                d = decision.describe_deep(f, c.args[0], 5)
                m = re.search(r"arg1\.(\w+)", d)
                if m:
                    done.setdefault(m.group(1), "%s()" % c.name)
                    sites.setdefault(m.group(1), []).append(bi)
    # element stores `*b = 0` in a loop over `&mut *self.buf`
    for c in f.calls():
        if re.search(r"::into_iter$|::iter_mut$", c.callee or ""):
            d = decision.describe_deep(f, c.args[0], 5)
            m = re.search(r"arg1\.(\w+)", d)
            if m:
                done.setdefault(m.group(1), "element loop")
                sites.setdefault(m.group(1), []).append(c.bb)
    return done


def foreign_conditions(prog, f, fld, bb):
    """the conditions under which block bb (a reset of self.<fld>) runs, other than `the field itself has something to reset`
    (`if let Some(m) = &mut self.fld`, `!self.fld.is_empty()`, the iteration over the field's own elements)"""
    out = []
    for fa in guards.facts_at(f, prog, bb):
        if fa.kind == "variant":
            d = decision.describe_deep(f, fa.place, 5) if getattr(fa, "place", None) else guards.describe_origin(f, fa.steps)
            own = re.search(r"arg1\.%s\b" % re.escape(fld), d) is not None
            it = bool(fa.steps) and fa.steps[-1][0] == "call" and fa.steps[-1][1].name == "next"
            if getattr(fa, "derived", None) or (own and (fa.allowed == {"Some"} or it)) or (it and fa.allowed == {"None"}):
                continue        # (`next()` answering None: a loop in front of the reset has ended, whatever it ran over)
            out.append("match %s in %s" % (d[:50], sorted(map(str, fa.allowed or []))))
        elif fa.kind == "boolcall":
            d = decision.describe_deep(f, fa.call.args[0], 5) if fa.call.args else ""
            own = re.search(r"arg1\.%s\b" % re.escape(fld), d) is not None
            if own and ((fa.call.name == "is_empty" and not fa.truth) or (fa.call.name == "is_some" and fa.truth) or (fa.call.name == "is_none" and not fa.truth)):
                continue
            out.append("%s(%s) is %s" % (fa.call.name, d[:50], fa.truth))
        elif fa.kind in ("cmp", "boolplace"):
            out.append(fa.kind + " " + (guards.describe_origin(f, fa.lhs)[:40] if fa.kind == "cmp" else ""))
    return out


def first_buffer_byte(f, steps):
    """the origin is element 0 of the request buffer `self.__buf__`"""
    if not steps or steps[-1][0] != "arg":
        return False
    projs = steps[-1][2]
    if not any(pr[0] == "f" and pr[2] == "__buf__" for pr in projs):
        return False
    idx = [pr for pr in projs if pr[0] in ("i", "ci")]
    if len(idx) != 1:
        return False
    pr = idx[0]
    if pr[0] == "ci":
        return pr[1] == 0
    sd = f.single_def(pr[1])
    return bool(sd) and sd[2] == "assign" and sd[3]["r"][0] == "use" and sd[3]["r"][1][0] == "k" and guards.const_int(sd[3]["r"][1][1]) == 0


def c05a(ck, prog):
    R = "C05-a EXHAUSTIVE reset"
    targets = [
        (r"^ohkami::request::Request$", "ohkami::request::Request"),
        (r"^ohkami::request::headers::Headers$", "ohkami::request::headers::Headers"),
        (r"^ohkami::request::context::Context$", "ohkami::request::context::Context"),
        (r"^ohkami::header::map::IndexMap<N, Value>$", "ohkami::header::map::IndexMap"),
        (r"^ohkami_lib::map::TupleMap<K, V>$", "ohkami_lib::map::TupleMap"),
    ]
    nfields = 0
    for sty, adtkey in targets:
        f = prog.method(sty, "clear")
        # the resets may sit in private helpers of the same type (`self.reset_parsed()`, `Self::zero(&mut self.buf)`)
        f = prog.inlined(f, 2, lambda caller, callee: callee.crate == caller.crate and callee.self_ty == caller.self_ty and callee.name != "clear" and len(callee.blocks) < 60)
        adt = prog.adts.get(adtkey)
        if adt is None:
            raise AnchorLost("ADT %s not found" % adtkey)
        fields = [x[0] for x in adt["variants"][0]["fields"]]
        done = reset_fields(prog, f)
        for fld in fields:
            nfields += 1
            ex = EXEMPT.get(adtkey, {}).get(fld)
            ok = fld in done or ex is not None
            ck.ob(R, "%s.%s" % (adtkey.rsplit("::", 1)[-1], fld), ok, f.loc(None),
                  "" if ok else "%s::clear() does not reset field `%s`: its value from the previous request on the connection is visible to the next one" % (adtkey.rsplit("::", 1)[-1], fld),
                  how=("reset: " + done[fld]) if fld in done else "exempt: " + str(ex))
            # ... on every path: some reset site of the field runs under no condition other than `this field has something to
            # reset` (Request::clear's own condition is the subject of Request::clear:guard below)
            if fld in done and adtkey != "ohkami::request::Request":
                per_site = [foreign_conditions(prog, f, fld, bb) for bb in f.rec.get("_reset_sites", {}).get(fld, [])]
                oku = any(not fc for fc in per_site)
                ck.ob(R, "%s.%s:unconditional" % (adtkey.rsplit("::", 1)[-1], fld), oku, f.loc(None),
                      "" if oku else "%s::clear() resets field `%s` only under %s: on the other paths the field's content from the previous request on the connection is visible to the next one" % (adtkey.rsplit("::", 1)[-1], fld, "; ".join(per_site[0]) if per_site else "?"),
                      how="a reset of the field runs whenever the field holds something")
    ck.floor(R, "fields examined", nfields, 13)
    # `method` exemption: every Ok(Some) of read is dominated by a store to .method
    rd = prog.coroutine_body(prog.one(r"^ohkami::request::Request::read$").key)
    ms = [bi for bi, st, agg in decision.field_stores(rd, "method")]
    oks = []
    for bb, kind, payload in paths.ret_sites(rd):
        if kind == "Ok" and "Some" in decision.describe_deep(rd, payload[2][0], 2):
            oks.append(bb)
    ok = bool(oks) and bool(ms) and all(any(rd.dominates(m, o) for m in ms) for o in oks)
    ck.ob(R, "Request.method:overwritten-by-read", ok, rd.loc(None), "" if ok else "Request::read can yield a request without having stored its method: the previous request's method would be used", how="store to .method dominates every Ok(Some(()))")
    # the reset as a whole is skipped only when nothing was read
    f = prog.method(r"^ohkami::request::Request$", "clear")
    f = prog.inlined(f, 2, lambda caller, callee: callee.crate == caller.crate and callee.self_ty == caller.self_ty and callee.name != "clear" and len(callee.blocks) < 60)
    resets = [c.bb for c in f.calls() if c.name == "clear"] + [bi for bi, st, agg in decision.field_stores(f, "payload")]
    conds = set()
    for bb in resets:
        for fa in guards.facts_at(f, prog, bb):
            if fa.kind == "cmp":
                lhs = guards.describe_origin(f, fa.lhs)
                if first_buffer_byte(f, fa.lhs):
                    lhs = "__buf__[0]"
                conds.add("%s %s %s" % (lhs, fa.op, guards.describe_origin(f, fa.rhs)))
            elif fa.kind in ("boolcall",):
                conds.add("%s=%s" % (fa.call.name, fa.truth))
            elif fa.kind == "variant" and not getattr(fa, "derived", None) and not (fa.steps and fa.steps[-1][0] == "call" and fa.steps[-1][1].name == "next"):
                conds.add("match:%s" % sorted(map(str, fa.allowed or [])))
    allowed = [c for c in conds if c == "__buf__[0] Ne const 0"]
    other = [c for c in conds if c not in allowed]
    ok = not other
    ck.ob(R, "Request::clear:guard", ok, f.loc(None), "" if ok else "Request::clear() performs its resets only under %r: a request that does not satisfy it leaks into the next one" % sorted(other), how="only condition: first buffer byte != 0 (nothing was read => nothing to reset)")


def c05b(ck, prog):
    R = "C05-b MUSTPASS session loop"
    manage = prog.one(r"^ohkami::session::Session::manage$")
    bodies = [g for g in prog.descendants(manage.key) if g.coroutine]
    # the loop's statements may sit in local async helpers it awaits (one turn of the loop as a function): read the
    # coroutine with those spliced in at the await
    views = [prog.awaited_inlined(g, 2, containing=r"^ohkami::request::Request::read$|^ohkami::response::Response::send$|router::.*Router::handle$") for g in bodies]
    cand = [g for g in views if g.calls_to(r"^ohkami::request::Request::read$") and g.calls_to(r"^ohkami::request::Request::clear$")]
    if len(cand) != 1:
        raise AnchorLost("the session loop coroutine was not found (%d candidates)" % len(cand))
    f = cand[0]
    family = [f] + prog.descendants(f.key) + [g for k in f.rec.get("inlined", []) for g in prog.descendants(k)]
    one = lambda pat, what: _one(f, pat, what)
    clear = one(r"^ohkami::request::Request::clear$", "req.clear()")
    read = one(r"^ohkami::request::Request::read$", "req.read()")
    handle = [c for g in family for c in g.calls_to(r"router::.*Router::handle$")]
    if len(handle) != 1:
        raise AnchorLost("router.handle call not found")
    hc = handle[0]
    sends = f.calls_to(r"^ohkami::response::Response::send$")
    ck.floor(R, "send sites", len(sends), 2)
    # (1) clear before every read
    ok = f.dominates(clear.bb, read.bb) and read.bb not in f.reachable_from(read.target, avoid=(clear.bb,))
    ck.ob(R, "clear-before-each-read", ok, f.loc(read.sp), "" if ok else "a request can be read on a path that did not pass req.clear() since the previous read: state of the previous request survives", how="no path read -> read avoiding clear")
    # the await of read: its poll's Ready payload; Ok(Some) edge
    def ok_some(bb):
        return paths.has_fact(f, prog, bb, lambda fa: fa.kind == "variant" and fa.allowed == {"Some"} and fa.steps and "read" in guards.describe_origin(f, fa.steps) or False) is not None
    # the closure calling handle is created in f; locate the block that creates/calls it
    hb = hc.bb if hc.fn is f else None
    if hb is None:
        for c in f.calls_to(r"catch_unwind$"):
            hb = c.bb
    facts = guards.facts_at(f, prog, hb)
    rdpoll = [c for c in f.calls() if re.search(r"Future::poll$", c.decl or "") and paths.root_call(f, c.args[0]) is not None and paths.root_call(f, c.args[0]).bb == read.bb]
    okedge = [fa for fa in facts if fa.kind == "variant" and fa.allowed == {"Ok"} and fa.steps and fa.steps[-1][0] == "call" and rdpoll and fa.steps[-1][1].bb == rdpoll[0].bb]
    someedge = [fa for fa in facts if fa.kind == "variant" and fa.allowed == {"Some"} and fa.steps and fa.steps[-1][0] == "call" and rdpoll and fa.steps[-1][1].bb == rdpoll[0].bb]
    ok = bool(okedge) and bool(someedge)
    ck.ob(R, "handle-only-on-Ok(Some)", ok, f.loc(hc.sp), "" if ok else "the router is invoked on a path where read() did not return Ok(Some(())): a handler could run on a half-parsed or absent request", how="router.handle under the Ok and Some edges of read().await")
    # (2) every path from handle to the next iteration or out of the loop passes send
    send_blocks = tuple(c.bb for c in sends)
    after = f.reachable_from(f.term(hb).get("target"), avoid=send_blocks)
    exits = set(f.exits())
    bad = []
    if clear.bb in after:
        bad.append("next iteration")
    if after & exits:
        bad.append("loop exit")
    ok = not bad
    ck.ob(R, "send-after-handle", ok, f.loc(hc.sp), "" if ok else "after the router ran, the loop can continue (%s) without sending the response" % ", ".join(bad), how="every path handle -> (next clear | exit) passes Response::send")
    # the Err(res) edge of read passes send
    errsend = [c for c in sends if any(fa.kind == "variant" and fa.allowed == {"Err"} and fa.steps and fa.steps[-1][0] == "call" and rdpoll and fa.steps[-1][1].bb == rdpoll[0].bb for fa in guards.facts_at(f, prog, c.bb))]
    # ... on every path: from the Err edge, neither the next iteration nor the loop exit is reached without a send
    err_ok = bool(errsend)
    if errsend and rdpoll:
        for sb in sorted(f.live_blocks()):
            if f.blocks[sb]["t"]["k"] != "switch" or f.is_cleanup(sb):
                continue
            for tb, lab in f.succ(sb):
                try:
                    facts = guards.derive(f, prog, guards.edge_facts(f, prog, sb, {lab}))
                except Exception:
                    facts = []
                if any(fa.kind == "variant" and fa.allowed == {"Err"} and fa.steps and fa.steps[-1][0] == "call" and fa.steps[-1][1].bb == rdpoll[0].bb for fa in facts):
                    aft = f.reachable_from(tb, avoid=send_blocks)
                    if clear.bb in aft or (aft & exits):
                        err_ok = False
    ck.ob(R, "error-response-sent", err_ok, f.loc(read.sp), "" if err_ok else "the error response of a refused request is not sent on every path (the loop goes on, or ends, without Response::send after read() answered Err)", how="Err(res) => res.send() on every path")
    # (3) close: read from the request headers before handle, acted on after send
    conn = [c for c in f.calls_to(r"request::headers::(_::)?<impl ohkami::request::headers::Headers>::Connection$|request::headers::Headers::Connection$")]
    ok = len(conn) == 1 and f.dominates(conn[0].bb, hb)
    ck.ob(R, "close-read-before-handle", ok, f.loc(conn[0].sp if conn else None), "" if ok else "the Connection header is not read before the router (which may mutate the request) runs", how="headers.Connection() dominates router.handle")
    if ok:
        # the decision to end the session: a bool computed from the Connection() value (a `matches!`, an `==`, a predicate
        # closure handed to is_some_and -- combinators and closure calls expanded); its test must come after the send,
        # and it may be true only where the header value was compared equal to `close`
        from .lib import inline as _inline, pathsens
        g = _inline.inline_closure_calls(prog, _inline.expand_combinators(prog, f))
        gconn = [c for c in g.calls() if c.bb == conn[0].bb][0]
        from_conn = lambda op: "Connection(" in decision.describe_deep(g, op, 8)

        def close_literal(c):
            """`x == "close"`-like call on the Connection value -> (is such a comparison, literal accepted)"""
            if c.name not in ("eq", "ne", "eq_ignore_ascii_case", "starts_with", "ends_with", "contains", "matches") or len(c.args) < 2:
                return False, False
            lits = [(g.const_args(c)[i] or {}).get("s") for i in range(len(c.args))]
            others = [a for i, a in enumerate(c.args) if lits[i] is None]
            lit = next((x for x in lits if x is not None), None)
            if lit is None or not others or not any(from_conn(a) for a in others):
                return False, False
            good = (c.name == "eq" and lit in ("close", "Close")) or (c.name == "eq_ignore_ascii_case" and lit.lower() == "close")
            return True, good

        def eq_close_edge(facts):
            for fa in facts:
                if fa.kind == "boolcall" and fa.truth:
                    is_cmp, good = close_literal(fa.call)
                    if is_cmp and good:
                        return True
            return False
        sw, bad = [], []
        const_defs = {}
        for bi in sorted(g.live_blocks()):
            t = g.term(bi)
            if not (t["k"] == "switch" and t["dty"] == "bool" and t["discr"][0] in ("c", "m")) or g.is_cleanup(bi):
                continue
            involved = False
            probs = []
            for kind, pl, dbb in paths.value_defs(g, t["discr"]):
                if kind == "const":
                    if str(pl.get("v")) == "1" and dbb is not None and gconn.target is not None and dbb in g.reachable_from(gconn.target):
                        # which comparisons lie on the paths to this `true`?
                        cmps = [c for c in g.calls() if close_literal(c)[0] and dbb in g.reachable_from(c.bb)]
                        if cmps:
                            involved = True
                            ex = pathsens.path_avoiding_edges(g, prog, gconn.target, dbb, eq_close_edge)
                            if ex is not None:
                                probs.append("`true` at %s is reachable without the header having compared equal to `close`" % g.loc(g.blocks[dbb]["t"].get("sp")))
                elif kind == "call":
                    is_cmp, good = close_literal(pl)
                    if is_cmp:
                        involved = True
                        if not good:
                            probs.append("decided by `%s(.., %r)`" % (pl.name, [(g.const_args(pl)[i] or {}).get("s") for i in range(len(pl.args))]))
                    elif any(from_conn(a) for a in pl.args if a[0] in ("c", "m")) and pl.name not in ("is_some", "is_none"):
                        involved = True
                        probs.append("decided by `%s` on the header value" % pl.name)
                elif kind == "not":
                    if from_conn(pl):
                        involved = True
                        probs.append("decided by a negated test of the header value")
            if involved:
                sw.append(bi)
                bad += probs
                const_defs[bi] = {dbb for kind, pl, dbb in paths.value_defs(g, t["discr"]) if kind == "const" and dbb is not None}
        # comparisons that only compute the flag (the arms of a `matches!`, the operands of `||`) are not where the
        # decision is acted on
        internal = {bi for bi in sw if any(d in g.reachable_from(bi) for bj, ds in const_defs.items() if bj != bi for d in ds)}
        sw = [bi for bi in sw if bi not in internal]
        main_send = [c for c in sends if c not in errsend]
        ok2 = bool(sw) and bool(main_send) and all(any(g.dominates(s.bb, b) for s in main_send) for b in sw)
        ck.ob(R, "close-acted-on-after-send", ok2, f.loc(None), "" if ok2 else "`Connection: close` ends the session before the response of that request has been sent (or no decision computed from the Connection header was found)", how="the test of `close` is dominated by res.send()")
        ok3 = bool(sw) and not bad
        ck.ob(R, "close-only-for-close", ok3, f.loc(conn[0].sp), "" if ok3 else "the session-ending decision taken from the Connection header is not `the value equals close`: %s -- a request with another Connection value would end the session "
              "and the requests that follow it on the connection get no response" % "; ".join(bad[:3]), how="the flag is true only on paths where the header value compared equal to `close`/`Close`")
    # (4) nothing is spawned inside the loop
    sp = [c for g in family for c in g.calls() if re.search(r"::spawn$|spawn_local$|spawn_blocking$", c.callee or "") and not (c.callee or "").startswith("core::")]
    ck.ob(R, "no-spawn-in-loop", not sp, f.loc(sp[0].sp if sp else None), "" if not sp else "a task is spawned inside the session loop (%s): responses may be produced out of request order" % sp[0].callee, how="no spawn in the session loop")


def _one(f, pat, what):
    cs = f.calls_to(pat)
    if len(cs) != 1:
        raise AnchorLost("expected one call of %s in the session loop, found %d" % (what, len(cs)))
    return cs[0]


def c05c(ck, prog):
    """`what an earlier request left behind does not influence the next one`: Request::clear wipes the buffer only up to the first
    NUL, so bytes of earlier requests stay in it. Everything the parser looks at must therefore be bounded by the count
    received *for this request* -- in particular the search for the end of the head (the C06-c clause, re-evaluated here:
    its violation is a leak between requests of one connection)."""
    R = "C05-c GUARD stale buffer bytes"
    from . import C06
    sub = type(ck)(ck.prop, ck.tier)
    sub.config = ck.config
    C06.c06c(sub, prog)
    n = 0
    for o in sub.obs:
        if "within-received-bytes" in o["key"] or o["key"] == "floor:head-end searches":
            n += 1
            ck.ob(R, o["key"], o["ok"], o["where"], o["detail"], how=o["how"], nontrivial=o.get("nontrivial", True))
    ck.floor(R, "buffer searches checked", n, 1)


def c05d(ck, prog):
    """Request::clear wipes the buffer only up to its first NUL, so bytes of an earlier request can lie behind the bytes
    received for this one: the head parser (and with it the `remaining` bytes handed to read_payload) must be given the
    received prefix only. The C02-d parser-input clause re-evaluated: handing the parser the whole buffer is what lets one
    request observe another."""
    R = "C05-d GUARD parser sees received bytes only"
    from . import C02
    sub = type(ck)(ck.prop, ck.tier)
    sub.config = ck.config
    sub.guard("C02-d USED-RESULT", lambda: C02.c02d(sub, prog))
    n = 0
    for o in sub.obs:
        if o["key"] in ("parser-input:bounded-by-received", "anchor-lost"):
            n += 1
            ck.ob(R, "C02-d:" + o["key"], o["ok"], o["where"], o["detail"], how=o["how"], nontrivial=o.get("nontrivial", True))
    ck.floor(R, "parser input clauses", n, 1)
