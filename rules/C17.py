"""C17 Server-sent event streams deliver every message intact and end properly.
Decides: (a) chunk framing in the stream arm of Response::send; (b) stream => chunked, no length; (c) QueueStream::poll_next
decision table and producer-future protocol; (d) the self-referential queue is pinned before use."""
import re

from . import C03
from .lib import decision, guards, paths
from .lib.mir import AnchorLost

CONFIGS_QUICK = ["A", "R"]
CONFIGS_THOROUGH = ["A", "R", "ASYNCSTD", "SMOL", "NIO", "GLOMMIO"]
TECHNIQUE = "order/dominance rules on the stream arm of the send coroutine (built MIR), literal framing tables, decision-table extraction of QueueStream::poll_next"
LEVEL_TEXT = ('Decides clauses C17-a..d: in the stream arm of Response::send the head is written and flushed before the first item; each item is framed as hex(size) '
              'CRLF message CRLF with the size taken from the finished message (no write to it between the size computation and the append) and its leading zeros str'
              'ipped safely; each line is emitted as `data: ` line LF and the message ends with one more LF; every way out of the item loop writes the terminal chunk'
              ' `0 CRLF CRLF` before the arm returns; whoever stores Content::Stream sets chunked coding and removes Content-Length; QueueStream::poll_next is exactl'
              'y the 2x2 table (producer Ready/Pending x queue empty/non-empty), the producer future is polled until Ready and dropped from polling only on its Ready'
              ' edge, set-up runs once before the first poll, the queue is FIFO with one producer and one consumer site; DataStream::new pins the self-referential st'
              'ream on the heap before anything can poll it. Per item and per line on every path: once the stream (the line iterator) answered Some it is not asked a'
              "gain before the chunk was written (the line's writes were made). Decides these clauses, not message integrity for all texts (a lone CR inside a messag"
              "e is not handled by `split('\\n')`) nor delivery under all schedules.")


def run(ck, progs):
    ck.explanation = LEVEL_TEXT
    ck.assumptions = ["RFC 9112 section 7.1 chunk grammar; WHATWG event-stream `data` field", "A5"]
    for cfg, prog in progs.items():
        ck.config = cfg
        ck.guard("C17-a MUSTPASS framing", lambda: c17a(ck, prog))
        ck.guard("C17-b PAIR stream-headers", lambda: c17b(ck, prog))
        ck.guard("C17-c DECISION queue", lambda: c17c(ck, prog))
        ck.guard("C17-d pinned", lambda: c17d(ck, prog))
    ck.config = None


def writes_to(f, root_bb, names=r"^(extend_from_slice|push|append|extend|push_str|insert|resize|truncate|clear)$"):
    """calls that mutate the Vec created by the call in block root_bb, in dominance order"""
    out = []
    for c in f.calls():
        if not re.search(names, c.name) or not c.args:
            continue
        if not re.search(r"alloc::vec::Vec", c.callee or ""):
            continue
        r = paths.root_call(f, c.args[0], through=paths.TRANSPARENT + r"|DerefMut>::deref_mut$")
        if r is not None and r.bb == root_bb:
            out.append(c)
    out.sort(key=lambda c: (len(f.dom_chain(c.bb)), c.bb))
    return out


def lit(f, c, i):
    a = f.const_args(c)
    if i < len(a) and a[i] is not None:
        if "s" in a[i]:
            # a one-byte literal appended with extend_from_slice is the same write as push(byte)
            if len(a[i]["s"]) == 1 and c.name in ("extend_from_slice", "push_str"):
                return ord(a[i]["s"])
            return a[i]["s"]
        if "v" in a[i]:
            return int(a[i]["v"])
    return None


def c17a(ck, prog):
    R = "C17-a MUSTPASS framing"
    f = prog.coroutine_body(prog.one(r"^ohkami::response::Response::send$").key)
    # the write + flush pair may be an awaited local helper, the framing of one message a synchronous one: read send with
    # such helpers spliced in
    f = prog.awaited_inlined(f, 1, containing=r"(AsyncWriteExt|WriteExt)::write_all$")
    f = prog.inlined(f, 2, r"^ohkami_lib::num::hexized_bytes$")
    nxt = [c for c in f.calls() if re.search(r"StreamExt::next$|stream::StreamExt::next$", c.decl or c.callee or "")]
    if len(nxt) != 1:
        raise AnchorLost("the `stream.next()` call of the stream arm was not found (%d)" % len(nxt))
    nx = nxt[0]
    hexc = f.calls_to(r"^ohkami_lib::num::hexized_bytes$")
    if len(hexc) != 1:
        raise AnchorLost("hexized_bytes call not found")
    hx = hexc[0]
    msg = paths.root_call(f, hx.args[0], through=paths.TRANSPARENT + r"|Vec::<T, A>::len$")
    ok = msg is not None and msg.name == "with_capacity"
    ck.ob(R, "size-of-message", ok, f.loc(hx.sp), "" if ok else "the chunk size is not the length of the message buffer (%s)" % decision.describe_deep(f, hx.args[0], 3), how="hexized_bytes(message.len())")
    if not ok:
        return
    mw = writes_to(f, msg.bb)
    # chunk buffer: Vec::from(&size_hex[pos..])
    THRU = paths.TRANSPARENT + r"|DerefMut>::deref_mut$|Deref>::deref$|::as_slice$|::as_mut_slice$"
    app = [c for c in f.calls_to(r"Vec::<T, A>::(append|extend_from_slice|extend)$") if len(c.args) > 1 and paths.root_call(f, c.args[1], through=THRU) is not None and paths.root_call(f, c.args[1], through=THRU).bb == msg.bb
           and not (paths.root_call(f, c.args[0], through=THRU) is not None and paths.root_call(f, c.args[0], through=THRU).bb == msg.bb)]
    concat_elems = None
    if not app:
        # the chunk as one concatenation: [size, CRLF, message, CRLF].concat()
        for c in f.calls():
            if c.name not in ("concat", "join") or not c.args:
                continue
            arr = array_elements(f, c.args[0])
            if arr is None:
                continue
            holds = [o for o in arr if o[0] in ("c", "m") and paths.root_call(f, o, through=THRU) is not None and paths.root_call(f, o, through=THRU).bb == msg.bb]
            if len(holds) == 1 and c.name == "concat":
                app = [c]
                concat_elems = arr
    ok = len(app) == 1
    ck.ob(R, "message-appended-once", ok, f.loc(hx.sp), "" if ok else "the message is put into the chunk %d times" % len(app), how="chunk.append(&mut message) / chunk.extend_from_slice(&message) / [.., &message, ..].concat()")
    if not ok:
        return
    ap = app[0]
    # (1) no write to message between the size computation and the append; all its writes precede the size computation
    late = [c for c in mw if c.bb in f.reachable_from(hx.target, avoid=(ap.bb,))]
    early = all(f.dominates(c.bb, hx.bb) or c.bb in f.reachable_from(msg.target, avoid=(hx.bb,)) for c in mw)
    ok = not late and early and len(mw) >= 4
    ck.ob(R, "size-after-last-write", ok, f.loc(hx.sp),
          "" if ok else "`message` is written (%s) after its size was taken for the chunk header and before it is appended: the announced chunk size differs from the bytes sent" % ", ".join("%s@%s" % (c.name, f.loc(c.sp)) for c in late),
          how="%d writes to message, all before hexized_bytes(message.len()); none between it and the append" % len(mw))
    # (2) per-line framing
    # the line loop: an Iterator::next (other than the stream's) under whose `Some` edge the message is written
    cand = [c for c in f.calls() if (c.decl or "") == "core::iter::traits::iterator::Iterator::next" or re.search(r"Iterator>?::next$", c.callee or "")]
    loop_nx = [c for c in cand if any(paths.has_fact(f, prog, w.bb, lambda fa, c=c: fa.kind == "variant" and fa.allowed == {"Some"} and fa.steps and fa.steps[-1][0] == "call" and fa.steps[-1][1].bb == c.bb) for w in mw)]
    in_line = lambda c: len(loop_nx) == 1 and paths.has_fact(f, prog, c.bb, lambda fa: fa.kind == "variant" and fa.allowed == {"Some"} and fa.steps and fa.steps[-1][0] == "call" and fa.steps[-1][1].bb == loop_nx[0].bb) is not None
    after_lines = lambda c: len(loop_nx) == 1 and paths.has_fact(f, prog, c.bb, lambda fa: fa.kind == "variant" and fa.allowed == {"None"} and fa.steps and fa.steps[-1][0] == "call" and fa.steps[-1][1].bb == loop_nx[0].bb) is not None

    def shape_of(cs):
        out = []
        for c in sorted(cs, key=lambda c: len(f.dom_chain(c.bb))):
            v = lit(f, c, 1)
            if v is None:
                d = decision.describe_deep(f, c.args[1], 3)
                src = paths.root_call(f, c.args[1])
                v = "<line>" if len(loop_nx) == 1 and src is not None and src.bb == loop_nx[0].bb else d[:30]
            out.append((c.name, v))
        return out
    per_line = shape_of([c for c in mw if in_line(c)])
    tail = shape_of([c for c in mw if after_lines(c)])
    other = shape_of([c for c in mw if not in_line(c) and not after_lines(c)])
    norm = lambda xs: [("push", v) if isinstance(v, int) else (n_, v) for n_, v in xs]
    per_line, tail, other = norm(per_line), norm(tail), norm(other)
    ok = per_line == [("extend_from_slice", "data: "), ("extend_from_slice", "<line>"), ("push", 10)] and tail == [("push", 10)] and not other
    ck.ob(R, "line-framing", ok, f.loc(msg.sp),
          "" if ok else "a message is built as %r per line, then %r (other writes: %r); expected `data: ` line LF per line and one final LF" % (per_line, tail, other), how="per line: data: <line> LF; after the lines: LF")
    # line breaks: an event-stream parser ends a line at CRLF, LF *and* CR; the encoder must split at all three,
    # or a message containing one of them is decoded with other line boundaries (and its tail can pose as another field)
    sp = []
    hosts = [f] + prog.descendants(f.key)
    for k in f.rec.get("inlined", []):
        hosts += prog.descendants(k)
    for g in hosts:
        for c in g.calls_to(r"^core::str::<impl str>::(split|lines|split_terminator|split_inclusive|rsplit|splitn|split_once)$"):
            sp.append((g, c))
    seps = set()
    names = []
    for g, c in sp:
        names.append(c.name)
        ca = (g.const_args(c) + [None, None])[1] if c.name != "lines" else None
        if c.name == "lines":
            seps |= {"\n", "\r\n"}
        elif ca is not None:
            seps.add(ca.get("ch") if "ch" in ca else ca.get("s"))
        elif len(c.args) > 1:
            d = decision.describe_deep(g, c.args[1], 3)
            for m in re.finditer(r"const '((?:\\\\.|[^'])*)'", d):
                seps.add(m.group(1).encode().decode("unicode_escape"))
    lone = {x for x in seps if x is not None and len(x) == 1}
    ok = bool(sp) and {"\n", "\r"} <= lone and "split_inclusive" not in names
    ck.ob(R, "line-split", ok, f.loc(sp[0][1].sp if sp else None),
          "" if ok else "messages are split into lines with %s on separator(s) %s: a line of an event stream also ends at %s, so a message containing it is decoded with different line boundaries than it was given"
          % (names, sorted(repr(x) for x in seps if x is not None), " and ".join(repr(x) for x in sorted({"\n", "\r"} - lone))), how="split at CRLF, LF and CR (%s)" % sorted(repr(x) for x in seps if x is not None))
    # (3) chunk framing: [hex digits] CRLF message CRLF
    chunk = paths.root_call(f, ap.args[0], through=paths.TRANSPARENT + r"|DerefMut>::deref_mut$") if concat_elems is None else ap
    cw = writes_to(f, chunk.bb) if chunk is not None and concat_elems is None else []

    def classify(op, c=None):
        v = None
        if c is not None:
            v = lit(f, c, 1)
        if v is not None:
            return ("lit", "\n" if v == 10 else (chr(v) if isinstance(v, int) else v))
        d = decision.describe_deep(f, op, 6)
        if "hexized_bytes(" in d and re.search(r"index\(|RangeFrom|get_unchecked\(|split_at\(", d) and "position(" in d:
            return ("hex-size",)
        if re.match(r"^skip_while\((into_iter|iter|copied\(iter)\(.*hexized_bytes\(", d):
            return ("hex-size",)        # `size_hex.into_iter().skip_while(|b| *b == b'0')`
        r = paths.root_call(f, op, through=THRU)
        if r is not None and r.bb == msg.bb:
            return ("message",)
        return ("?", d[:50])

    shape = []
    if concat_elems is not None:
        for o in concat_elems:
            st_ = f.origin(o) if o[0] in ("c", "m") else ([("const", o[1])] if o[0] == "k" else None)
            if st_ and st_[-1][0] == "const" and (st_[-1][1].get("s") is not None):
                shape.append(("lit", st_[-1][1]["s"]))
            else:
                shape.append(classify(o))
    elif chunk is not None and chunk.name in ("from", "to_vec", "to_owned", "from_iter", "into") and chunk.args:
        shape.append(classify(chunk.args[-1]))     # the chunk starts as a copy of something
    for c in cw:
        shape.append(classify(c.args[1], c) if len(c.args) > 1 else ("?", c.name))
    want = [("hex-size",), ("lit", "\r\n"), ("message",), ("lit", "\r\n")]
    ok = shape == want
    src = decision.describe_deep(f, ap.args[0], 5)
    ck.ob(R, "chunk-framing", ok, f.loc(ap.sp), "" if ok else "a chunk is built as %r, expected hex-size CRLF message CRLF" % (shape,), how="<hex size> CRLF <message> CRLF")
    # leading zeros: position(!= '0').unwrap() is safe because the message is never empty
    pos = [c for c in f.calls_to(r"Iterator>?::position$") if "hexized_bytes" in decision.describe_deep(f, c.args[0], 4)]
    ok = len(pos) == 1
    if ok:
        clos = f.origin(pos[0].args[1])
        cf = prog.fns.get(clos[-1][1][1].get("def")) if clos and clos[-1][0] == "agg" else None
        e = decision.show(decision.bool_expr(cf)) if cf is not None else "?"
        ok = re.fullmatch(r"Ne\(arg2,const 48\)|!Eq\(arg2,const 48\)", e) is not None
        # any write of at least one byte that every message passes: push(byte) or extend_from_slice(non-empty literal)
        def nonempty_write(c):
            v = lit(f, c, 1)
            return c.name == "push" or (c.name in ("extend_from_slice", "push_str") and (isinstance(v, int) or (isinstance(v, str) and len(v) > 0)))
        uncond = [c for c in mw if nonempty_write(c) and f.dominates(c.bb, hx.bb) and not any(fa.kind == "variant" and fa.allowed == {"Some"} and fa.steps and fa.steps[-1][0] == "call" and len(loop_nx) == 1 and fa.steps[-1][1].bb == loop_nx[0].bb for fa in guards.facts_at(f, prog, c.bb))]
        ok = ok and len(uncond) >= 1
        ck.ob(R, "leading-zeros", ok, f.loc(pos[0].sp), "" if ok else "stripping the leading zeros of the size (%s) can find no non-zero digit: the message may be empty" % e, how="position(|b| b != '0'); message.len() >= 1 by an unconditional push")
    else:
        # `.skip_while(|b| *b == b'0')`: cannot fail; what remains is non-empty when the message is (size >= 1)
        sk = [c for c in f.calls() if c.name == "skip_while" and "hexized_bytes" in decision.describe_deep(f, c.args[0], 4)]
        oks = len(sk) == 1
        e = "?"
        if oks:
            clos = f.origin(sk[0].args[1])
            cf = prog.fns.get(clos[-1][1][1].get("def")) if clos and clos[-1][0] == "agg" else None
            e = decision.show(decision.bool_expr(cf)) if cf is not None else "?"
            oks = re.fullmatch(r"Eq\((deref\()?arg2\)?,const 48\)|!Ne\((deref\()?arg2\)?,const 48\)", e) is not None

            def nonempty_write2(c):
                v = lit(f, c, 1)
                return c.name == "push" or (c.name in ("extend_from_slice", "push_str") and (isinstance(v, int) or (isinstance(v, str) and len(v) > 0)))
            uncond = [c for c in mw if nonempty_write2(c) and f.dominates(c.bb, hx.bb) and not any(fa.kind == "variant" and fa.allowed == {"Some"} and fa.steps and fa.steps[-1][0] == "call" and len(loop_nx) == 1 and fa.steps[-1][1].bb == loop_nx[0].bb for fa in guards.facts_at(f, prog, c.bb))]
            oks = oks and len(uncond) >= 1
        ck.ob(R, "leading-zeros", oks, f.loc(sk[0].sp if sk else hx.sp), "" if oks else "the hex size is not trimmed by position(..) / skip_while(== '0') over a never-empty message (%s)" % e, how="skip_while(|b| b == '0'); message.len() >= 1 by an unconditional push")
    # (4) head flushed before the first item; chunk written and flushed per item
    wa = f.calls_to(r"(AsyncWriteExt|WriteExt)::write_all$")
    fl = f.calls_to(r"(AsyncWriteExt|WriteExt)::flush$")
    arm = lambda c: paths.has_fact(f, prog, c.bb, lambda fa: fa.kind == "variant" and fa.allowed == {"Stream"}) is not None
    wa_s = [c for c in wa if arm(c)]
    fl_s = [c for c in fl if arm(c)]
    head = [c for c in wa_s if f.dominates(c.bb, nx.bb)]
    ok = len(head) == 1 and any(f.dominates(head[0].bb, x.bb) and f.dominates(x.bb, nx.bb) for x in fl_s)
    ck.ob(R, "head-before-items", ok, f.loc(nx.sp), "" if ok else "the response head is not written and flushed before the first stream item is awaited", how="write_all(head); flush() dominate stream.next()")
    per = [c for c in wa_s if f.dominates(ap.bb, c.bb) and chunk is not None and paths.root_call(f, c.args[1], through=THRU) is not None and paths.root_call(f, c.args[1], through=THRU).bb == chunk.bb]
    ok = len(per) == 1 and any(f.dominates(per[0].bb, x.bb) for x in fl_s)
    # ... for every item and every line: once the stream (the line iterator) has answered `Some`, it is not asked again before
    # the item's chunk was written (the line's three writes were made) -- no `continue` on an empty item or a blank line
    if ok and per:
        nxpoll = [p_ for p_ in f.calls() if re.search(r"Future::poll$", p_.decl or "") and paths.root_call(f, p_.args[0]) is not None and paths.root_call(f, p_.args[0]).bb == nx.bb]
        tbs = [tb for pp in nxpoll for tb in paths.some_edge_targets(f, prog, pp.bb)]
        if not tbs:
            tbs = paths.some_edge_targets(f, prog, nx.bb)
        if not tbs or any(nx.bb in f.reachable_from(tb, avoid=(per[0].bb,)) for tb in tbs):
            ok = False
    if ok and len(loop_nx) == 1:
        ltbs = paths.some_edge_targets(f, prog, loop_nx[0].bb)
        line_writes = [c for c in mw if in_line(c)]
        if not ltbs or any(loop_nx[0].bb in f.reachable_from(tb, avoid=(w.bb,)) for tb in ltbs for w in line_writes):
            ok = False
    ck.ob(R, "chunk-sent-per-item", ok, f.loc(ap.sp), "" if ok else "the chunk is not written and flushed in the item's iteration on every path (or a line of the message is skipped): an empty message or a blank line would be dropped", how="write_all(chunk); flush() after the append, for every item; every line written")
    # (5) terminal chunk on every exit of the item loop
    term = [c for c in wa_s if lit(f, c, 1) == "0\r\n\r\n"]
    ok = len(term) == 1
    rets = [bb for bb, kind, payload in paths.ret_sites(f) if arm_bb(f, prog, bb)]
    if ok:
        t = term[0]
        none_edge = paths.has_fact(f, prog, t.bb, lambda fa: fa.kind == "variant" and fa.allowed == {"None"})
        ok = bool(rets) and all(f.dominates(t.bb, r) for r in rets) and none_edge is not None
    ck.ob(R, "terminal-chunk", ok, f.loc(term[0].sp if term else nx.sp),
          "" if ok else "the stream arm of Response::send can finish without writing the terminal chunk `0 CRLF CRLF` (%d such write(s), %d return site(s) in the arm)" % (len(term), len(rets)),
          how="write_all(b\"0\\r\\n\\r\\n\") dominates every return of the stream arm")
    if ok:
        ok = any(f.dominates(term[0].bb, x.bb) and all(f.dominates(x.bb, r) for r in rets) for x in fl_s)
        ck.ob(R, "terminal-chunk-flushed", ok, f.loc(term[0].sp), "" if ok else "the terminal chunk is not flushed before the arm returns", how="flush() after the terminal chunk")


def array_elements(f, op):
    """operands of the array literal an operand (a reference to it, possibly unsized to a slice) denotes, or None"""
    for _ in range(8):
        if op[0] not in ("c", "m"):
            return None
        pl = op[1]
        if pl[1] and not all(pr[0] == "d" for pr in pl[1]):
            return None
        sd = f.single_def(pl[0])
        if sd is None or sd[2] != "assign":
            return None
        r = sd[3]["r"]
        if r[0] == "agg" and r[1].get("k") == "array":
            return list(r[2])
        if r[0] == "use":
            op = r[1]
        elif r[0] == "cast" and isinstance(r[2], list):
            op = r[2]
        elif r[0] == "ref":
            op = ["c", r[2]]
        else:
            return None
    return None


def arm_bb(f, prog, bb):
    return paths.has_fact(f, prog, bb, lambda fa: fa.kind == "variant" and fa.allowed == {"Stream"} and "content" in guards.describe_origin(f, fa.steps)) is not None


def c17b(ck, prog):
    R = "C17-b PAIR stream-headers"
    sub = type(ck)(ck.prop, ck.tier)
    sub.config = ck.config
    C03.c03d(sub, prog)
    n = 0
    for o in sub.obs:
        if o["key"].endswith(":Stream"):
            n += 1
            ck.ob(R, o["key"], o["ok"], o["where"], o["detail"], o["how"])
    ck.floor(R, "functions storing Content::Stream", n, 1)
    f = prog.method(r"^ohkami::response::Response$", "set_stream_raw")
    cts = [(f.const_args(c)[1] or {}).get("s") for c in f.calls_to(r"SetHeaders::<'set>::ContentType$")]
    ok = cts == ["text/event-stream"]
    ck.ob(R, "content-type", ok, f.loc(None), "" if ok else "set_stream_raw sets Content-Type %r, an event stream is text/event-stream" % cts, how="ContentType(\"text/event-stream\")")


def c17c(ck, prog):
    R = "C17-c DECISION queue"
    fs = [f for f in prog.fns.values() if f.name == "poll_next" and "QueueStream" in (f.self_ty or "")]
    if len(fs) != 1:
        raise AnchorLost("QueueStream::poll_next not found")
    f = fs[0]
    rows = decision.const_table(f, prog)
    table = {}
    subj = [c[0] for conds, _ in rows for c in conds]

    def norm(d):
        return "Ready(Some)" if d.startswith("Ready{Some{pop_front") else "Ready(None)" if d.startswith("Ready{None") else "Pending" if d.startswith("Pending") else d

    def prod_label(subject, lab):
        """the producer's state a condition on the result of poll_queuing_future stands for"""
        s_ = str(subject)
        if "is_ready(" in s_ or "is_pending(" in s_:
            truth = lab not in (0, "0", False)
            if "is_pending(" in s_:
                truth = not truth
            return "Ready" if truth else "Pending"
        return lab if isinstance(lab, str) else None

    for conds, val in rows:
        prod = [prod_label(c[0], c[1]) for c in conds if "poll_queuing_future" in str(c[0])]
        prod = [x for x in prod if x is not None]
        pop = [c[1] for c in conds if isinstance(c[1], str) and "pop_front" in str(c[0])]
        d = (val or {}).get("desc", "?")
        out = {}
        m = re.match(r"map\(poll_queuing_future\(", d)
        if m and not prod:
            # `producer.map(|()| X)`: Ready(()) -> Ready(X), Pending -> Pending
            inner = None
            for g_ in prog.descendants(f.key):
                rs = paths.ret_sites(g_)
                if len(rs) == 1 and rs[0][1] in ("None", "Some"):
                    inner = rs[0][1]
            if inner is not None:
                out = {"Ready": "Ready(%s)" % inner, "Pending": "Pending"}
        elif prod:
            out = {prod[0]: norm(d)}
        else:
            out = {"Ready": norm(d), "Pending": norm(d)}    # decided without looking at the producer's poll
        for pk, v in out.items():
            for qk in (pop if pop else ["None", "Some"]):
                table[(pk, qk)] = v
    want = {("Ready", "None"): "Ready(None)", ("Ready", "Some"): "Ready(Some)", ("Pending", "None"): "Pending", ("Pending", "Some"): "Ready(Some)"}
    for k, v in want.items():
        ok = table.get(k) == v
        ck.ob(R, "row:%s/%s" % k, ok, f.loc(None), "" if ok else "poll_next yields %s when the producer is %s and the queue pop is %s, expected %s" % (table.get(k), k[0], k[1], v), how="(%s, %s) -> %s" % (k[0], k[1], v))
    ok = len(table) == 4 and all("poll_queuing_future" in s or "pop_front" in s for s in subj)
    ck.ob(R, "table-shape", ok, f.loc(None), "" if ok else "poll_next is not a 2x2 decision on (poll_queuing_future, queue.pop_front): %r" % table, how="4 rows over (poll_queuing_future(cx), queue.pop_front())")
    # the producer is polled with the caller's context; setup runs first
    pq = f.calls_to(r"QueueStream<F, T, Fut>>::poll_queuing_future$|::poll_queuing_future$")
    su = f.calls_to(r"::setup$")
    ok = len(pq) == 1 and len(su) == 1 and f.dominates(su[0].bb, pq[0].bb) and decision.describe_deep(f, pq[0].args[1], 1) == "arg2"
    ck.ob(R, "setup-then-poll(cx)", ok, f.loc(None), "" if ok else "poll_next does not run setup() and then poll the producer with the caller's context", how="setup(); poll_queuing_future(cx)")
    # poll_queuing_future: Ready(()) when finished; otherwise poll, and forget the future only when it is Ready
    g = [x for x in prog.fns.values() if x.name == "poll_queuing_future"][0]
    clears = [(bi, st) for bi, st, agg in decision.field_stores(g, "queuing_state") if agg is not None and agg[1].get("variant") == "None"]
    ok = len(clears) == 1 and paths.has_fact(g, prog, clears[0][0], lambda fa: fa.kind == "boolcall" and fa.truth and fa.call.name == "is_ready") is not None
    ck.ob(R, "producer-dropped-only-when-ready", ok, g.loc(None), "" if ok else "the producer future stops being polled on a path where its poll was not Ready: messages it would still send are lost", how="queuing_state = None only under poll.is_ready()")
    # every answer given where the producer is known to be finished (queuing_state is None) is Ready(())
    fin = []
    for bb, kind, pl in paths.ret_sites(g):
        gone = paths.has_fact(g, prog, bb, lambda fa: (fa.kind == "boolcall" and fa.truth and fa.call.name == "is_none" and "queuing_state" in decision.describe_deep(g, fa.call.args[0], 3))
                              or (fa.kind == "variant" and fa.allowed == {"None"} and "queuing_state" in guards.describe_origin(g, fa.steps) + (decision.describe_deep(g, fa.steps[-1][1].args[0], 3) if fa.steps and fa.steps[-1][0] == "call" and fa.steps[-1][1].args else "")))
        if gone is not None:
            fin.append(kind)
    ok = bool(fin) and all(k == "Ready" for k in fin)
    ck.ob(R, "finished=>Ready", ok, g.loc(None), "" if ok else "a finished producer is not reported as Ready", how="queuing_state.is_none() => Ready(())")
    polls = [c for c in g.calls() if re.search(r"Future::poll$", c.decl or "")]
    ok = len(polls) == 1 and decision.describe_deep(g, polls[0].args[1], 1) == "arg2"
    ck.ob(R, "producer-polled-with-cx", ok, g.loc(None), "" if ok else "the producer future is not polled with the caller's Context (its wake-ups would go nowhere)", how="fut.poll(cx)")
    # setup once, guarded
    s = [x for x in prog.fns.values() if x.name == "setup" and "QueueStream" in x.key][0]
    call = [c for c in s.calls() if re.search(r"FnOnce::call_once$", c.decl or "")]
    ok = len(call) == 1 and paths.has_fact(s, prog, call[0].bb, lambda fa: fa.kind == "boolcall" and ((fa.truth and fa.call.name == "is_none") or (not fa.truth and fa.call.name == "is_some"))
                                            and "queue_ptr" in decision.describe_deep(s, fa.call.args[0], 3)) is not None
    ck.ob(R, "setup-once", ok, s.loc(None), "" if ok else "the producer closure can be started more than once / not under `queue_ptr.is_none()`", how="f(queue) only under proc.queue_ptr.is_none()")
    # WHO: pop_front is the only consumer, push_back the only producer
    cons = [(x.key, c.name) for x in prog.fns.values() if x.crate == "ohkami_lib" and "stream::impls" in x.key for c in x.calls() if re.search(r"VecDeque::<T, A>::(pop_front|pop_back|drain|clear|remove|truncate|swap_remove_back|swap_remove_front)$", c.callee or "")]
    prod = [(x.key, c.name) for x in prog.fns.values() if x.crate == "ohkami_lib" and "stream::impls" in x.key for c in x.calls() if re.search(r"VecDeque::<T, A>::(push_back|push_front|insert|append|extend)$", c.callee or "")]
    ok = {n for _, n in cons} == {"pop_front"} and {n for _, n in prod} == {"push_back"}
    ck.ob(R, "fifo", ok, f.loc(None), "" if ok else "queue consumers %r / producers %r: messages may be reordered, dropped or duplicated" % (cons, prod), how="%d pop_front site(s), %d push_back site(s)" % (len(cons), len(prod)))


def c17d(ck, prog):
    R = "C17-d pinned"
    f = prog.method(r"^ohkami::sse::DataStream<T>$", "new")
    pin = f.calls_to(r"Box::<T>::pin$")
    ok = len(pin) == 1 and "new(" in decision.describe_deep(f, pin[0].args[0], 2) and paths.root_call(f, pin[0].args[0]) is not None and re.search(r"QueueStream(::)?<F, T, Fut>>?::new$", paths.root_call(f, pin[0].args[0]).callee or "")
    ck.ob(R, "DataStream::new", bool(ok), f.loc(None), "" if ok else "DataStream::new does not Box::pin the QueueStream it creates (its internal pointers would dangle when it moves)", how="Box::pin(QueueStream::new(..))")
    # the raw pointers are created only in setup and dereferenced only in Queue::push/add and poll_queuing_future
    mk = [(x.name, c.name) for x in prog.fns.values() if x.crate == "ohkami_lib" and "stream::impls" in x.key for c in x.calls() if c.name in ("new_unchecked", "from", "new", "from_mut", "from_ref") and "NonNull" in (c.callee or "")]
    ok = bool(mk) and all(n == "setup" for n, _ in mk)
    ck.ob(R, "pointers-made-in-setup", ok, "", "" if ok else "self-referential pointers are created outside setup(): %r" % mk, how="NonNull pointers are made only in setup (x%d)" % len(mk))
