"""C15 The generated OpenAPI document is valid and describes exactly the application.
Decides: (a) emitted vocabularies (schema `type` names, `in` kinds, method names, fixed field names, keyword -> value kind);
(b) operations document their handler's signature in order; (c) authentication fangs add a security requirement and
components are registered."""
import re

from .lib import decision, guards, paths
from .lib.mir import AnchorLost

CONFIGS_QUICK = ["A", "R"]
CONFIGS_THOROUGH = ["A", "R"]
TECHNIQUE = "vocabulary tables read from the compiled constants and from the derive(Serialize) output (the keys serde really writes) vs the OpenAPI 3.1 / JSON Schema 2020-12 fixed fields; sibling-family rule over IntoHandler impls; exhaustiveness over authentication fangs"
LEVEL_TEXT = ('Decides clauses C15-a..f: every SchemaType::NAME is a JSON Schema 2020-12 type name (or empty = any); the keys each OpenAPI object actually serializes'
              ' (read from the derive output, renames applied) are fixed fields of that object in OpenAPI 3.1, required fields are written unconditionally, and keywo'
              'rds the meta-schema types as number/boolean/string/array carry a Rust type of that kind; ParameterKind is within {path,query,header,cookie}; Operation'
              's::register accepts exactly the lower-case Path Item methods gen_openapi_doc produces; path parameters are required; each IntoHandler impl documents e'
              "xactly its p path parameters and q request items, in signature order, on top of the body's responses; gen_openapi_doc names the path parameters from t"
              'he route template in order and registers every referenced schema and security scheme component; every builtin fang that can answer 401 overrides opena'
              'pi_map_operation with a security requirement; the route table the document is generated from only ever accumulates (registering or mounting onto an ex'
              'isting route extends its method map, never replaces it); the builder methods whose calls C15-b counts (Operation::param, Schema::property/optional, Pa'
              'ths::at) add their element unconditionally on every call; RawSchema::into_properties flags a property as required by membership of its name in the who'
              "le `required` list; the router the document is generated from is the result of Ohkami::into_router on this application's router and fangs (the step in"
              ' which the top-level fangs map their security requirements and tags into the operations, and which the served application takes too). The names of a r'
              "oute's path parameters reach assign_path_param_name in template order: through order-preserving collections only, neither sorted nor reversed (the han"
              "dler's parameter schemas are assigned by position). Every operation a node answers is registered before the loops move on; the blanket Fang impl for F"
              'angAction forwards openapi_map_operation to the action. Decides these clauses, not document <=> application for all applications.')

JSON_SCHEMA_TYPES = {"string", "number", "integer", "boolean", "array", "object", "null", ""}
FIXED = {
    "ohkami_openapi::document::Document": ({"openapi", "info", "jsonSchemaDialect", "servers", "paths", "webhooks", "components", "security", "tags", "externalDocs"}, {"openapi", "info"}),
    "ohkami_openapi::document::Info": ({"title", "summary", "description", "termsOfService", "contact", "license", "version"}, {"title", "version"}),
    "ohkami_openapi::document::Server": ({"url", "description", "variables"}, {"url"}),
    "ohkami_openapi::document::ServerVariable": ({"enum", "default", "description"}, {"default"}),
    "ohkami_openapi::document::Components": ({"schemas", "responses", "parameters", "examples", "requestBodies", "headers", "securitySchemes", "links", "callbacks", "pathItems"}, set()),
    "ohkami_openapi::paths::Operation": ({"tags", "summary", "description", "externalDocs", "operationId", "parameters", "requestBody", "responses", "callbacks", "deprecated", "security", "servers"}, {"responses"}),
    "ohkami_openapi::paths::ExternalDoc": ({"description", "url"}, {"url"}),
    "ohkami_openapi::request::Parameter": ({"name", "in", "description", "required", "deprecated", "allowEmptyValue", "style", "explode", "allowReserved", "schema", "example", "examples", "content"}, {"name", "in"}),
    "ohkami_openapi::request::RequestBody": ({"description", "content", "required"}, {"content"}),
    "ohkami_openapi::response::Response": ({"description", "headers", "content", "links"}, {"description"}),
    "ohkami_openapi::response::ResponseHeader": ({"description", "required", "deprecated", "allowEmptyValue", "style", "explode", "allowReserved", "schema", "example", "examples", "content"}, set()),
    "ohkami_openapi::security::SecurityScheme": ({"type", "description", "name", "in", "scheme", "bearerFormat", "flows", "openIdConnectUrl"}, {"type"}),
}
# JSON Schema 2020-12 (validation vocabulary) keyword -> kind of its value
KEYWORD_KIND = {
    "type": "string", "format": "string", "pattern": "string", "description": "string",
    "anyOf": "array", "allOf": "array", "oneOf": "array", "enum": "array", "required": "array",
    "deprecated": "boolean", "readOnly": "boolean", "writeOnly": "boolean", "uniqueItems": "boolean",
    "properties": "object",
    "maxItems": "integer", "minItems": "integer", "maxProperties": "integer", "minProperties": "integer", "maxLength": "integer", "minLength": "integer",
    "multipleOf": "number", "maximum": "number", "minimum": "number", "exclusiveMaximum": "number", "exclusiveMinimum": "number",
}


def run(ck, progs):
    ck.explanation = LEVEL_TEXT
    ck.assumptions = ["A4: OpenAPI 3.1.0 fixed fields and JSON Schema 2020-12 validation vocabulary as transcribed in this file"]
    for cfg, prog in progs.items():
        ck.config = cfg
        ck.guard("C15-a TABLE vocabularies", lambda: c15a(ck, prog))
        ck.guard("C15-b SIBLING operations", lambda: c15b(ck, prog))
        ck.guard("C15-c EXHAUSTIVE security", lambda: c15c(ck, prog))
        ck.guard("C15-d PAIR route table", lambda: c15d(ck, prog))
        ck.guard("C15-e MUSTPASS accumulators", lambda: c15e(ck, prog))
        ck.guard("C15-f PAIR required flag", lambda: c15f(ck, prog))
        ck.guard("C15-g MUSTPASS document built from the served router", lambda: c15g(ck, prog))
    ck.config = None


def serialized_keys(prog, self_ty):
    """[(key, conditional?, field expr)] that the derive(Serialize) output of `self_ty` writes"""
    fs = [f for f in prog.fns.values() if f.crate == "ohkami_openapi" and f.name == "serialize" and f.trait and f.trait.endswith("ser::Serialize") and f.self_ty == self_ty]
    if len(fs) != 1:
        raise AnchorLost("Serialize for %s not found" % self_ty)
    f = fs[0]
    skips = set()
    out = []
    for c in f.calls():
        if c.name == "skip_field":
            a = f.const_args(c)
            skips |= {x["s"] for x in a if x and "s" in x}
        if c.name == "serialize_field":
            a = [x["s"] for x in f.const_args(c) if x and "s" in x]
            if a:
                out.append((a[0], c))
    return f, [(k, k in skips, c) for k, c in out]


def rust_kind(ty):
    t = ty.strip()
    m = re.match(r"core::option::Option<(.*)>$", t)
    if m:
        t = m.group(1).strip()
    t = t.replace("&'static ", "&").lstrip("&")
    if t == "bool":
        return "boolean"
    if t in ("str", "alloc::string::String") or t.startswith("alloc::borrow::Cow<") and "str" in t:
        return "string"
    if re.fullmatch(r"[ui](8|16|32|64|128|size)", t):
        return "integer"
    if t in ("f32", "f64"):
        return "number"
    if t.startswith("alloc::vec::Vec<") or t.startswith("[") or t.startswith("alloc::boxed::Box<["):
        return "array"
    if "Map<" in t or "HashMap<" in t or "BTreeMap<" in t:
        return "object"
    if "SchemaRef" in t or "RawSchema" in t:
        return "schema"
    if "serde_json::value::Value" in t:
        return "any"
    return "?" + t


def c15a(ck, prog):
    R = "C15-a TABLE vocabularies"
    names = {k: c.get("s") for k, c in prog.consts.items() if c.get("name") == "NAME" and "schema::Type::" in k and "Sealed" in k}
    ck.floor(R, "schema type names", len(names), 7)
    for k, v in sorted(names.items()):
        ty = re.search(r"Type::(\w+) as", k).group(1)
        ok = v in JSON_SCHEMA_TYPES
        ck.ob(R, "type-name:%s" % ty, ok, "ohkami_openapi/src/schema.rs", "" if ok else "Schema<%s> is emitted with `type: %s`, which is not a JSON Schema 2020-12 type name: every document containing it is invalid" % (ty, v), how="%s -> %r" % (ty, v))
    # fixed fields per object
    nobj = 0
    for sty, (allowed, required) in FIXED.items():
        f, keys = serialized_keys(prog, sty)
        nobj += 1
        got = [k for k, cond, c in keys]
        extra = [k for k in got if k not in allowed]
        ck.ob(R, "fields:%s" % sty.rsplit("::", 1)[-1], not extra, f.loc(None), "" if not extra else "%s serializes field(s) %r that are not fixed fields of the OpenAPI 3.1 object" % (sty, extra), how="%d keys, all fixed fields" % len(got))
        missing = [k for k in required if not any(kk == k and not cond for kk, cond, c in keys)]
        ck.ob(R, "required:%s" % sty.rsplit("::", 1)[-1], not missing, f.loc(None), "" if not missing else "%s does not always write required field(s) %r" % (sty, missing), how="required %r written unconditionally" % sorted(required))
    ck.floor(R, "OpenAPI objects compared", nobj, 12)
    # schema keywords: value kinds
    f, keys = serialized_keys(prog, "ohkami_openapi::schema::RawSchema")
    adt = prog.adts["ohkami_openapi::schema::RawSchema"]
    ftypes = {x[0]: x[1] for x in adt["variants"][0]["fields"]}
    n = 0
    for k, cond, c in keys:
        want = KEYWORD_KIND.get(k)
        if want is None:
            continue
        n += 1
        d = decision.describe_deep(f, c.args[2], 3)
        m = re.search(r"arg1\.(\w+)", d)
        fld = m.group(1) if m else None
        got = rust_kind(ftypes.get(fld, "?"))
        ok = got == want or (want == "number" and got == "integer") or (want == "array" and got == "array")
        ck.ob(R, "keyword:%s" % k, ok, f.loc(None),
              "" if ok else "schema keyword `%s` must be a %s under JSON Schema 2020-12 but field `%s` is %s: a schema using it is invalid" % (k, want, fld, ftypes.get(fld)), how="%s: %s (%s)" % (k, want, ftypes.get(fld, "?")[:30]))
    ck.floor(R, "typed schema keywords", n, 22)
    # ParameterKind
    pf = [g for g in prog.fns.values() if g.name == "serialize" and g.self_ty == "ohkami_openapi::request::ParameterKind"]
    kinds = set()
    for g in pf:
        for c in g.calls():
            if c.name == "serialize_unit_variant":
                strs = [x["s"] for x in g.const_args(c) if x and "s" in x]
                if len(strs) >= 2:
                    kinds.add(strs[-1])
    kinds = sorted(kinds)
    ok = set(kinds) <= {"path", "query", "header", "cookie"} and "path" in kinds
    ck.ob(R, "parameter-in", ok, "", "" if ok else "ParameterKind serializes as %r" % kinds, how=str(kinds))
    # methods accepted by Operations::register == lower-case methods of gen_openapi_doc
    reg = prog.method(r"^ohkami_openapi::paths::Operations$", "register")
    acc = set()
    for c in reg.calls():
        if c.name == "eq":
            a = reg.const_args(c)
            acc |= {x["s"] for x in a if x and "s" in x}
    acc |= {lit for lit, d in decision.bytes_match_table(reg, prog)} if not acc else set()
    ok = acc == {"get", "put", "post", "patch", "delete", "options"}
    ck.ob(R, "path-item-methods", ok, reg.loc(None), "" if ok else "Operations::register accepts %r" % sorted(acc), how=str(sorted(acc)))
    # path parameters are required
    ip = prog.method(r"^ohkami_openapi::request::Parameter$", "in_path")
    rows = decision.const_table(ip, prog)
    d = (rows[0][1] or {}).get("desc", "") if len(rows) == 1 else ""
    aggs = [st["r"] for b in ip.blocks for st in b["st"] if st["k"] == "=" and st["r"][0] == "agg" and st["r"][1].get("adt") == "ohkami_openapi::request::Parameter"]
    ok = False
    if aggs:
        fields = aggs[0][1]["fields"]
        vals = {fl: decision.describe_deep(ip, o, 2) for fl, o in zip(fields, aggs[0][2])}
        ok = vals.get("required") == "const 1" and "path" in vals.get("kind", vals.get("r#in", str(vals))).lower()
    ck.ob(R, "path-params-required", ok, ip.loc(None), "" if ok else "Parameter::in_path does not build a required path parameter", how="in: path, required: true")
    mp = prog.find(r"^ohkami_openapi::request::Parameter::maybe_in_path$")
    if mp:
        cs = prog.callers().get(mp[0].key, [])
        ck.ob(R, "maybe_in_path:unused", not cs, mp[0].loc(None), "" if not cs else "Parameter::maybe_in_path (required: false, forbidden for path parameters) is called from %r" % [c.fn.key for c in cs][:2], how="no caller")


def c15b(ck, prog):
    R = "C15-b SIBLING operations"
    IH = "ohkami::fang::handler::into_handler::IntoHandler"
    impls = [im for im in prog.impls if im.get("trait") == IH and im["file"].endswith("fang/handler/into_handler.rs")]
    ck.floor(R, "IntoHandler impls", len(impls), 20)
    seen = {}
    for im in impls:
        preds = im["preds"]
        P = sorted({m.group(1) for pr in preds for m in [re.match(r"(\w+): ohkami::request::from_request::FromParam<", pr)] if m})
        Q = sorted({m.group(1) for pr in preds for m in [re.match(r"(\w+): ohkami::request::from_request::FromRequest<", pr)] if m})
        tag = "p%dq%d" % (len(P), len(Q))
        n = seen.get(tag, 0)
        seen[tag] = n + 1
        tag += "#%d" % n if n else ""
        ih = prog.fns.get([key for nm, key, ti in im["items"] if nm == "into_handler"][0])
        ps = sorted([c for c in ih.calls() if c.name == "param" and "paths::Operation" in (c.callee or "")], key=lambda c: len(ih.dom_chain(c.bb)))
        ins = sorted([c for c in ih.calls() if c.name == "inbound" and "paths::Operation" in (c.callee or "")], key=lambda c: len(ih.dom_chain(c.bb)))
        gp = []
        for c in ps:
            r = paths.root_call(ih, c.args[1], through=r"$^")
            gp.append(r.targs[0] if r is not None and re.search(r"FromParam::openapi_param$", r.decl or "") and r.targs else "?")
        gq = []
        for c in ins:
            r = paths.root_call(ih, c.args[1], through=r"$^")
            gq.append(r.targs[0] if r is not None and re.search(r"FromRequest::openapi_inbound$", r.decl or "") and r.targs else "?")
        ok = gp == P and gq == Q
        ck.ob(R, tag + ":documents-signature", ok, ih.loc(None), "" if ok else "the operation documents params %r and items %r, the handler takes %r and %r" % (gp, gq, P, Q), how="param x%d, inbound x%d in signature order" % (len(P), len(Q)))
        # base: Operation::with(Body::openapi_responses())
        w = [c for c in ih.calls() if c.name == "with" and "paths::Operation" in (c.callee or "")]
        okw = len(w) == 1
        if okw:
            r = paths.root_call(ih, w[0].args[0], through=r"$^")
            okw = r is not None and re.search(r"IntoResponse::openapi_responses$", r.decl or "") is not None and r.targs[:1] == ["Body"]
        ck.ob(R, tag + ":responses-of-body", okw, ih.loc(None), "" if okw else "the operation is not based on the return type's openapi_responses()", how="Operation::with(Body::openapi_responses())")
        # params documented before inbound (order of parameters list = path params first)
        if ps and ins:
            oko = all(ih.dominates(a.bb, b.bb) for a in ps for b in ins)
            ck.ob(R, tag + ":params-first", oko, ih.loc(None), "" if oko else "request items are documented before the path parameters: unnamed path parameters would be named out of order", how="param(..)* then inbound(..)*")
    # gen_openapi_doc: names, components
    g = prog.one(r"^ohkami::router::r#final::Router::gen_openapi_doc$")
    g = prog.inlined(g, 1, r"core::str::<impl str>::strip_prefix$")      # the route -> template conversion may be a helper
    ap = g.calls_to(r"paths::Operation::assign_path_param_name$")
    if not ap:
        # `names.iter().for_each(|n| operation.assign_path_param_name(n))`: the combinator and its closure expanded
        g = prog.flattened(g, r"paths::Operation::assign_path_param_name$|core::str::<impl str>::strip_prefix$", combinators=True)
        ap = g.calls_to(r"paths::Operation::assign_path_param_name$")
    ok = len(ap) == 1
    if ok:
        d = decision.describe_deep(g, ap[0].args[1], 6)
        ok = "next(" in d
        from .lib.bound import natural_loops
        loops = natural_loops(g)
        ok = ok and any(ap[0].bb in body for body in loops.values())
    ck.ob(R, "doc:path-param-names", ok, g.loc(None), "" if ok else "gen_openapi_doc does not assign each `:name` of the route template to the operation's path parameters in a loop", how="for name in template params: operation.assign_path_param_name(name)")
    # ... in template order: the handler's path parameters are documented by position (schema k belongs to the k-th `:name`
    # of the template), so the names must reach assign_path_param_name in the order the template lists them: the names are
    # not kept in a collection ordered by key or hash, and are neither sorted nor reversed on the way
    if len(ap) == 1:
        chain, seen, op_ = [], set(), ap[0].args[1]
        while op_ is not None and len(chain) < 12:
            st = g.origin(op_)
            if not st or st[-1][0] != "call" or st[-1][1].bb in seen:
                break
            cc = st[-1][1]
            seen.add(cc.bb)
            chain.append(cc)
            op_ = cc.args[0] if cc.args else None
        UNORDERED = r"collections::(btree|hash|binary_heap)|hashbrown|indexmap|adapters::rev::Rev|Iterator::rev$|::sort(_\w+)?$|::reverse$|::dedup"
        bad = [cc for cc in chain if re.search(UNORDERED, cc.callee or "") or re.search(UNORDERED, " ".join(cc.targs))]
        coll = chain[-1] if chain else None
        if coll is not None and coll.args and coll.args[0][0] in ("c", "m"):
            root = g.origin(coll.args[0])
            rl = None
            for stp in (root or []):
                if stp[0] == "via" and stp[1][0] in ("ref", "use"):
                    rl = stp[1][1][0]
            for c2 in g.calls():
                if re.search(r"::sort(_\w+)?$|::reverse$|::dedup(_\w+)?$|::swap(_remove)?$|::insert$|::push_front$", c2.callee or "") and c2.args:
                    r2 = g.origin(c2.args[0])
                    l2 = None
                    for stp in (r2 or []):
                        if stp[0] == "via" and stp[1][0] in ("ref", "use"):
                            l2 = stp[1][1][0]
                    if rl is not None and l2 == rl:
                        bad.append(c2)
        oko = bool(chain) and not bad
        ck.ob(R, "doc:path-param-names:template-order", oko, g.loc(bad[0].sp) if bad else g.loc(ap[0].sp),
              "" if oko else "the `:name`s of a route template reach assign_path_param_name through `%s`, which does not keep the order of the template: with two path parameters whose names are not in that order (`/teams/:team/members/:id`) each name is paired with the other parameter's schema" % (bad[0].callee if bad else "?"),
              how="names flow through %s" % " <- ".join(c.name for c in chain))
    for prod, cons in (("refize_schemas", "register_schema_component"), ("iter_securitySchemes", "register_securityScheme_component")):
        pc = [c for c in g.calls() if c.name == prod]
        cc = [c for c in g.calls() if c.name == cons]
        ok = len(pc) == 1 and len(cc) == 1
        if ok:
            d = decision.describe_deep(g, cc[0].args[1], 6)
            ok = prod in d
        ck.ob(R, "doc:%s" % cons, ok, g.loc(None), "" if ok else "the results of %s do not all reach %s: a `$ref`/security reference would not resolve" % (prod, cons), how="for x in operation.%s(): doc.%s(x)" % (prod, cons))
    # template: `:p` -> `{p}`
    lits = []
    for c in g.calls():
        for a in g.const_args(c):
            if a and "s" in a:
                lits.append(a["s"])
    aggs_txt = str(g.blocks)
    chars = [a.get("ch") for c in g.calls() for a in g.const_args(c) if a and "ch" in a]
    # `{` and `}` as string pieces of a concat, or as characters pushed around the name
    ok = (("'s': '{'" in aggs_txt and "'s': '}'" in aggs_txt) or ("{" in chars and "}" in chars)) and (":" in chars)
    if ok and "{" in chars:
        # pushed form: push('{') ; push_str(param) ; push('}') in that order under the strip_prefix(':') Some edge
        rpo = g.rpo()
        seq = [(c.name, (g.const_args(c) + [None, None])[1]) for c in sorted(g.calls(), key=lambda c: rpo.get(c.bb, 10 ** 6)) if c.name in ("push", "push_str") and re.search(r"String::(push|push_str)$", c.callee or "")
               and paths.has_fact(g, prog, c.bb, lambda fa: fa.kind == "variant" and fa.allowed == {"Some"} and getattr(fa, "steps", None) and fa.steps[-1][0] == "call" and fa.steps[-1][1].name == "strip_prefix") is not None]
        shape = [(n_, (a or {}).get("ch")) for n_, a in seq]
        ok = shape == [("push", "{"), ("push_str", None), ("push", "}")]
    ck.ob(R, "doc:template-braces", ok, g.loc(None), "" if ok else "`:p` segments are not rewritten as `{p}`", how="strip_prefix(':') => \"{\" + p + \"}\"")
    # operations registered under the method's own lower-case name (C01-a table reused)
    rg = g.calls_to(r"paths::Operations::register$")
    ok = len(rg) == 1
    if ok:
        # ... for every operation found: once a node answered an operation for (route, method), the loops do not move on
        # without registering it (no `continue` on a deprecated / untagged / hidden operation)
        ops = [c for c in g.calls() if c.name == "clone" and "openapi_operation" in decision.describe_deep(g, c.args[0], 6)]
        for oc in ops[:1]:
            tbs = paths.some_edge_targets(g, prog, oc.bb)
            from .lib.bound import natural_loops as _nl
            inner = sorted([(len(b), h) for h, b in _nl(g).items() if rg[0].bb in b])
            hdr = inner[0][1] if inner else None
            if tbs and hdr is not None and any(hdr in g.reachable_from(tb, avoid=(rg[0].bb,)) for tb in tbs):
                ok = False
    ck.ob(R, "doc:register-under-method", ok, g.loc(None), "" if ok else "an operation the router serves can be left out of the document: the loops move on without operations.register(..) on some path", how="operations.register(openapi_method, operation) for every operation found")


def c15c(ck, prog):
    R = "C15-c EXHAUSTIVE security"
    # every builtin fang proc that can produce 401 must map the operation to one with a security requirement
    fang_mod = r"^ohkami::fang::builtin::"
    # find functions in builtin fangs that call Response::Unauthorized
    users = set()
    for f in prog.fns.values():
        if f.crate == "ohkami" and re.search(r"fang/builtin/\w+\.rs$", f.file) and f.calls_to(r"Response>::Unauthorized$"):
            m = re.search(r"fang/builtin/(\w+)\.rs$", f.file)
            users.add(m.group(1))
    ck.floor(R, "fang modules answering 401", len(users), 2)
    for mod in sorted(users):
        maps = [f for f in prog.fns.values() if f.name == "openapi_map_operation" and re.search(r"fang/builtin/%s\.rs$" % mod, f.file)]
        ok = bool(maps) and all(any(c.name == "security" and "paths::Operation" in (c.callee or "") for c in f.calls()) for f in maps)
        ck.ob(R, "fang:%s" % mod, ok, maps[0].loc(None) if maps else "", "" if ok else "builtin fang `%s` can answer 401 but does not add a security requirement to the operations it guards" % mod, how="%d openapi_map_operation impl(s) calling Operation::security" % len(maps))
    # count of impls per type: BasicAuth single + array
    n = len([f for f in prog.fns.values() if f.name == "openapi_map_operation" and re.search(r"fang/builtin/basicauth\.rs$", f.file)])
    ck.ob(R, "basicauth:both-impls", n == 2, "", "" if n == 2 else "BasicAuth has %d openapi_map_operation impls, expected the single and the array impl" % n, how="2 impls")
    # Fangs tuple nesting mirrors build (C04-a): the blanket impl forwards to the fang's own mapping
    bl = [f for f in prog.fns.values() if f.name == "openapi_map_operation" and f.trait == "ohkami::fang::middleware::Fangs" and f.self_ty == "F"]
    ok = bool(bl) and any(re.search(r"fang::Fang::openapi_map_operation$", c.decl or "") for c in bl[0].calls())
    ck.ob(R, "blanket-forwards", ok, bl[0].loc(None) if bl else "", "" if ok else "the blanket Fangs impl does not forward openapi_map_operation to the fang", how="<F as Fang>::openapi_map_operation(self, op)")
    # the next link: a fang written as a FangAction (BasicAuth, user-written actions) reaches the document only if the blanket
    # `impl<A: FangAction> Fang for A` forwards to the action's openapi_map_operation (Fang's own default is the identity)
    fa_impls = [f for f in prog.fns.values() if f.name == "openapi_map_operation" and f.trait == "ohkami::fang::middleware::util::FangAction" and f.self_ty]
    if fa_impls:
        al = [f for f in prog.fns.values() if f.name == "openapi_map_operation" and f.trait == "ohkami::fang::Fang" and f.self_ty == "A"]
        ok = bool(al) and any(re.search(r"FangAction::openapi_map_operation$", c.decl or c.callee or "") for c in al[0].calls())
        ck.ob(R, "action-blanket-forwards", ok, al[0].loc(None) if al else fa_impls[0].loc(None),
              "" if ok else "%d fang(s) document themselves through FangAction::openapi_map_operation (%s), but the blanket `impl Fang for A: FangAction` does not forward to it (Fang's default is the identity): their security requirements never reach the document while the routes still answer 401" % (len(fa_impls), ", ".join(sorted({f.self_ty[-40:] for f in fa_impls}))),
              how="<A as FangAction>::openapi_map_operation(self, op) from the blanket Fang impl")


def c15d(ck, prog):
    """The document is generated from `routes` (route -> method -> handler meta). Several registrations may name the
    same route (different methods, a mount landing on an existing route), so every update of the table must extend an
    existing entry, never replace it."""
    R = "C15-d PAIR route table"
    RT = r"^ohkami::router::base::Router$"
    for nm, adder in (("register_handlers", r"TupleMap::<K, V>::insert$"), ("merge_another", r"TupleMap::<K, V>::append$")):
        f = prog.method(RT, nm)
        bodies = [f] + prog.descendants(f.key)
        on_routes = lambda g, c: c.args and "routes" in decision.describe_deep(g, c.args[0], 4)
        ent = [c for g in bodies for c in g.calls() if c.name == "entry" and "HashMap" in (c.callee or "") and on_routes(g, c)]
        repl = [c for g in bodies for c in g.calls() if c.name in ("insert", "extend", "remove", "clear", "retain") and "HashMap" in (c.callee or "") and on_routes(g, c)]
        mod = [c for g in bodies for c in g.calls() if c.name == "and_modify"]
        ins = [c for g in bodies for c in g.calls() if c.name in ("or_insert_with", "or_insert", "or_default", "or_insert_with_key")]
        ext = [c for g in bodies for c in g.calls_to(adder)]
        ok = bool(ent) and not repl and len(mod) >= len(ent) and len(ins) >= len(ent) and bool(ext)
        ck.ob(R, "%s:extends-existing-entry" % nm, ok, f.loc((repl or ent or [f.calls()[0]])[0].sp),
              "" if ok else "%s updates the route table with %s: an entry that already exists for the route (another method registered earlier, a mount landing on it) is replaced, and the replaced operations vanish from the generated document although they are still served" % (
                  nm, ", ".join(sorted({c.name for c in repl})) or "entry() without and_modify/or_insert"),
              how="routes.entry(route).and_modify(|m| m.%s(..)).or_insert_with(..)" % adder.split("::")[-1].rstrip("$"))


ACCUMULATORS = [
    # (method regex, field the element goes to, why every call must add an element)
    (r"^ohkami_openapi::paths::Operation::param$", "parameters", "path parameters are positional: they are created unnamed and named later from the route template, one per `:param` segment"),
    (r"^ohkami_openapi::schema::Schema::<ohkami_openapi::schema::Type::object>::property$", "properties", "one schema property per struct field"),
    (r"^ohkami_openapi::schema::Schema::<ohkami_openapi::schema::Type::object>::property$", "required", "a non-optional field is listed as required"),
    (r"^ohkami_openapi::schema::Schema::<ohkami_openapi::schema::Type::object>::optional$", "properties", "one schema property per struct field"),
    (r"^ohkami_openapi::paths::Paths::at$", "0", "one path item per route"),
]


def c15e(ck, prog):
    """C15-b counts the `.param(..)` / `.property(..)` calls of the generators; the count is what the document shows only if
    each call adds its element on every path (no de-duplication, no early return)."""
    R = "C15-e MUSTPASS accumulators"
    for rx, field, why in ACCUMULATORS:
        f = prog.one(rx)
        adds = [c for c in f.calls() if c.name in ("push", "insert", "push_back") and c.args and re.search(r"arg1(\.\w+)*\.%s\b" % re.escape(field), decision.describe_deep(f, c.args[0], 4))]
        ok = len(adds) == 1
        why_not = "%d growth site(s) on `%s`" % (len(adds), field)
        if ok:
            a = adds[0]
            cond = [fa for fa in guards.facts_at(f, prog, a.bb) if fa.kind in ("cmp", "boolcall", "boolplace", "boolphi", "variant", "int")]
            rets = [b for b in f.live_blocks() if f.blocks[b]["t"]["k"] == "return"]
            ok = not cond and all(f.dominates(a.bb, r) for r in rets)
            why_not = "the element is added under %d condition(s) / not on every path to the return" % len(cond)
        ck.ob(R, "%s:%s" % (f.key.split("::", 1)[1][-50:], field), ok, f.loc(adds[0].sp if adds else None),
              "" if ok else "%s does not add to `%s` on every call (%s): %s -- a skipped element leaves the document short of what the application does "
              "(two path parameters with equal schemas are equal when added, so a de-duplicating `param` drops the second one)" % (f.key, field, why_not, why),
              how="one unconditional %s on self.%s dominating the return" % (adds[0].name if adds else "push", field))


def c15f(ck, prog):
    """Query/cookie/flattened parameters are documented from RawSchema::into_properties, which pairs each property with
    `is it required`. `properties` is kept sorted by name while `required` is in declaration order, so the flag must be the
    membership of *that name* in the whole `required` list -- not a positional walk of the two lists."""
    R = "C15-f PAIR required flag"
    f = prog.one(r"^ohkami_openapi::schema::RawSchema::into_properties$")
    bodies = [f] + prog.descendants(f.key)
    found = []
    for g in bodies:
        for st in (s_ for bi in sorted(g.live_blocks()) for s_ in g.blocks[bi]["st"]):
            if st["k"] == "=" and st["r"][0] == "agg" and st["r"][1].get("k") == "tuple" and len(st["r"][2]) == 3:
                flag = st["r"][2][2]
                d = decision.describe_deep(g, flag, 5)
                name = decision.describe_deep(g, st["r"][2][0], 3)
                found.append((g, st, d, name))
    if not found:
        raise AnchorLost("into_properties builds no (name, schema, required) tuple")
    for g, st, d, name in found:
        m = re.match(r"(contains|any)\((.*)\)$", d)
        ok = m is not None and "required" in d and (name in d or m.group(1) == "any")
        ck.ob(R, "into_properties:flag-is-membership", ok, g.loc(st.get("sp")),
              "" if ok else "into_properties computes the `required` flag of a property as `%s`: it is not the membership of the property's name in the whole `required` list, so with the name-sorted "
              "property map and the declaration-ordered required list a required field (`{name, age}` -> `age`) is documented as optional" % d[:80],
              how="required.contains(&name)")


def c15g(ck, prog):
    """`the document describes the application`: security requirements and tags are written into the operations by the
    fangs' openapi_map_operation while the application's own fangs are applied, which happens in Ohkami::into_router -- the
    same step the served application goes through. The router the document is generated from must be the result of
    into_router() on an Ohkami carrying this application's router *and fangs*."""
    R = "C15-g MUSTPASS document built from the served router"
    fs = [f for f in prog.fns.values() if f.crate == "ohkami" and f.calls_to(r"router::r#final::Router::gen_openapi_doc$|Router::gen_openapi_doc$") and "ohkami::ohkami::" in f.key]
    if len(fs) != 1:
        raise AnchorLost("expected one function of Ohkami that generates the document (calls Router::gen_openapi_doc), found %d" % len(fs))
    f = fs[0]
    fin = f.calls_to(r"router::base::Router::finalize$")
    ok = len(fin) == 1
    d = decision.describe_deep(f, fin[0].args[0], 8) if ok else ""
    ok = ok and re.search(r"into_router\(", d) is not None and re.search(r"arg1\.fangs", d) is not None and re.search(r"arg1\.router", d) is not None
    ck.ob(R, "document:into_router-before-finalize", ok, f.loc(fin[0].sp if fin else None),
          "" if ok else "the document is generated from `%s`: the application's own fangs are applied to the router in Ohkami::into_router, so without it the security requirements and tags contributed by the "
          "top-level fangs (BasicAuth, JWT, Tag) are missing from a document whose application does enforce them" % d[:120],
          how="finalize(into_router(Ohkami { router: self.router.clone(), fangs: self.fangs.clone() }))")
    # ... and the served application takes the same step
    howl = [g for g in prog.fns.values() if g.crate == "ohkami" and "ohkami::ohkami::" in g.key and g.calls_to(r"Ohkami::into_router$") and g.key != f.key]
    ck.floor(R, "other users of into_router (the served application)", len(howl), 1)
