"""C07 Typed path, query and body extraction delivers exact values or stops the handler.
Decides: (a) the IntoHandler family: n_params = arity = assume_* accessor, the user function is called only under all-Ok and with the
extracted values in signature order, finalize() guards the assume_* reads; (b) integer FromParam impls parse the whole segment;
(c) the FromBody gate and decoder table; (d) percent-decoding in from_raw_param."""
import re

from .lib import decision, guards, paths
from .lib.mir import AnchorLost
from .lib.reachrule import ReachRule

CONFIGS_QUICK = ["A", "R"]
CONFIGS_THOROUGH = ["A", "R", "NOAPI"]
TECHNIQUE = "sibling-family rule over the 20 IntoHandler impls (impl-table bounds vs closure MIR), dominance of the user call by all Ok edges, callee-identity rules for FromParam/FromBody"
LEVEL_TEXT = ("Decides clauses C07-a..d: for each generic IntoHandler impl, with p path-param and q request-item type parameters read from the impl's bounds: n_param"
              's() is the literal p; the request closure calls assume_one_param iff p=1 and assume_two_params iff p=2 (these unsafe accessors have no other callers),'
              ' from_raw_param exactly p times and from_request exactly q times; the call of the user function is dominated by the Ok edge of all p+q results and rec'
              'eives exactly those values in signature order; every other return is __error__(e); Router::finalize asserts handler n_params <= route n_params before '
              'the final router exists; the ten integer FromParam impls parse the whole parameter with str::parse::<Self> and no prefix parser is reachable; the blan'
              'ket FromRequest for FromBody calls from_body only under Content-Type present, its prefix equal to B::MIME_TYPE and a payload present, mapping failures'
              ' to 400; the four body formats pair their media type with their decoder; Option<FR> is None only when the inner extractor reports absence; from_raw_pa'
              'ram hands from_param the percent-decoded text; a file part of a Multipart body is reported as `no file` (Option<File> = None, Vec<File> shorter) only '
              "when it has neither a filename nor content (C07-e, the multipart codec's empty-file and kind-mismatch decisions re-evaluated: what a typed body extrac"
              'tor hands the handler). C07-f: assume_one_param answers slot 0 and assume_two_params slots (0, 1) of the captured parameters by constant index (the k-'
              'th handler parameter is the k-th captured segment, also when the route captures more than the handler takes). The arity assertion of Router::finalize '
              'runs for every handler of every route under no other condition, and every parse of an integer FromParam impl is a whole-parameter parse. C07-g: the se'
              "quence reader's clause C09-h re-evaluated for sequence fields of Query / URLEncoded. Decides these clauses, not the exactness of every delivered value"
              '.')

IH = "ohkami::fang::handler::into_handler::IntoHandler"


def run(ck, progs):
    ck.explanation = LEVEL_TEXT
    ck.assumptions = ["A2: user handler functions are outside", "A3: str::parse::<int> accepts exactly optional sign + decimal digits in range"]
    for cfg, prog in progs.items():
        ck.config = cfg
        ck.guard("C07-a SIBLING handlers", lambda: c07a(ck, prog))
        ck.guard("C07-b API-MISUSE integer params", lambda: c07b(ck, prog))
        ck.guard("C07-c MUSTPASS body gate", lambda: c07c(ck, prog))
        ck.guard("C07-d MUSTPASS percent-decoding", lambda: c07d(ck, prog))
        ck.guard("C07-e DECISION multipart file presence", lambda: c07e(ck, prog))
        ck.guard("C07-f TABLE param accessors by position", lambda: c07f(ck, prog))
        ck.guard("C07-g ORDER sequence fields", lambda: c07g(ck, prog))
    ck.config = None


def c07a(ck, prog):
    R = "C07-a SIBLING handlers"
    impls = [im for im in prog.impls if im.get("trait") == IH and im["file"].endswith("fang/handler/into_handler.rs")]
    ck.floor(R, "IntoHandler impls", len(impls), 20)
    seen = {}
    for im in impls:
        preds = im["preds"]
        P = sorted({m.group(1) for pr in preds for m in [re.match(r"(\w+): ohkami::request::from_request::FromParam<", pr)] if m})
        Q = sorted({m.group(1) for pr in preds for m in [re.match(r"(\w+): ohkami::request::from_request::FromRequest<", pr)] if m})
        p, q = len(P), len(Q)
        # the marker type tells tuple / non-tuple param forms apart
        marker = im["trait_ref"]
        tag = "p%dq%d%s" % (p, q, "t" if re.search(r"fn\(\(\(P1, P2\),\)|fn\(\(\(P1,\),\),?\)|fn\(\(\(P1,\),\)\)", marker) and "((P1,),)," not in marker and p == 1 and "fn(((P1,),))" in marker.replace(" ", "") else "")
        n = seen.get(tag, 0)
        seen[tag] = n + 1
        tag = tag + ("#%d" % n if n else "")
        items = {nm: prog.fns.get(key) for nm, key, ti in im["items"]}
        npf, ih = items.get("n_params"), items.get("into_handler")
        rows = decision.const_table(npf, prog)
        v = guards.const_int(rows[0][1]) if len(rows) == 1 and rows[0][1] and "v" in rows[0][1] else None
        ok = v == p
        ck.ob(R, tag + ":n_params", ok, npf.loc(None), "" if ok else "n_params() returns %s but the handler takes %d path parameter(s) %r" % (v, p, P), how="n_params() = %d" % p)
        cl = [c for c in prog.children(ih.key) if not c.coroutine]
        if len(cl) != 1:
            ck.ob(R, tag + ":closure", False, ih.loc(None), "into_handler does not pass exactly one request closure to Handler::new")
            continue
        f = cl[0]
        a1 = f.calls_to(r"Path>::assume_one_param$")
        a2 = f.calls_to(r"Path>::assume_two_params$")
        ok = (len(a1), len(a2)) == ((1, 0) if p == 1 else (0, 1) if p == 2 else (0, 0))
        ck.ob(R, tag + ":accessor", ok, f.loc(None), "" if ok else "a handler with %d path parameter(s) calls assume_one_param x%d / assume_two_params x%d: reads of uninitialised parameter slots" % (p, len(a1), len(a2)),
              how="p=%d => %s" % (p, "assume_one_param" if p == 1 else "assume_two_params" if p == 2 else "no accessor"))
        frp = [c for c in f.calls() if re.search(r"FromParam::from_raw_param$", c.decl or "")]
        frq = [c for c in f.calls_to(r"into_handler::from_request$")]
        ok = len(frp) == p and len(frq) == q
        ck.ob(R, tag + ":extractions", ok, f.loc(None), "" if ok else "the closure extracts %d path parameter(s) and %d item(s), the signature has %d and %d" % (len(frp), len(frq), p, q), how="%d from_raw_param + %d from_request" % (p, q))
        # extraction types in signature order
        got_p = [c.targs[0] if c.targs else "?" for c in sorted(frp, key=lambda c: order_key(f, c))]
        got_q = [c.targs[0] if c.targs else "?" for c in sorted(frq, key=lambda c: order_key(f, c))]
        # the user call
        uc = [c for c in f.calls() if re.search(r"ops::function::Fn::call$", c.decl or "")]
        if len(uc) != 1:
            ck.ob(R, tag + ":user-call", False, f.loc(None), "the closure calls the user function %d times" % len(uc))
            continue
        u = uc[0]
        facts = guards.facts_at(f, prog, u.bb)
        need = frp + frq
        missing = []
        for c in need:
            hit = any(fa.kind == "variant" and fa.allowed == {"Ok"} and fa.steps and fa.steps[-1][0] == "call" and fa.steps[-1][1].bb == c.bb for fa in facts)
            if not hit:
                missing.append(c.targs[0] if c.targs else c.name)
        ok = not missing
        ck.ob(R, tag + ":user-call-under-all-Ok", ok, f.loc(u.sp),
              "" if ok else "the user handler is called on a path where extraction of %r has not succeeded" % missing, how="Fn::call under the Ok edge of all %d extraction result(s)" % len(need))
        # argument order: the leaves of the argument tuple derive from the extraction calls in signature order
        argd = decision.describe_deep(f, u.args[1], 8) if len(u.args) > 1 else ""
        order = []
        for m in re.finditer(r"(from_raw_param|from_request)\(", argd):
            order.append(m.group(1))
        leaves = leaf_calls(f, u.args[1]) if len(u.args) > 1 else []
        want = [c.bb for c in sorted(frp, key=lambda c: order_key(f, c))] + [c.bb for c in sorted(frq, key=lambda c: order_key(f, c))]
        ok = [c.bb for c in leaves] == want
        # and the i-th extraction is of the i-th type parameter
        ok = ok and got_p == P and got_q == Q
        ck.ob(R, tag + ":argument-order", ok, f.loc(u.sp),
              "" if ok else "the user handler receives %s built from %r/%r, expected the values of %r then %r in signature order" % (argd[:80], got_p, got_q, P, Q), how="args = (%s)" % ", ".join(P + Q))
        # the raw params feed from_raw_param in order
        if p == 2:
            srcs = [decision.describe_deep(f, c.args[0], 3) for c in sorted(frp, key=lambda c: order_key(f, c))]
            ok = len(srcs) == 2 and srcs[0].endswith(".0") and srcs[1].endswith(".1") and all("assume_two_params" in s for s in srcs)
            ck.ob(R, tag + ":param-positions", ok, f.loc(None), "" if ok else "the two path parameters are taken as %r, expected assume_two_params().0 then .1" % srcs, how="P1 <- .0, P2 <- .1")
        # every return: the boxed future of the user call (only in the all-Ok arm), or __error__(e)
        bad = []
        try:
            rows = decision.const_table(f, prog)
        except decision.TooComplex as e:
            rows = None
            bad.append("closure is not loop-free (%s)" % e)
        for conds, val in rows or []:
            d = (val or {}).get("desc", str(val))
            labels = [c[1] for c in conds]
            if d.startswith("__error__("):
                if need and "Err" not in labels:
                    bad.append("__error__ on a path without a failed extraction")
                continue
            if "pin(" in d or d.startswith("pin"):
                if any(l == "Err" for l in labels) or labels.count("Ok") < len(need):
                    bad.append("the handler's future is returned with conditions %r" % labels)
                continue
            bad.append(d[:40])
        ok = not bad
        ck.ob(R, tag + ":returns", ok, f.loc(None), "" if ok else "the closure can return something other than the handler's boxed future (all-Ok arm) or __error__(e): %r" % bad[:3], how="%d paths: Box::pin(async { f(..).await.into_response() }) under all-Ok | __error__(e)" % len(rows or []))
    # WHO: assume_* have no other callers
    for nm in ("assume_one_param", "assume_two_params"):
        g = prog.method(r"request::path::Path$", nm)
        cs = prog.callers().get(g.key, [])
        bad = [c.fn.key for c in cs if "fang::handler::into_handler" not in c.fn.key and "fang/handler/into_handler.rs" not in c.fn.file]
        ck.ob(R, "who:" + nm, not bad, g.loc(None), "" if not bad else "%s (reads possibly uninitialised slots) is called from %r" % (nm, bad[:3]), how="%d callers, all IntoHandler closures" % len(cs))
    # finalize: n_params <= route.n_params asserted for every route before the final router is built
    fz = prog.method(r"^ohkami::router::base::Router$", "finalize")
    conv = [c for c in fz.calls() if c.name == "from" and "final" in (c.callee or "")]
    if not conv:
        conv = [c for c in fz.calls() if re.search(r"From<.*>>::from$|Into<.*>>::into$", c.callee or "") and "Router" in " ".join(c.targs)]
    pan = [c for c in fz.calls() if re.search(r"core::panicking::", c.callee or "") and ("assert" in c.mx or "panic" in c.mx)]
    ok = False
    how = "no assertion found"
    descs = []
    for pc in pan:
        # a panic on the false edge of `handler_meta.n_params <= route.n_params()`
        fa = [x for x in guards.facts_at(fz, prog, pc.bb) if x.kind == "cmp"]
        desc = ["%s %s %s" % (guards.describe_origin(fz, x.lhs), x.op, guards.describe_origin(fz, x.rhs)) for x in fa]
        descs += desc
        if any(re.search(r"n_params.* Gt .*call:n_params|call:n_params Lt .*n_params", d) for d in desc) and conv and not fz.dominates(conv[0].bb, pc.bb):
            ok = True
            # ... for every route and every handler: the comparison runs under nothing but the two loops' own `Some` edges, and the
            # loops run over the whole tables (no skip / take / filter; no `if route.n_params() > 0 { assert!(..) }`)
            others = [d for d in desc if "n_params" not in d]       # (the limit assertion `n_params <= PARAMS_LIMIT` in front is not a condition on this one)
            others += [d for d in desc if re.search(r"call:n_params (Gt|Ge|Ne) const 0|const 0 (Lt|Le) call:n_params", d)]
            others += [x.kind for x in guards.facts_at(fz, prog, pc.bb) if x.kind in ("boolcall", "boolplace", "int")]
            srcs = [decision.describe_deep(fz, c.args[0], 6) for c in fz.calls() if c.name == "next" and fz.dominates(c.bb, pc.bb)]
            adapters = [a for sdesc in srcs for a in re.findall(r"\b(skip|skip_while|take_while|filter|filter_map|step_by)\(", sdesc)]
            adapters += [a for sdesc in srcs for a in re.findall(r"\btake\((?:[^(),]|\([^()]*\))*,const \d+\)", sdesc)]       # (Iterator::take(n), not mem::take(x))
            if others or adapters:
                ok = False
                descs.append("guarded by %s" % (others + adapters))
    how = "; ".join(descs) or how
    ck.ob(R, "finalize:arity-guard", ok, fz.loc(None), "" if ok else "Router::finalize does not refuse a handler that needs more path parameters than its route captures (%s): assume_* would read uninitialised memory" % how, how="assert!(handler.n_params <= route.n_params()) for every route, before Router::from")


def order_key(f, c):
    return (len(f.dom_chain(c.bb)), c.bb)


def leaf_calls(f, op, depth=0):
    """extraction calls at the leaves of a (nested) tuple argument, left to right"""
    st = f.origin(op)
    if not st or depth > 6:
        return []
    last = st[-1]
    if last[0] == "agg":
        out = []
        for o in last[1][2]:
            out += leaf_calls(f, o, depth + 1)
        return out
    if last[0] == "call":
        return [last[1]]
    return []


INTS = ["u8", "u16", "u32", "u64", "usize", "i8", "i16", "i32", "i64", "isize"]


def c07b(ck, prog):
    R = "C07-b API-MISUSE integer params"
    n = 0
    for ty in INTS:
        fs = [f for f in prog.fns.values() if f.name == "from_param" and f.trait == "ohkami::request::from_request::FromParam" and f.self_ty == ty]
        if len(fs) != 1:
            ck.ob(R, ty + ":impl", False, "", "FromParam for %s not found" % ty)
            continue
        f = fs[0]
        n += 1
        bodies = [f] + prog.descendants(f.key)
        prefix = [c for g in bodies for c in g.calls_to(r"byte_reader::Reader::<'r>::(read_uint|read_int|read_while|next_if)$")]
        parse = [c for g in bodies for c in g.calls_to(r"^core::str::<impl str>::parse$")]
        whole = False
        not_whole = []
        for c in parse:
            g = c.fn
            src = decision.describe_deep(g, c.args[0], 4)
            if g is not f:
                # inside a closure: what the closure captured, described in the enclosing function
                inner = paths.root_steps(g, c.args[0], through=r"(::deref|::as_ref|::borrow|::as_str)$")
                cap = paths.capture_desc(prog, g, ["c", [inner[-1][1], inner[-1][2]]]) if inner and inner[-1][0] == "arg" else None
                src = "deref(%s)" % cap if cap else src
            if c.targs and c.targs[0] == ty and re.fullmatch(r"(deref|as_ref|borrow|as_str)\(arg1\)|arg1", src):
                whole = True
            else:
                not_whole.append(src)
        if not whole and not parse:
            # the parse may sit in a generic helper `h::<T>(param)`: the helper parses its whole argument as its type
            # parameter, and this impl instantiates it with its own type on its own whole parameter
            for g in bodies:
                for c in g.calls():
                    h = prog.fns.get(c.callee or "")
                    if h is None or h.crate != "ohkami" or not c.targs or c.targs[0] != ty:
                        continue
                    hp = [x for hb in [h] + prog.descendants(h.key) for x in hb.calls_to(r"^core::str::<impl str>::parse$")]
                    hprefix = [x for hb in [h] + prog.descendants(h.key) for x in hb.calls_to(r"byte_reader::Reader::<'r>::(read_uint|read_int|read_while|next_if)$")]
                    if len(hp) != 1 or hprefix or hp[0].fn is not h:
                        continue
                    hsrc = decision.describe_deep(h, hp[0].args[0], 4)
                    # the helper's type parameter is what it parses into (the call's own type argument is that parameter)
                    generic = bool(hp[0].targs) and re.fullmatch(r"[A-Z]\w*", hp[0].targs[0]) is not None
                    asrc = decision.describe_deep(g, c.args[0], 4) if c.args else ""
                    if generic and re.fullmatch(r"(deref|as_ref|borrow|as_str)\(arg1\)|arg1", hsrc) and g is f and re.fullmatch(r"(deref|as_ref|borrow|as_str)\(arg1\)|arg1", asrc):
                        whole = True
        ok = whole and not prefix and not not_whole       # every parse of the impl, not just one of them
        ck.ob(R, ty + ":whole-segment", ok, f.loc(None),
              "" if ok else ("FromParam for %s reads the parameter with %s: a prefix parser with unchecked arithmetic -- `/12abc` is accepted as 12 and a value beyond the range wraps (release) or panics (debug) instead of being refused"
                             % (ty, ", ".join(sorted({c.name for c in prefix})) or "something other than str::parse::<%s> on the whole parameter" % ty)),
              how="param.parse::<%s>() on the whole parameter" % ty)
    ck.floor(R, "integer FromParam impls", n, 10)
    # no other use of the prefix parsers on request data anywhere in the crate
    users = [(g.key, c.name) for g in prog.fns.values() if g.crate == "ohkami" for c in g.calls_to(r"byte_reader::Reader::<'r>::(read_uint|read_int)$")]
    ck.ob(R, "who:prefix-int-parsers", not users, "", "" if not users else "byte_reader's read_uint/read_int (prefix parsers, overflow unchecked) are used in %r" % users[:4], how="no caller of read_uint/read_int in ohkami")


def c07c(ck, prog):
    R = "C07-c MUSTPASS body gate"
    fs = [f for f in prog.fns.values() if f.name == "from_request" and f.trait == "ohkami::request::from_request::FromRequest" and f.self_ty == "B"]
    if len(fs) != 1:
        raise AnchorLost("blanket FromRequest for B: FromBody not found")
    f = fs[0]
    fb = [c for c in f.calls() if re.search(r"FromBody::from_body$", c.decl or "")]
    ok = len(fb) == 1
    ck.ob(R, "anchor", ok, f.loc(None), "" if ok else "from_body is called %d times" % len(fb), how="one from_body call", nontrivial=False)
    if ok:
        c = fb[0]
        facts = guards.facts_at(f, prog, c.bb)
        ct = any(fa.kind == "variant" and fa.allowed in ({"Some"}, {"Continue"}) and fa.steps and fa.steps[-1][0] == "call" and "ContentType" in decision.describe_deep(f, ["c", fa.steps[-1][1].dest], 4) for fa in facts) or \
            any(fa.kind == "variant" and fa.allowed == {"Some"} and "ContentType" in guards.describe_origin(f, fa.steps) for fa in facts)
        sw = [fa for fa in facts if fa.kind == "boolcall" and fa.truth and fa.call.name in ("starts_with", "eq", "eq_ignore_ascii_case")]
        mime = False
        for fa in sw:
            a = decision.describe_deep(f, fa.call.args[0], 6)
            b = decision.describe_deep(f, fa.call.args[1], 4) + str(f.origin(fa.call.args[1]))
            if "ContentType" in a and "MIME_TYPE" in b:
                if fa.call.name == "eq_ignore_ascii_case":
                    # a case-insensitive prefix test must compare exactly MIME_TYPE.len() bytes of the header
                    if not (re.search(r"(index|get|get_unchecked|split_at)\(", a) and "MIME_TYPE" in a):
                        continue
                mime = True
        pay = any(fa.kind == "variant" and fa.allowed == {"Some"} and "payload" in guards.describe_origin(f, fa.steps) for fa in facts)
        ck.ob(R, "gate:content-type-present", ct, f.loc(c.sp), "" if ct else "from_body runs without a Content-Type header being present", how="Some edge of headers.ContentType()")
        ck.ob(R, "gate:mime-matches", mime, f.loc(c.sp), "" if mime else "from_body runs without Content-Type having been matched against B::MIME_TYPE", how="true edge of ContentType.starts_with(B::MIME_TYPE)")
        ck.ob(R, "gate:payload-present", pay, f.loc(c.sp), "" if pay else "from_body runs without a payload being present", how="Some edge of req.payload()")
        src = decision.describe_deep(f, c.args[0], 4)
        ok = "payload(" in src
        ck.ob(R, "gate:decodes-the-payload", ok, f.loc(c.sp), "" if ok else "from_body is given `%s`, not the request payload" % src, how=src[:50])
        me = [x for x in f.calls_to(r"Result::<T, E>::map_err$")]
        ok = any("reject" in decision.describe_deep(f, x.args[1], 2) and paths.root_call(f, x.args[0], through=r"$^") is not None and paths.root_call(f, x.args[0], through=r"$^").bb == c.bb for x in me)
        if not ok:
            # the same mapping written as a match: `Err(msg) => Err(reject(msg))` with msg the error of this from_body
            rej = [x for x in f.calls() if x.name == "reject" and x.args and re.search(r"from_body\(.*\)@Err", decision.describe_deep(f, x.args[0], 6))]
            err_vals = []
            for bb, kind, pl in paths.ret_sites(f):
                if kind == "Some" and isinstance(pl, list) and pl[0] == "agg":
                    for leaf in paths.leaf_values(f, pl[2][0]):
                        if leaf[0] == "other" and isinstance(leaf[1], list) and leaf[1][0] == "agg" and leaf[1][1].get("variant") == "Err":
                            err_vals.append(decision.describe_deep(f, leaf[1][2][0], 4))
            ok = bool(rej) and bool(err_vals) and all(d.startswith("reject(") for d in err_vals)
        ck.ob(R, "gate:error=>400", ok, f.loc(c.sp), "" if ok else "a decoding failure is not mapped through reject() (400 Bad Request)", how="from_body(..).map_err(reject) / Err(msg) => Err(reject(msg))")
        rj = prog.one(r"from_request::\{?.*reject$|FromRequest<'req> for B>::from_request::reject$")
        ok = bool(rj.calls_to(r"Response>::BadRequest$"))
        ck.ob(R, "reject=400", ok, rj.loc(None), "" if ok else "reject() does not build 400 Bad Request", how="Response::BadRequest()")
    # decoder table
    table = {"JSON": ("application/json", r"serde_json::(de::)?from_slice$"), "URLEncoded": ("application/x-www-form-urlencoded", r"ohkami_lib::serde_urlencoded::from_bytes$"),
             "Multipart": ("multipart/form-data", r"ohkami_lib::serde_multipart::from_bytes$"), "Text": ("text/plain", r"core::str::converts::from_utf8$")}
    n = 0
    for name, (mime, dec) in table.items():
        fs2 = [g for g in prog.fns.values() if g.name == "from_body" and g.trait == "ohkami::request::from_request::FromBody" and g.self_ty and re.search(r"format::builtin::\w+::%s<" % name, g.self_ty)]
        cs = [c for k, c in prog.consts.items() if c.get("name") == "MIME_TYPE" and c.get("self_ty") and re.search(r"format::builtin::\w+::%s<" % name, c["self_ty"])]
        if not fs2:
            ck.ob(R, "format:%s" % name, False, "", "FromBody for %s not found" % name)
            continue
        n += 1
        g = fs2[0]
        got_mime = cs[0].get("s") if cs else mime_from_body(prog, g)
        calls = [c for h in [g] + prog.descendants(g.key) for c in h.calls_to(dec)]
        ok = bool(calls) and (got_mime == mime or got_mime is None)
        if ok and calls:
            src = decision.describe_deep(calls[0].fn, calls[0].args[0], 3)
            ok = "arg1" in src
        ck.ob(R, "format:%s" % name, ok, g.loc(None), "" if ok else "%s pairs media type %r with a decoder other than /%s/ on the body (or does not decode the body argument)" % (name, got_mime, dec), how="%s: %s -> %s(body)" % (name, mime, dec.split("::")[-1].rstrip("$")))
    ck.floor(R, "body formats", n, 4)
    # Query -> QueryParams::parse
    q = [g for g in prog.fns.values() if g.name == "from_request" and g.self_ty and re.search(r"format::builtin::query::Query<", g.self_ty)]
    ok = bool(q) and bool([c for h in [q[0]] + prog.descendants(q[0].key) for c in h.calls_to(r"request::query::QueryParams::parse$")])
    ck.ob(R, "format:Query", ok, q[0].loc(None) if q else "", "" if ok else "Query does not deserialize through QueryParams::parse", how="Query -> req.query.parse()")
    # Option<FR>: None only on the inner None edge
    o = [g for g in prog.fns.values() if g.name == "from_request" and g.trait == "ohkami::request::from_request::FromRequest" and g.self_ty == "core::option::Option<FR>"]
    if o:
        rows = decision.const_table(o[0], prog)
        tab = {}
        for conds, val in rows:
            tab[tuple(c[1] for c in conds)] = (val or {}).get("desc", "")
        ok = len(tab) == 2 and tab.get(("None",), "").startswith("Some{Ok{None") and "map(" in tab.get(("Some",), "")
        if not ok and len(tab) == 1:
            # the same function written with std: Option<Result<T, E>>::transpose() is None => Ok(None), Some(Ok(x)) => Ok(Some(x)),
            # Some(Err(e)) => Err(e)
            (only,) = tuple(tab.values())
            ok = re.fullmatch(r"Some\{transpose\(from_request\(arg1\)\)\}", only) is not None and bool(o[0].calls_to(r"^core::option::Option::<core::result::Result<T, E>>::transpose$"))
        ck.ob(R, "Option<FR>", ok, o[0].loc(None), "" if ok else "Option<FR>::from_request is %r: None must be produced only when the inner extractor reports absence" % tab, how="None => Some(Ok(None)); Some(fr) => Some(fr.map(Some))")


def mime_from_body(prog, g):
    return None


def c07d(ck, prog):
    R = "C07-d MUSTPASS percent-decoding"
    f = prog.one(r"^ohkami::request::from_request::FromParam::from_raw_param$")
    fp = [c for c in f.calls() if re.search(r"FromParam::from_param$", c.decl or "")]
    ok = len(fp) == 1
    if ok:
        src = decision.describe_deep(f, fp[0].args[0], 6)
        ok = "percent_decode_utf8(arg1)" in src and ("@Continue" in src or "@Ok" in src)
        ck.ob(R, "from_param-gets-decoded-text", ok, f.loc(fp[0].sp), "" if ok else "from_param receives `%s`, expected the successful percent_decode_utf8 of the raw segment" % src[:80], how="from_param(percent_decode_utf8(raw)?)")
        dec = f.calls_to(r"percent_encoding::percent_decode_utf8$")
        hit = dec and paths.has_fact(f, prog, fp[0].bb, lambda fa: fa.kind == "variant" and fa.allowed == {"Ok"} and fa.steps and fa.steps[-1][0] == "call" and fa.steps[-1][1].name in ("map_err", "percent_decode_utf8"))
        ck.ob(R, "decode-error-stops", bool(hit), f.loc(None), "" if hit else "from_param can run although percent-decoding failed", how="from_param under the Ok edge of percent_decode_utf8(..).map_err(..)")
    else:
        ck.ob(R, "from_param-gets-decoded-text", False, f.loc(None), "from_raw_param does not call from_param exactly once")


def c07e(ck, prog):
    """`the handler receives exactly what the request carries` for Multipart<T> bodies: a file field is absent for the handler
    only when the form's file input was left blank (no filename and no content), and a part of the wrong kind is an error,
    not a default. These are decisions of the multipart codec (C10-c, C10-d) re-evaluated here, because Option<File> /
    Vec<File> fields of a typed body are where a dropped zero-byte upload shows."""
    R = "C07-e DECISION multipart file presence"
    from . import C10
    sub = type(ck)(ck.prop, ck.tier)
    sub.config = ck.config
    sub.guard("C10-c DECISION empty file", lambda: C10.c10c(sub, prog))
    sub.guard("C10-d DECISION kind mismatch", lambda: C10.c10d(sub, prog))
    n = 0
    for o in sub.obs:
        if o["key"].startswith("floor:"):
            continue
        n += 1
        ck.ob(R, o["rule"].split(" ")[0] + ":" + o["key"], o["ok"], o["where"], o["detail"], how=o["how"], nontrivial=o.get("nontrivial", True))
    ck.floor(R, "codec decisions", n, 2)


def c07f(ck, prog):
    """`each path parameter is the segment at its position`: the router pushes captured segments in path order, so the k-th
    parameter of a handler is slot k-1 of the captured list. assume_one_param answers slot 0 and assume_two_params answers
    (slot 0, slot 1), by constant index -- not `the slot filled last`, which differs as soon as a handler takes fewer
    parameters than its route captures (allowed: finalize only asserts handler <= route)."""
    R = "C07-f TABLE param accessors by position"
    from .lib import paths as _paths
    want = {"assume_one_param": ["0"], "assume_two_params": ["0", "1"]}
    for nm, slots in want.items():
        fs = [f for f in prog.fns.values() if f.name == nm and "request::path" in f.key]
        if len(fs) != 1:
            raise AnchorLost("%s not found" % nm)
        f = prog.inlined(fs[0], 2, lambda caller, callee: callee.crate == caller.crate and "request::path" in callee.key and len(callee.blocks) < 40)
        got = []
        for bb, kind, payload in _paths.ret_sites(f):
            if kind == "other" and payload[0] == "agg":
                got = [decision.describe_deep(f, a, 12) for a in payload[2]]
            elif kind == "other" and payload[0] == "ref":
                got = [decision.describe_deep(f, ["c", payload[2]], 12)]
            elif kind == "call":
                got = ["%s(%s)" % (payload.name, ",".join(decision.describe_deep(f, a, 12) for a in payload.args))]
            elif kind == "move":
                got = [decision.describe_deep(f, payload, 12)]
        # `params.assume_nth::<K>()`: a private const-generic accessor whose own body answers `list[N]` for its parameter N
        # (an unevaluated constant in the generic body): the slot is the K it is instantiated with
        via_const_generic = []
        g0 = fs[0]
        elems = []
        for bb, kind, payload in _paths.ret_sites(g0):
            if kind == "other" and payload[0] == "agg":
                elems = list(payload[2])
            elif kind == "call":
                elems = [None]
                via_const_generic = [payload]
            elif kind == "other" and payload[0] == "ref":
                elems = [["c", [payload[2][0], []]]]
        if elems and elems != [None]:
            via_const_generic = [_paths.root_call(g0, a, through=r"(::as_bytes|::assume_init_ref|::deref|::as_ref)$") for a in elems]
        slots_cg = []
        for rc in via_const_generic:
            h = prog.fns.get(rc.callee) if rc is not None else None
            if h is None or len(rc.targs) != 1 or not re.fullmatch(r"\d+", str(rc.targs[0])) or "request::path" not in h.key:
                slots_cg = None
                break
            okh = False
            for bi in sorted(h.live_blocks()):
                for st in h.blocks[bi]["st"]:
                    if st["k"] == "=" and st["r"][0] == "ref":
                        pr = st["r"][2][1]
                        if any(x[0] == "f" and x[2] == "list" for x in pr) and pr and pr[-1][0] == "i":
                            sd = h.single_def(pr[-1][1])
                            if sd and sd[2] == "assign" and sd[3]["r"][0] == "use" and sd[3]["r"][1][0] == "k" and "v" not in sd[3]["r"][1][1]:
                                okh = True
            if not okh or [c for c in h.calls() if c.name in ("len", "next", "last")]:
                slots_cg = None
                break
            slots_cg.append(str(rc.targs[0]))
        if slots_cg and len(slots_cg) == len(slots):
            ok = slots_cg == slots
            ck.ob(R, nm, ok, fs[0].loc(None), "" if ok else "%s answers slot(s) %s of the captured parameters (through a const-generic accessor), expected %s" % (nm, slots_cg, slots),
                  how="%s -> list[N] with N = %s" % (nm, ", ".join(slots_cg)))
            continue
        idx = []
        for d in got:
            m = re.search(r"(?:get_unchecked|index|get)\([^()]*(?:\([^()]*\))?[^()]*\.list,const (\d+)\)", d)
            idx.append(m.group(1) if m and "next" not in d and "len(" not in d else "?(%s)" % d[:60])
        ok = idx == slots
        ck.ob(R, nm, ok, fs[0].loc(None), "" if ok else "%s answers slot(s) %s of the captured parameters, expected %s by constant index: a handler that takes fewer parameters than its route captures would receive the wrong segment" % (nm, idx, slots),
              how="%s -> list[%s]" % (nm, "], list[".join(slots)))


def c07g(ck, prog):
    """`the handler receives exactly the values the request carries` for sequence fields of Query<T> / URLEncoded<T>: a
    trailing separator is an empty last element (or a refused number), not nothing -- the sequence reader's clause C09-h
    re-evaluated for typed extraction."""
    R = "C07-g ORDER sequence fields"
    from . import C09
    sub = type(ck)(ck.prop, ck.tier)
    sub.config = ck.config
    sub.guard("C09-h ORDER separator then element", lambda: C09.c09h(sub, prog))
    n = 0
    for o in sub.obs:
        n += 1
        ck.ob(R, "C09-h:" + o["key"], o["ok"], o["where"], o["detail"], how=o["how"], nontrivial=o.get("nontrivial", True))
    ck.floor(R, "sequence reader clauses", n, 1)
