"""C13 BasicAuth fang admits exactly the configured credentials.
Decides: (a) the gate -- `Ok` of both `fore`s only under matches()==true, `matches` is the conjunction of two whole-string
equalities, first-colon split, `Basic ` prefix + base64; (b) every rejection is the 401 challenge; (c) no panic reachable."""
import re

from .lib import decision, guards, paths
from .lib.mir import AnchorLost
from .lib.reachrule import ReachRule

CONFIGS_QUICK = ["A", "R"]
CONFIGS_THOROUGH = ["A", "R", "NOAPI"]

TECHNIQUE = "dominance of the success return by the credential test (built MIR of the fore coroutines) + decision-tree extraction of matches() + panic reachability"
LEVEL_TEXT = ("Decides clauses C13-a/b/c: in both BasicAuth `fore` implementations every `Ok` return is dominated by matches()==true (directly or "
              "through the then_some/ok_or_else/? idiom; for the array impl through any()), matches() is exactly the conjunction of two whole-string "
              "equalities on (username, password), its arguments are the halves of split_once(':') of the base64-decoded text after the `Basic ` "
              "prefix of Authorization, every Err originates from unauthorized() (401 + `WWW-Authenticate: Basic ...`), and no panic sink is reachable "
              "from the fang. Decides these clauses, not the iff over all header values.")

FORE = r"FangAction for (ohkami::fang::builtin::basicauth::BasicAuth<S>|\[ohkami::fang::builtin::basicauth::BasicAuth<S>; N\])>::fore$"

AUDIT = [
    {"fn": r"ohkami::util::base64_decode_utf8(::\{closure#0\})?$", "sink": r"^assert:BoundsCheck$",
     "guards": [{"kind": "operand", "which": "index", "from": {"call": r"Utf8Error::valid_up_to$"}}],
     "reason": "valid_up_to() is the offset of the first invalid byte of a failed from_utf8, which exists: pos < len"},
]


def fores(prog):
    fs = [f for f in prog.find(FORE)]
    if len(fs) != 2:
        raise AnchorLost("expected the two BasicAuth FangAction::fore impls, found %d" % len(fs))
    return fs


def run(ck, progs):
    ck.explanation = LEVEL_TEXT
    ck.assumptions = ["A3: base64 crate's STANDARD.decode and String::from_utf8 compute what they document", "A5"]
    for cfg, prog in progs.items():
        ck.config = cfg
        ck.guard("C13-a DECISION matches", lambda: c13a_matches(ck, prog))
        ck.guard("C13-a MUSTPASS gate", lambda: c13a_gate(ck, prog))
        ck.guard("C13-a credential", lambda: c13a_credential(ck, prog))
        ck.guard("C13-b rejections", lambda: c13b(ck, prog))
        ck.guard("C13-c REACH", lambda: c13c(ck, prog))
    ck.config = None


def c13a_matches(ck, prog):
    f = prog.method(r"basicauth::BasicAuth<S>$", "matches")
    try:
        e = decision.bool_expr(f)
    except decision.TooComplex as x:
        ck.ob("C13-a DECISION matches", "matches", False, f.loc(None), "matches() is not a loop-free boolean decision tree (%s)" % x)
        return
    cs = decision.conjuncts(e)
    text = decision.show(e)
    # the same conjunction as one equality of pairs: (self.username, self.password) == (username, password)
    if len(cs) == 1 and cs[0][0] == "leaf":
        m = re.fullmatch(r"eq\(tuple\{(.*),(.*)\},tuple\{(.*),(.*)\}\)", cs[0][1])
        teq = [c for c in f.calls() if c.name == "eq"]
        if m and len(teq) == 1 and re.search(r"core::tuple::<impl core::cmp::PartialEq for \(", teq[0].callee or "") and [re.sub(r"\s", "", t) for t in teq[0].targs[:2]] == ["(&str,&str)", "(&str,&str)"]:
            l1, l2, r1, r2 = m.groups()
            cfg = r"(as_ref|deref|as_str)\(arg1\.%s\)"
            okp = (re.fullmatch(cfg % "username", l1) and re.fullmatch(cfg % "password", l2) and (r1, r2) == ("arg2", "arg3")) or \
                  (re.fullmatch(cfg % "username", r1) and re.fullmatch(cfg % "password", r2) and (l1, l2) == ("arg2", "arg3"))
            others = [c for c in f.calls() if c.name not in ("eq", "as_ref", "deref", "as_str")]
            ok = bool(okp) and not others
            ck.ob("C13-a DECISION matches", "matches", ok, f.loc(None), "" if ok else "matches() computes `%s`: the pair equality does not compare (self.username, self.password) with (username, password)" % text,
                  how="decision tree of matches() = %s (equality of pairs of &str: both components equal)" % text)
            return
    want = {"username": False, "password": False}
    helpers = set()
    ok = len(cs) == 2
    bad = ""
    for c in cs:
        if c[0] != "leaf":
            ok = False
            bad = "non-leaf conjunct %s" % decision.show(c)
            continue
        m = re.fullmatch(r"(\w+)\((.*),(.*)\)", c[1])
        helper = None
        if m and m.group(1) != "eq":
            hs = [g for g in prog.fns.values() if g.name == m.group(1) and g.key.startswith(f.key + "::")]
            helper = hs[0] if len(hs) == 1 else None
            if helper is not None:
                from .C12 import whole_slice_helper
                okh, howh = whole_slice_helper(prog, helper)
                if not okh:
                    ok = False
                    bad = "conjunct `%s`: %s" % (c[1][:50], howh)
                    continue
                helpers.add(helper.name)
        if not m or (m.group(1) != "eq" and helper is None):
            ok = False
            bad = "conjunct `%s` is not a whole-value equality (PartialEq::eq)" % c[1]
            continue
        a, b = m.group(2), m.group(3)
        pair = None
        for fld, arg in (("username", "arg2"), ("password", "arg3")):
            if (re.fullmatch(r"(as_ref|deref|as_str)\(arg1\.%s\)" % fld, a) and b == arg) or (re.fullmatch(r"(as_ref|deref|as_str)\(arg1\.%s\)" % fld, b) and a == arg):
                pair = fld
        if pair is None:
            ok = False
            bad = "equality `%s` does not compare self.username with the username argument or self.password with the password argument" % c[1]
        else:
            want[pair] = True
    # the equalities must be str equalities (not prefix / case-insensitive tests): callee identity
    eqs = [c for c in f.calls() if c.name in ("eq", "ne")]
    for c in f.calls():
        if c.name not in ("eq", "as_ref", "deref", "as_str", "as_bytes") and c.name not in helpers:
            ok = False
            bad = "unexpected call `%s` in matches()" % c.callee
    for c in eqs:
        if not re.search(r"PartialEq", c.callee or "") or [t.replace("&", "").strip() for t in c.targs[:2]] != ["str", "str"]:
            ok = False
            bad = "equality is `%s` on %s, expected PartialEq on str" % (c.callee, c.targs)
    ok = ok and all(want.values())
    ck.ob("C13-a DECISION matches", "matches", ok, f.loc(None),
          ("matches() computes `%s`: %s" % (text, bad or "expected eq(self.username, username) and eq(self.password, password)")) if not ok else "",
          how="decision tree of matches() = %s" % text)


def gate_fact(prog, f, bb):
    """is matches()==true (single impl) or any(matches)==true (array impl) known at block bb?"""
    fa = paths.has_fact(f, prog, bb, paths.bool_true(r"basicauth::BasicAuth::<S>::matches$"))
    if fa:
        return fa, "matches() == true (switch bb%d)" % fa.sw_bb
    fa = paths.has_fact(f, prog, bb, paths.bool_true(r"Iterator>?::any$|iterator::Iterator::any$"))
    if fa:
        c = fa.call
        # any(<iter>, closure): accepted shapes: any(map(iter, |c| c.matches(u,p)), |m| m)  or  any(iter, |c| c.matches(u,p))
        recv = f.origin(c.args[0])
        clos = f.origin(c.args[1])
        if not (clos and clos[-1][0] == "agg" and clos[-1][1][1].get("k") == "closure"):
            return None, "any() is not called with a closure literal"
        anyc = prog.fns.get(clos[-1][1][1]["def"])
        ae = decision.show(decision.bool_expr(anyc))
        if re.match(r"matches\(", ae):
            inner = ae
        else:
            if not re.fullmatch(r"arg2", ae):
                return None, "any() closure computes `%s`, expected the identity or matches(..)" % ae
            if not (recv and recv[-1][0] == "call" and recv[-1][1].name == "map"):
                return None, "any(|m| m) is not applied to map(..)"
            mc = recv[-1][1]
            mclos = f.origin(mc.args[1])
            if not (mclos and mclos[-1][0] == "agg" and mclos[-1][1][1].get("k") == "closure"):
                return None, "map() is not called with a closure literal"
            inner = decision.show(decision.bool_expr(prog.fns[mclos[-1][1][1]["def"]]))
            recv = f.origin(mc.args[0])
        if not re.fullmatch(r"matches\(arg2,.*\)", inner):
            return None, "the per-candidate test is `%s`, expected candidate.matches(username, password)" % inner
        if not (recv and recv[-1][0] == "call" and re.search(r"::iter$|into_iter$", recv[-1][1].callee or "")):
            return None, "any() does not range over self.iter()"
        return fa, "any(candidate.matches(username, password)) == true over self.iter() (switch bb%d)" % fa.sw_bb
    return None, "no dominating edge on which matches() is true"


def c13a_gate(ck, prog):
    n = 0
    for fo in fores(prog):
        f = prog.coroutine_body(fo.key)
        # the decode / split / compare steps may sit in a shared (possibly higher-order) helper
        f = prog.flattened(f, r"split_once$|BasicAuth::<S>::matches$|base64_decode_utf8$|core::str::<impl str>::find$")
        which = "array" if "[ohkami" in fo.key else "single"
        oks = [s for s in paths.ret_sites(f) if s[1] not in ("residual", "Err")]
        if not oks:
            ck.ob("C13-a MUSTPASS gate", "%s:no-ok" % which, False, f.loc(None), "fore has no Ok return at all")
        for i, (bb, kind, payload) in enumerate(oks):
            n += 1
            if kind != "Ok":
                ck.ob("C13-a MUSTPASS gate", "%s:ret%d" % (which, i), False, f.loc(None), "fore returns a value of unrecognised form (%s) that is not the `?` residual" % kind)
                continue
            fa, how = gate_fact(prog, f, bb)
            ck.ob("C13-a MUSTPASS gate", "%s:Ok-return" % which + ("#%d" % i if i else ""), fa is not None, f.loc(None),
                  "" if fa else "`Ok(())` is returned from BasicAuth::fore (%s impl) on a path where the credential test has not succeeded: %s" % (which, how), how=how)
            if fa is None:
                continue
            # the arguments of matches are the two halves of split_once(':') on the decoded credential
            mcalls = [c for g in [f] + ([] if f.rec.get("inlined") else prog.descendants(f.key)) for c in g.calls_to(r"basicauth::BasicAuth::<S>::matches$")]
            if f.rec.get("inlined") and not mcalls:
                mcalls = [c for g in prog.descendants(fo.key) for c in g.calls_to(r"basicauth::BasicAuth::<S>::matches$")]
            for c in mcalls:
                g = c.fn
                # name-independent: an argument is either the value itself or a captured variable, resolved in the enclosing body
                def src_of(a):
                    if g is not f and f.rec.get("inlined"):
                        # the closure literal is built in the flattened body: its i-th captured operand is what upvar i holds
                        pl = a[1] if a[0] in ("c", "m") else None
                        st_ = g.origin(a)
                        base = st_[-1] if st_ else None
                        idx = None
                        for x in (st_ or []):
                            for pr in (x[2] if len(x) > 2 and isinstance(x[2], list) else []):
                                if pr[0] == "f" and isinstance(pr[2], str) and pr[2].startswith("^"):
                                    idx = pr[1]
                        if idx is not None:
                            for bi_ in sorted(f.live_blocks()):
                                for st2 in f.blocks[bi_]["st"]:
                                    if st2["k"] == "=" and st2["r"][0] == "agg" and st2["r"][1].get("k") == "closure" and st2["r"][1].get("def") == g.key and idx < len(st2["r"][2]):
                                        return decision.describe_deep(f, st2["r"][2][idx], 10)
                    cap = paths.capture_desc(prog, g, a, 10) if g is not f else None
                    return cap if cap else decision.describe_deep(g, a, 10)
                d1, d2 = src_of(c.args[1]), src_of(c.args[2])
                src = d1[-60:] + " | " + d2[-60:]
                ok = re.search(r"split_once\(.*@(Continue|Some)\.0\.0(\.0)?$", d1) is not None and re.search(r"split_once\(.*@(Continue|Some)\.0\.1(\.1)?$", d2) is not None
                if not ok:
                    # the same halves by position of the first colon: (&c[..i], &c[i + 1..]) with i = c.find(':')
                    m1 = re.search(r"index\((.*),RangeTo\{(.*)\}\)(?:\.\d)?$", d1)
                    m2 = re.search(r"index\((.*),RangeFrom\{Add(?:WithOverflow|Unchecked)?\((.*),const 1\)(?:\.0)?\}\)(?:\.\d)?$", d2)
                    ok = bool(m1 and m2 and m1.group(1) == m2.group(1) and m1.group(2) == m2.group(2)
                              and re.search(r"(?<![r\w])find\(", m1.group(2)) and "const ':'" in m1.group(2) and "rfind(" not in m1.group(2))
                ck.ob("C13-a MUSTPASS gate", "%s:matches-args" % which, ok, g.loc(c.sp),
                      "" if ok else "matches() is called with (..%s), expected (first half, second half) of split_once(':')" % src, how="matches(split.0, split.1)")
        # split_once(':') -- callee identity and the separator
        sp = f.calls_to(r"^core::str::<impl str>::(split_once|rsplit_once|split|rsplit|splitn|rsplitn|split_terminator|split_at)")
        ok = len(sp) == 1 and sp[0].name == "split_once"
        sep = None
        if ok:
            cs = f.const_args(sp[0])
            sep = cs[1].get("ch") if cs[1] else None
            ok = sep == ":"
        elif not sp:
            # position of the FIRST colon (find, not rfind) followed by slicing: equivalent to split_once(':')
            fd = [c for c in f.calls() if c.name in ("find", "rfind", "position", "rposition") and re.search(r"^core::str::<impl str>::", c.callee or "")]
            if len(fd) == 1 and fd[0].name == "find":
                cs = f.const_args(fd[0])
                sep = cs[1].get("ch") if len(cs) > 1 and cs[1] else None
                ok = sep == ":"
                sp = fd
        ck.ob("C13-a MUSTPASS gate", "%s:first-colon-split" % which, ok, f.loc(sp[0].sp if sp else None),
              "" if ok else "credential is split with %s(%r), expected exactly one split_once(':') (user = text before the FIRST colon)" % ([c.name for c in sp], sep),
              how="split_once(':')")
        if ok:
            # the (username, password) bound from its Some payload, and the split text comes from basic_credential_of
            recv = decision.describe_deep(f, sp[0].args[0], 8)
            ok2 = "basic_credential_of" in recv
            if not ok2:
                # with the credential helper spliced in: every value the split text can hold is the decoded credential
                PASS = ("deref", "ok", "ok_or_else", "ok_or", "as_str", "as_ref", "branch", "unwrap", "expect", "borrow", "clone", "to_owned", "into", "from_residual")

                def decoded_op(op, depth=8):
                    if depth <= 0:
                        return False
                    lv = paths.leaf_values(f, op)
                    if not lv:
                        return False
                    for l in lv:
                        if l[0] != "call":
                            return False
                        c = l[1]
                        if c.name in ("base64_decode_utf8", "basic_credential_of"):
                            continue
                        if c.name == "from_residual":
                            continue      # the `?` residual (None / Err): never the successful value being split
                        if c.name in PASS and c.args and decoded_op(c.args[0], depth - 1):
                            continue
                        return False
                    return True
                ok2 = decoded_op(sp[0].args[0])
                recv = "every value: decoded credential" if ok2 else recv
            ck.ob("C13-a MUSTPASS gate", "%s:split-source" % which, ok2, f.loc(sp[0].sp), "" if ok2 else "split_once is applied to `%s`, not to the result of basic_credential_of" % recv, how=recv)
    ck.floor("C13-a MUSTPASS gate", "Ok returns of fore", n, 2)


def c13a_credential(ck, prog):
    f = prog.one(r"basicauth::(_::)?basic_credential_of$")
    # closures (an immediately called one, or those handed to and_then / map) read in place
    fv = prog.flattened(f, r"strip_prefix$|base64_decode_utf8$", combinators=True)
    bodies = [fv] if fv is not f else [f] + prog.descendants(f.key)
    sp = [c for g in bodies for c in g.calls_to(r"^core::str::<impl str>::(strip_prefix|trim_start_matches|starts_with|split_at|get|trim|trim_start)$")]
    ok = len(sp) == 1 and sp[0].name == "strip_prefix"
    lit = None
    if ok:
        lit = (sp[0].fn.const_args(sp[0])[1] or {}).get("s")
        ok = lit == "Basic "
    ck.ob("C13-a credential", "strip_prefix", ok, f.loc(None), "" if ok else "scheme test is %s with literal %r, expected strip_prefix(\"Basic \")" % ([c.name for c in sp], lit), how='strip_prefix("Basic ")')
    if ok:
        g = sp[0].fn
        recv = decision.describe_deep(g, sp[0].args[0], 6)
        ok2 = "Authorization" in recv
        ck.ob("C13-a credential", "header", ok2, g.loc(sp[0].sp), "" if ok2 else "prefix is stripped from `%s`, not from the Authorization header" % recv, how=recv)
    dec = [c for g in bodies for c in g.calls_to(r"ohkami::util::base64_decode")]
    ok = len(dec) == 1 and dec[0].name == "base64_decode_utf8"
    ck.ob("C13-a credential", "base64", ok, f.loc(None), "" if ok else "credential is decoded with %s" % [c.callee for c in dec], how="base64_decode_utf8")
    if ok:
        g = dec[0].fn
        src = decision.describe_deep(g, dec[0].args[0], 6)
        ok2 = "strip_prefix" in src
        if not ok2:
            # through the Option the first and_then produced: every value the operand can hold
            lv = paths.leaf_values(g, dec[0].args[0]) if dec[0].args[0][0] in ("c", "m") else []
            ok2 = bool(lv) and all(l[0] == "call" and l[1].name == "strip_prefix" for l in lv)
            if ok2:
                src = "strip_prefix(..)@Some.0 (through and_then)"
        ck.ob("C13-a credential", "base64-arg", ok2, g.loc(dec[0].sp), "" if ok2 else "base64 input is `%s`, not the text after the `Basic ` prefix" % src, how=src)
        d = prog.one(r"^ohkami::util::base64_decode_utf8$")
        d = prog.inlined(d, 1, r"Engine>?::decode$|engine::Engine::decode$")     # may go through base64_decode()
        eng = [c for c in d.calls_to(r"Engine>?::decode$|engine::Engine::decode$")]
        recv = decision.describe_deep(d, eng[0].args[0], 3) if eng else "?"
        cons = [st["r"] for b in d.blocks for st in b["st"] if st["k"] == "=" and "STANDARD" in str(st["r"])]
        uses_std = any("general_purpose::STANDARD" in str(x) and "NO_PAD" not in str(x) and "URL_SAFE" not in str(x) for x in cons)
        ck.ob("C13-a credential", "base64-alphabet", bool(eng) and uses_std, d.loc(None), "" if (eng and uses_std) else "base64_decode_utf8 does not decode with the STANDARD (RFC 4648 section 4, padded) engine", how="general_purpose::STANDARD")


def c13b(ck, prog):
    un = prog.one(r"basicauth::(_::)?unauthorized$")
    bodies = [prog.coroutine_body(fo.key) for fo in fores(prog)] + [prog.one(r"basicauth::(_::)?basic_credential_of$")]
    # helpers of the module that fore goes through (an `authenticate(req, ..)` shared by both impls)
    seen = {b.key for b in bodies}
    work = list(bodies)
    while work:
        h = work.pop()
        for g_ in [h] + prog.descendants(h.key):
            for c in g_.calls():
                t = prog.fns.get(c.callee or "")
                if t is not None and "fang::builtin::basicauth::" in t.key and t.key not in seen and t.name not in ("unauthorized", "matches"):
                    seen.add(t.key)
                    bodies.append(t)
                    work.append(t)
    n = 0
    for f in bodies:
        for g in [f] + prog.descendants(f.key):
            for bb, kind, payload in paths.ret_sites(g):
                if kind == "Err" and g.locals[0].startswith("core::result::Result<"):
                    n += 1
                    src = decision.describe_deep(g, payload[2][0], 4)
                    ok = "unauthorized" in src
                    ck.ob("C13-b rejections", "%s:Err-literal" % g.name, ok, g.loc(None), "" if ok else "an Err built from `%s`, not from unauthorized()" % src, how=src)
            for c in g.calls_to(r"Option::<T>::(ok_or_else|ok_or)$|Result::<T, E>::(map_err|or_else)$"):
                if not g.locals[c.dest[0]].startswith("core::result::Result<"):
                    continue
                n += 1
                src = decision.describe_deep(g, c.args[1], 3)
                ok = src == "fn:unauthorized" or "unauthorized(" in src
                ck.ob("C13-b rejections", "%s:%s" % (f.key.rsplit("::", 2)[-2][-30:] + "::" + g.name, c.name) + "@" + decision.describe_deep(g, c.args[0], 2)[:40], ok, g.loc(c.sp),
                      "" if ok else "error value comes from `%s`, expected unauthorized" % src, how="error = " + src)
    ck.floor("C13-b rejections", "error-producing sites", n, 3)
    # unauthorized(): 401 + WWW-Authenticate: Basic ...
    st = un.calls_to(r"Response>::Unauthorized$")
    ok = len(st) >= 1
    ck.ob("C13-b rejections", "status-401", ok, un.loc(None), "" if ok else "unauthorized() does not build Response::Unauthorized()", how="Response::Unauthorized()")
    lits = []
    for g in [un] + prog.descendants(un.key):
        for c in g.calls_to(r"SetHeaders::<'set>::WWWAuthenticate$"):
            for a in g.const_args(c):
                if a and "s" in a:
                    lits.append(a["s"])
    ok = len(lits) == 1 and re.match(r"Basic( |$)", lits[0]) is not None
    ck.ob("C13-b rejections", "challenge", ok, un.loc(None), "" if ok else "WWW-Authenticate is set to %r, expected a `Basic` challenge" % lits, how="WWWAuthenticate(%r)" % (lits[0] if lits else None))


def c13c(ck, prog):
    roots = [prog.coroutine_body(fo.key) for fo in fores(prog)] + fores(prog)
    rr = ReachRule(ck, prog, "C13-c REACH", roots, audit=AUDIT, boundary=[r"^core::convert::AsRef::as_ref$"],
                   stop=[r"^ohkami::response::", r"<impl ohkami::response::Response>", r"^ohkami::request::headers::"])
    sinks = rr.run()
    ck.floor("C13-c REACH", "functions reached", len(rr.R.reached), 3)
